#!/usr/bin/env python3
"""Generates MANIFEST.json from props_meta.py (the properties themselves are fixed in properties.jsonl)."""
import json, os, subprocess, sys
HERE = os.path.dirname(os.path.abspath(__file__))
sys.path.insert(0, HERE)
from props_meta import PROPS, NOT_APPLICABLE, HOOK_COMMITS

all_ids = [json.loads(l)['id'] for l in open(os.path.join(HERE, 'properties.jsonl'))]
checks = []
for pid in all_ids:
    if pid not in PROPS:
        continue
    m = PROPS[pid]
    checks.append(dict(
        property_id=pid,
        quick_cmd='./check %s --tier quick' % pid,
        thorough_cmd='./check %s --tier thorough' % pid,
        evidence_file='/verif/evidence/%s.json' % pid,
        replay_cmd_template='./check %s --replay {path}' % pid,
        engine=m.get('engines', 'rapidcheck'),
        level_claimed=dict(category='exploration', text=m['level_text'], design_ref=m.get('design_ref', 'DESIGN.md section 5')),
        level_note=m['level_note'],
        technique=m['technique'],
    ))
na = [dict(property_id=p, reason=NOT_APPLICABLE.get(p, 'check not built yet in this session; no claim is made')) for p in all_ids if p not in PROPS]
man = dict(
    version=1,
    setup_cmd='./check --setup',
    hooks=dict(guard='CCL_VERIF',
               enable='./check compiles the seven library translation units and pyconcept.cpp from /repo with -DCCL_VERIF (clang++ ASan+UBSan)',
               baseline_off_cmd='/verif/baseline_off.sh',
               source_commits=HOOK_COMMITS, add_only=True),
    engines=[
        dict(name='rapidcheck', path='/usr/include/rapidcheck.h', serves_properties=[p for p in all_ids if p in PROPS and PROPS[p].get('harness')],
             kind_free_text='property-based testing library; generators, shrinking; driven through harness/common/pbt.hpp (choice-tape record/replay, exhaustive enumeration of the same generators)'),
        dict(name='libFuzzer', path='clang++ -fsanitize=fuzzer', serves_properties=[p for p in all_ids if p in PROPS and PROPS[p].get('fuzz')],
             kind_free_text='coverage-guided in-process fuzzing with the semantic oracle inside the target; ASan+UBSan'),
    ],
    checks=checks,
    not_applicable=na,
    notes='All checks are ./check <id> (Python driver): content-hash based rebuild of /repo working tree with ASan+UBSan and -DCCL_VERIF, regression tier, '
          'known-finding witnesses, rapidcheck / libFuzzer search, 3x replay before VIOLATION. See DESIGN.md.',
)
json.dump(man, open(os.path.join(HERE, 'MANIFEST.json'), 'w'), indent=1)
print('MANIFEST.json: %d checks, %d not claimed' % (len(checks), len(na)))
