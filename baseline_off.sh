#!/bin/sh
# Runs the repository's pinned baseline suite with the verification guard (CCL_VERIF) OFF:
# configure + build /repo/_build exactly as the baseline does (targets that do not compile under the
# pinned toolchain are skipped with -k0, as in the baseline), then ctest.
set -u
B=/repo/_build
if [ ! -f "$B/build.ninja" ]; then
  cmake -S /repo/ccl -B "$B" -G Ninja -DCMAKE_BUILD_TYPE=RelWithDebInfo -DBUILD_TESTING=ON -DCC_BuildTests=ON \
    -DCMAKE_POLICY_VERSION_MINIMUM=3.5 -DFETCHCONTENT_TRY_FIND_PACKAGE_MODE=ALWAYS -DFETCHCONTENT_UPDATES_DISCONNECTED=ON \
    -DFETCHCONTENT_SOURCE_DIR_GOOGLETEST=/usr/src/googletest -DCMAKE_COMPILE_WARNING_AS_ERROR=OFF \
    -DCMAKE_CXX_FLAGS="-Wno-error" -DCMAKE_C_FLAGS="-Wno-error" > /dev/null || exit 2
fi
cmake --build "$B" -j"$(nproc)" -- -k0 > "$B/verif_build.log" 2>&1
ctest --test-dir "$B" -j8 --timeout 900 -E '_NOT_BUILT$'
