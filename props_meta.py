# Per-property configuration of the checks: which harness binaries and fuzz targets decide it,
# the stated non-triviality rule (copied into the evidence), and the text for MANIFEST.json.
# MANIFEST.json is generated from this file by ./gen_manifest.py.

PROPS = {}


def prop(pid, **kw):
    PROPS[pid] = kw


prop('C20',
     harness=['C20'],
     rule='Generated: (i) exhaustively, every string of <=4 code points over an 8-symbol alphabet with 1-,2-,3- and 4-byte code points, each '
          'checked for iteration/size/Substr over every code-point range incl. out-of-bounds/split/trim/IsInteger against reference code on an '
          'explicit code-point vector; (ii) exhaustively, every pair of ranges with start<=finish and ends in [-1,6]; (iii) rapidcheck: strings '
          'of <=64 code points over 24 symbols, range pairs in windows +-12 / +-1000 biased to touching/overlapping, Merge over lists. '
          'Non-trivial: the string contains a multi-byte code point / the pair is not disjoint-and-far / the list has >=3 ranges. '
          'Distinct = distinct hash of the rendered case.',
     technique='exhaustive enumeration of short strings and range pairs + rapidcheck random cases against reference definitions',
     level_text='Bounded-exhaustive plus random exploration against an independent reference: every string of <=4 code points over 1-4 byte '
                'symbols and every range pair in a window is checked, longer strings and wider windows are sampled. Any deviation of a utility '
                'from its definition on those inputs is found; inputs beyond the bounds are only sampled.',
     level_note='Trusted base: the reference definitions in harness/props/C20.cpp (written from the header comments, Allen interval algebra and the '
                'upstream unit tests). Contains(empty range located exactly at finish) is left unconstrained (undocumented). Only well-formed UTF-8 '
                'and ranges with start<=finish (the documented precondition) are generated.',
     design_ref='DESIGN.md section 5, C20',
     assumptions=['well-formed UTF-8 input (documented requirement of UTF8CharSize)', 'StrRange precondition start<=finish', 'Substr bounds are non-negative'],
     )

prop('C14',
     harness=['C14'],
     rule='Generated: (i) exhaustively every digraph (with self-loops) on <=3 vertices and every loop-free digraph on <=4 vertices, each under every '
          'vertex insertion order and two edge insertion orders; (ii) exhaustively, on 3 vertices, any graph / erase one vertex / re-insert it with any '
          'edges; (iii) rapidcheck histories of 1-24 operations AddItem/EraseItem/AddConnection/SetItemInputs/Clear (+UpdatableGraph UpdateFor/'
          'Invalidate/SetValid) over <=8 uids with every query compared after every operation against an adjacency-set model. Non-trivial: the '
          'history contains an effective erase or input replacement, or the graph has a cycle (exhaustive part: cycle or >=2 edges). Distinct = hash of the rendered history.',
     technique='model-based stateful rapidcheck histories + exhaustive small-graph enumeration against an adjacency-set reference graph',
     level_text='Model-based exploration: every public const query is compared with a naive reference graph after every mutation of generated histories, '
                'and all graphs up to 4 vertices are enumerated under all insertion orders. Deviations that need a particular DFS/insertion order or a '
                'tombstoned vertex are reached by construction on small graphs; larger graphs are sampled.',
     level_note='Trusted base: the reference model in harness/props/C14.cpp (reachability by search, SCC by double reachability). IsReachableFrom(x,x) is '
                'constrained only where upstream tests pin it (self edge => true, no cycle through x => false). Topological order is only required to '
                'respect edges when the graph is acyclic, as the property states.',
     design_ref='DESIGN.md section 5, C14',
     assumptions=['single-threaded use'],
     )

# properties not claimed (reason) - kept current by hand
NOT_APPLICABLE = {}
HOOK_COMMITS = ['7d7dca5']

prop('C06',
     harness=['C06'],
     rule='Generated: random trees over the whole abstract syntax of RSParserImpl.y (all operators, binders incl. tuple/enumerated declarations, '
          'declarative/recursive/imperative constructors, filters, calls, function definitions, global declarations; types ignored), rendered by the '
          'harness printer (own token tables and precedence table) to MATH and ASCII with 0-3 optional parenthesis layers where the grammar admits '
          'them, random blanks/tabs/newlines; plus exhaustively every (parent, side, child) pair of binary operators in both syntaxes incl. the '
          'unparenthesised a op1 b op2 c grouping. Oracle: parsed tree == generated tree; every node range == a span recorded by the printer '
          '(core text or one of the node\'s own parenthesis layers); FindMinimalNode validity. Non-trivial: >=3 operator nodes and (a multi-byte '
          'token or a redundant parenthesis layer or a newline). Distinct = hash of rendered text.',
     technique='rapidcheck grammar-based generation with an independent printer/precedence model; parse result compared with the generating tree; exhaustive operator-pair table',
     level_text='Generated-input exploration with a reference model of the grammar: trees are printed by an independent printer and the parser must '
                'reconstruct exactly the generating tree and its code-point spans. A changed precedence/associativity line, semantic action or '
                'position computation shows up as a tree or range mismatch on some generated text.',
     level_note='Trusted base: the printer and precedence table in harness/model/rsast.hpp (transcribed from the grammar file). Integer literals are drawn '
                'from [0, INT32_MAX] and indices from small values (overflow of literals is C05/C04 territory). A node range is accepted if it equals the '
                'node\'s core span or one of its own parenthesis layers (the property says "exactly the text of its own subtree").',
     design_ref='DESIGN.md section 5, C06',
     assumptions=['only grammatical input (rejection of ungrammatical input is C04)'],
     )

prop('C05',
     harness=['C05'],
     rule='Generated: random grammatical trees over the whole abstract syntax (types ignored), Greek local names, rendered to MATH or ASCII by the '
          'harness printer; exhaustively every operator as parent of every operator as left/right/both child (set/arithmetic, logical, and '
          'negation/quantifier parents) in both source syntaxes. Oracle: Parse -> Generator::FromTree(MATH|ASCII) -> Parse gives a tree equal under '
          'SyntaxTree::operator== and equal to the generating tree (ASCII: local names through my copy of the transliteration table); printing the '
          're-parsed tree is a fixpoint; ConvertTo there-and-back preserves the tree when local names stay distinct; conversion is idempotent. '
          'Non-trivial: an operator node with an operator child (bracket placement matters) or a constructor. Distinct = hash of rendered text. '
          'Integer literals are drawn from [0, INT32_MAX] (see known findings).',
     technique='rapidcheck grammar-based generation + print/parse round-trip oracle in both syntaxes + exhaustive operator-pair table',
     level_text='Round-trip exploration over generated trees: every (parent, child, side) operator pair is covered exhaustively, deeper nestings and all '
                'constructors by random generation. A missing bracket, a wrong token spelling in either syntax or an unstable printer shows up as a '
                're-parse failure or a different tree.',
     level_note='Trusted base: harness printer/precedence model (rsast.hpp) used to create the source text and the expected tree. Direct double '
                'application of ConvertTo is only checked when the text has no "*" (MATH multiply vs ASCII product: the one token whose meaning differs).',
     design_ref='DESIGN.md section 5, C05',
     assumptions=['integer literals within int32, indices within int16'],
     )
