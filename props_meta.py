# Per-property configuration of the checks: which harness binaries and fuzz targets decide it,
# the stated non-triviality rule (copied into the evidence), and the text for MANIFEST.json.
# MANIFEST.json is generated from this file by ./gen_manifest.py.

PROPS = {}


def prop(pid, **kw):
    PROPS[pid] = kw


prop('C20',
     harness=['C20'],
     rule='Generated: (i) exhaustively, every string of <=4 code points over an 8-symbol alphabet with 1-,2-,3- and 4-byte code points, each '
          'checked for iteration/size/Substr over every code-point range incl. out-of-bounds/split/trim/IsInteger against reference code on an '
          'explicit code-point vector; (ii) exhaustively, every pair of ranges with start<=finish and ends in [-1,6]; (iii) rapidcheck: strings '
          'of <=64 code points over 24 symbols, range pairs in windows +-12 / +-1000 biased to touching/overlapping, Merge over lists. '
          'Non-trivial: the string contains a multi-byte code point / the pair is not disjoint-and-far / the list has >=3 ranges. '
          'Distinct = distinct hash of the rendered case.',
     technique='exhaustive enumeration of short strings and range pairs + rapidcheck random cases against reference definitions',
     level_text='Bounded-exhaustive plus random exploration against an independent reference: every string of <=4 code points over 1-4 byte '
                'symbols and every range pair in a window is checked, longer strings and wider windows are sampled. Any deviation of a utility '
                'from its definition on those inputs is found; inputs beyond the bounds are only sampled.',
     level_note='Trusted base: the reference definitions in harness/props/C20.cpp (written from the header comments, Allen interval algebra and the '
                'upstream unit tests). Contains(empty range located exactly at finish) is left unconstrained (undocumented). Only well-formed UTF-8 '
                'and ranges with start<=finish (the documented precondition) are generated.',
     design_ref='DESIGN.md section 5, C20',
     assumptions=['well-formed UTF-8 input (documented requirement of UTF8CharSize)', 'StrRange precondition start<=finish', 'Substr bounds are non-negative'],
     )

prop('C14',
     harness=['C14'],
     rule='Generated: (i) exhaustively every digraph (with self-loops) on <=3 vertices and every loop-free digraph on <=4 vertices, each under every '
          'vertex insertion order and two edge insertion orders; (ii) exhaustively, on 3 vertices, any graph / erase one vertex / re-insert it with any '
          'edges; (iii) rapidcheck histories of 1-24 operations AddItem/EraseItem/AddConnection/SetItemInputs/Clear (+UpdatableGraph UpdateFor/'
          'Invalidate/SetValid) over <=8 uids with every query compared after every operation against an adjacency-set model. Non-trivial: the '
          'history contains an effective erase or input replacement, or the graph has a cycle (exhaustive part: cycle or >=2 edges). Distinct = hash of the rendered history.',
     technique='model-based stateful rapidcheck histories + exhaustive small-graph enumeration against an adjacency-set reference graph',
     level_text='Model-based exploration: every public const query is compared with a naive reference graph after every mutation of generated histories, '
                'and all graphs up to 4 vertices are enumerated under all insertion orders. Deviations that need a particular DFS/insertion order or a '
                'tombstoned vertex are reached by construction on small graphs; larger graphs are sampled.',
     level_note='Trusted base: the reference model in harness/props/C14.cpp (reachability by search, SCC by double reachability). IsReachableFrom(x,x) is '
                'constrained only where upstream tests pin it (self edge => true, no cycle through x => false). Topological order is only required to '
                'respect edges when the graph is acyclic, as the property states.',
     design_ref='DESIGN.md section 5, C14',
     assumptions=['single-threaded use'],
     )

# properties not claimed (reason) - kept current by hand
NOT_APPLICABLE = {}
HOOK_COMMITS = ['7d7dca5']
