# Per-property configuration of the checks lives in meta/<id>.py (one file per property, each defining META):
#   harness=[...]      rapidcheck harness binaries (harness/props/<name>.cpp)
#   fuzz=[{name,...}]  libFuzzer targets (harness/fuzz/<name>.cpp)
#   rule, technique, level_text, level_note, design_ref, assumptions   -> evidence / MANIFEST.json
# MANIFEST.json is generated from these files by ./gen_manifest.py.
import glob, importlib.util, os

HERE = os.path.dirname(os.path.abspath(__file__))
PROPS = {}
for path in sorted(glob.glob(os.path.join(HERE, 'meta', 'C*.py'))):
    pid = os.path.splitext(os.path.basename(path))[0]
    spec = importlib.util.spec_from_file_location('verif_meta_' + pid, path)
    mod = importlib.util.module_from_spec(spec)
    spec.loader.exec_module(mod)
    PROPS[pid] = mod.META

# properties not claimed (reason) - kept current by hand
NOT_APPLICABLE = {}
HOOK_COMMITS = ['7d7dca5']
