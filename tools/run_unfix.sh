#!/bin/bash
# every repaired defect, reverted one at a time in a scratch worktree, must be re-found by the random search of its
# property's quick tier WITHOUT the regression tier (VERIF_NO_REGRESS=1), i.e. by search alone.
cd /verif
for p in mutants/unfix/*.patch; do
  b=$(basename $p .patch); id=${b%%-*}
  echo -n "$b: "; VERIF_NO_REGRESS=1 tools/try_patch.sh $p $id | tail -1
done
