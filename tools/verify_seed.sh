#!/bin/bash
# Independent confirmation of a seeded change produced by a sub-agent in /var/tmp/mut-<id>[suffix]:
#  (1) the change is what patch.diff says and applies to /repo HEAD, (2) the worktree's test suite is green with it,
#  (3) the demonstration FAILS against the changed library and (4) PASSES against the unchanged library (/repo/_build).
# usage: tools/verify_seed.sh <id> [suffix]      e.g. verify_seed.sh C14   /  verify_seed.sh C14 b
set -u
ID=$1; SUF=${2:-}
WT=/var/tmp/mut-$ID$SUF; OUT=/var/tmp/mut-$ID$SUF-out
[ -f $OUT/patch.diff ] || { echo "no patch"; exit 2; }
git -C /repo apply --check $OUT/patch.diff 2>/dev/null && echo "patch applies to /repo HEAD: yes" || echo "patch applies to /repo HEAD: NO"
(cmake --build $WT/_build -j8 -- -k0 > /dev/null 2>&1; ctest --test-dir $WT/_build -j8 -E _NOT_BUILT 2>&1 | grep -E "tests passed|tests failed" )
cd $OUT
rm -f demo; sh ./build_demo.sh > /dev/null 2>&1; ./demo > demo.changed.log 2>&1; echo "demo with change: exit $? ($(tail -1 demo.changed.log))"
sed "s#$WT\\([/ \"]\\|\$\\)#/repo\\1#g" build_demo.sh > build_demo_unchanged.sh   # the worktree, not the -out directory next to it
(cmake --build /repo/_build -j8 -- -k0 > /dev/null 2>&1)
rm -f demo; sh ./build_demo_unchanged.sh > /dev/null 2>&1; ./demo > demo.unchanged.log 2>&1; echo "demo without change: exit $? ($(tail -1 demo.unchanged.log))"
