#!/bin/bash
# Re-confirms a stored seeded change from scratch: tools/reverify_seed.sh seeded/<dir>
#  (1) patch applies to /repo HEAD, (2) a scratch worktree with the patch builds and its whole test suite is green,
#  (3) the stored demonstration FAILS against that build and (4) PASSES against the unchanged /repo/_build.
# The scratch worktree and its build live under /var/tmp and are removed at the end.
set -u
D=$(readlink -f "$1"); ID=$(basename "$D")
WT=/var/tmp/reverify-$ID
git -C /repo worktree remove --force "$WT" >/dev/null 2>&1; rm -rf "$WT"
git -C /repo worktree add -q --detach "$WT" HEAD || exit 2
trap 'git -C /repo worktree remove --force "$WT" >/dev/null 2>&1; rm -rf "$WT" /var/tmp/reverify-$ID-demo' EXIT
git -C "$WT" apply "$D/patch.diff" || { echo "$ID: PATCH-DOES-NOT-APPLY"; exit 2; }
cmake -S "$WT/ccl" -B "$WT/_build" -G Ninja -DCMAKE_BUILD_TYPE=RelWithDebInfo -DBUILD_TESTING=ON -DCC_BuildTests=ON -DCMAKE_POLICY_VERSION_MINIMUM=3.5 \
  -DFETCHCONTENT_TRY_FIND_PACKAGE_MODE=ALWAYS -DFETCHCONTENT_UPDATES_DISCONNECTED=ON -DFETCHCONTENT_SOURCE_DIR_GOOGLETEST=/usr/src/googletest \
  -DCMAKE_COMPILE_WARNING_AS_ERROR=OFF -DCMAKE_CXX_FLAGS=-Wno-error > /dev/null 2>&1
cmake --build "$WT/_build" -j"${JOBS:-8}" -- -k0 > "$WT/_build/build.log" 2>&1
suite=$(ctest --test-dir "$WT/_build" -j8 -E _NOT_BUILT 2>&1 | grep -E "tests passed|tests failed" | head -1)
[ -f /repo/_build/build.ninja ] && cmake --build /repo/_build -j"${JOBS:-8}" -- -k0 > /dev/null 2>&1
mkdir -p /var/tmp/reverify-$ID-demo; cp "$D/demo.cpp" /var/tmp/reverify-$ID-demo/
orig=$(grep -o '/var/tmp/mut-C[0-9]*[a-z]*' "$D/build_demo.sh" | head -1)   # the agent's worktree path inside the stored script
build() {  # $1 = root to compile against
  sed -e "s#${orig}-out#/var/tmp/reverify-$ID-demo#g" -e "s#${orig}\\([/ \"]\\|\$\\)#$1\\1#g" "$D/build_demo.sh" > /var/tmp/reverify-$ID-demo/b.sh
  (cd /var/tmp/reverify-$ID-demo && rm -f demo && sh ./b.sh > build.log 2>&1; ./demo > run.log 2>&1; echo "exit $? ($(tail -1 run.log | cut -c1-60))")
}
echo "$ID: suite with change: $suite | demo with change: $(build "$WT") | demo without change: $(build /repo)"
