#!/bin/bash
# Sensitivity run: apply a patch to a scratch worktree of /repo (never to /repo itself while other work is running),
# run the quick tier of the given properties against it with a separate build directory, print the verdicts.
#   tools/try_patch.sh <patch.diff> <Cxx> [<Cyy> ...]        (VERIF_SEED / VERIF_TIER are passed through)
set -u
PATCH=$(readlink -f "$1"); shift
WT=${SEED_WT:-/var/tmp/seedwt}
exec 9>"$WT.lock"; flock 9
git -C /repo worktree remove --force "$WT" >/dev/null 2>&1
BUILD=${SEED_BUILD:-/var/tmp/build-seed}
git -C /repo worktree add -q --detach "$WT" HEAD || exit 2
trap 'git -C /repo worktree remove --force "$WT" >/dev/null 2>&1' EXIT
if ! git -C "$WT" apply "$PATCH"; then echo "PATCH-DOES-NOT-APPLY $PATCH"; exit 2; fi
cd /verif
for p in "$@"; do
  start=$(date +%s)
  out=$(VERIF_REPO="$WT" VERIF_BUILD="$BUILD" ./check "$p" --tier "${VERIF_TIER:-quick}" 2>/dev/null); rc=$?
  end=$(date +%s)
  first=$(echo "$out" | grep -E "^(VIOLATION|OK|BUILD-FAILED|KNOWN-FINDING|UNREPRODUCED|FLAKY)" | head -2 | tr '\n' ' ')
  orc=$(echo "$out" | grep -E "^  oracle=" | head -1)
  echo "[$p] rc=$rc $((end-start))s $first $orc"
done
# evidence files were rewritten by these runs against a mutant: restore the committed ones
git -C /verif checkout -- evidence 2>/dev/null
