#!/bin/bash
# Runs the recorded check command of every stored seeded change against the CURRENT checks (quick tier) and prints one line per
# seed: CAUGHT / MISSED / UNDETECTED-AS-RECORDED.   usage: tools/recheck_seeds.sh [dir ...]   (default: all of seeded/*/)
cd /verif
dirs=("$@"); [ ${#dirs[@]} -eq 0 ] && dirs=(seeded/*/)
for d in "${dirs[@]}"; do
  d=${d%/}; [ -f "$d/meta.json" ] || continue
  cmd=$(python3 -c "import json,sys; print(json.load(open('$d/meta.json'))['check_run']['command'])")
  [ -f "$d/patch.head.diff" ] && cmd=$(echo "$cmd" | sed "s#$d/patch.diff#$d/patch.head.diff#")   # re-based onto the final tree
  expect=$(python3 -c "import json,sys; m=json.load(open('$d/meta.json')); print('none' if m['check_run']['caught_by'].startswith('none') else 'caught')")
  out=$(SEED_WT=/var/tmp/seedwt-recheck SEED_BUILD=/var/tmp/build-seed-recheck $cmd 2>&1 | grep -E "^\[C[0-9]+\]" | tr '\n' ' ')
  if echo "$out" | grep -q VIOLATION; then v=CAUGHT; elif [ "$expect" = none ]; then v=UNDETECTED-AS-RECORDED; else v=MISSED; fi
  echo "$(basename $d): $v  $(echo "$out" | cut -c1-160)"
done
