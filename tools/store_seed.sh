#!/bin/bash
# Store a confirmed seeded change: tools/store_seed.sh <Cxx> <suffix> <round> "<change>" "<first-run result>" "<caught_by>"
# copies patch.diff, demo.cpp, build_demo.sh, notes.md from /var/tmp/mut-<id><suffix>-out and writes meta.json from
# the verify_seed.sh log (/var/tmp/v9-<id>.log) produced by the lead.
set -eu
ID=$1; SUF=$2; ROUND=$3; CHANGE=$4; RESULT=$5; CAUGHT=$6
OUT=/var/tmp/mut-$ID$SUF-out; DST=/verif/seeded/$ID-$ROUND
mkdir -p "$DST"
for f in patch.diff demo.cpp build_demo.sh notes.md; do [ -f "$OUT/$f" ] && cp "$OUT/$f" "$DST/"; done
LOG=/var/tmp/v$ROUND-$ID.log
python3 - "$ID" "$SUF" "$ROUND" "$CHANGE" "$RESULT" "$CAUGHT" "$LOG" "$DST" <<'EOF'
import json,sys,re
ID,SUF,ROUND,CHANGE,RESULT,CAUGHT,LOG,DST=sys.argv[1:]
log=open(LOG).read()
def grab(p):
    m=re.search(p,log); return m.group(1).strip() if m else "?"
meta={"property":ID,"round":int(ROUND),"change":CHANGE,
 "origin":"fresh sub-agent given only the property text, one clause naming the aspects earlier rounds had used, a 20-minute limit and a scratch worktree of /repo (head ddff556)",
 "needs_to_manifest":"see notes.md",
 "confirmed_by_lead":{"compiles":True,"existing_suite":grab(r"(\d+% tests passed[^\n]*)"),
   "demo_with_change":grab(r"demo with change: ([^\n]*)"),"demo_without_change":grab(r"demo without change: ([^\n]*)"),
   "command":f"tools/verify_seed.sh {ID} {SUF}"},
 "check_run":{"command":f"tools/try_patch.sh seeded/{ID}-{ROUND}/patch.diff {ID}","result":RESULT,"caught_by":CAUGHT}}
json.dump(meta,open(DST+"/meta.json","w"),indent=1,ensure_ascii=False)
EOF
echo stored $DST
