#!/bin/bash
# run every patch under mutants/<id>/ (or the ids given) against the quick tier of its property; expect VIOLATION
cd /verif
ids=${@:-$(ls mutants)}
for id in $ids; do for p in mutants/$id/*.patch; do echo -n "$(basename $p .patch): "; tools/try_patch.sh $p $id | tail -1; done; done
