# Configuration of the C20 check (read by props_meta.py / gen_manifest.py / check)
META = dict(
    harness=['C20'],
    rule='Generated: (i) exhaustively, every string of <=4 code points over an 8-symbol alphabet with 1-,2-,3- and 4-byte code points, each checked for iteration/size/Substr over every code-point range incl. out-of-bounds/split/trim/IsInteger against reference code on an explicit code-point vector; (ii) exhaustively, every pair of ranges with start<=finish and ends in [-1,6]; (iii) rapidcheck: strings of <=64 code points over 24 symbols, range pairs in windows +-12 / +-1000 biased to touching/overlapping, Merge over lists. Non-trivial: the string contains a multi-byte code point / the pair is not disjoint-and-far / the list has >=3 ranges. Distinct = distinct hash of the rendered case.',
    technique='exhaustive enumeration of short strings and range pairs + rapidcheck random cases against reference definitions',
    level_text='Bounded-exhaustive plus random exploration against an independent reference: every string of <=4 code points over 1-4 byte symbols and every range pair in a window is checked, longer strings and wider windows are sampled. Any deviation of a utility from its definition on those inputs is found; inputs beyond the bounds are only sampled.',
    level_note='Trusted base: the reference definitions in harness/props/C20.cpp (written from the header comments, Allen interval algebra and the upstream unit tests). Contains(empty range located exactly at finish) is left unconstrained (undocumented). Only well-formed UTF-8 and ranges with start<=finish (the documented precondition) are generated.',
    design_ref='DESIGN.md section 5, C20',
    assumptions=['well-formed UTF-8 input (documented requirement of UTF8CharSize)', 'StrRange precondition start<=finish', 'Substr bounds are non-negative'],
)
