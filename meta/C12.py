# Configuration of the C12 check (read by props_meta.py / gen_manifest.py / check)
META = dict(
    harness=['C12'],
    rule='placeholder',
    technique='placeholder',
    level_text='placeholder',
    level_note='placeholder',
    design_ref='DESIGN.md section 5, C12',
    assumptions=['single-threaded use'],
)
