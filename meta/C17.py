# Configuration of the C17 check (read by props_meta.py / gen_manifest.py / check)
META = dict(
    harness=['C17'],
    fuzz=[dict(name='fz_ref', quick_runs=80000, max_len=192, quick_procs=2, thorough_procs=8)],
    engines='rapidcheck + bounded exhaustive enumeration + libFuzzer',
    rule='Generated: (i) exhaustively every text of <=5 symbols (thorough: <=6) over {"@{","@","{","}","|","X1","nomn","-1","a", a 3-byte code point} '
         'and 31 fixed texts (the witnesses of the four repaired findings, the strings of the upstream unit tests); (ii) rapidcheck texts of 1-8 segments: plain pieces '
         'of 1-4-byte code points with stray @ { } | , well-formed entity references (any of the 35 grammemes, blanks, unknown/duplicate tags, legacy 3- and 4-field forms), '
         'collaboration references (offsets -3..3, up to +-300, int16 limits, leading zeros, texts with commas / balanced braces / empty), 41 malformed forms (empty fields, '
         'one or five fields, unclosed, nested, doubled braces, "@ {", "@@@{"), candidates without a documented reading and the repaired defect classes; term contexts over 7 names with '
         'missing entities, empty terms, manual forms (also empty) and a deterministic text processor whose inflection drops, appends and wraps 1-4-byte code points; renaming maps; '
         'histories of 1-10 Insert / EraseIn(+-expand) at positions anchored on reference borders +-2; (iii) libFuzzer: byte strings <=192 bytes (sanitised to well-formed UTF-8) with a '
         'reference-grammar dictionary. Non-trivial: extract: >=2 candidates incl. a well-formed reference with multi-byte text before a reference; resolve: >=2 references, multi-byte '
         'text before one and a resolution whose code-point length differs from the reference; managed: the same and the renaming changes a reference; history: an operation position '
         'touches a reference; enumeration / fuzzing: the text contains a "@{" candidate. Distinct = hash of the rendered case (fuzz: of the sanitised text).',
    technique='model-based rapidcheck properties (texts, term contexts, edit histories) + exhaustive enumeration of short token texts + coverage-guided fuzzing, all against the independent '
              'reference model M6 (candidate scanner, well-formedness rules, canonical spelling, resolution rules, shadow text)',
    level_text='Model-based exploration: Reference::ExtractAll / Parse / ToString, RefsManager::Resolve / get / OutputRefs / Insert / EraseIn and ManagedText Str / Raw / Referals / TranslateRaw / '
               'UpdateFrom / TranslateRefs are compared with an independent model on every generated text, context and history; all token texts up to 5 (6) symbols are enumerated, longer texts '
               'and byte strings are sampled and fuzzed under ASan+UBSan with assertions on.',
    level_note='Trusted base: harness/model/reftext.hpp (M6) and the adapters in harness/model/reftext_glue.hpp, written from the header comments and the upstream tests. Left unconstrained and counted '
               '(counters unconstrained:*): candidates without a documented reading - entity names that are not identifiers, legacy forms with an empty field / a comma list inside a field / a last '
               'field like "1per" or "0a", collaboration offsets outside int16 (must be rejected or kept exactly, never wrapped) - for which only absence of faults and the structural invariants are '
               'demanded; occurrences nested inside a malformed or unclosed candidate (not demanded, but anything reported there must be well-formed); the order of the tags in a canonical spelling '
               '(upstream accepts both orders); acceptance of EraseIn for an empty range or for a range covering a reference that already touches both neighbours; OutputRefs sub-ranges that cut a '
               'reference; FirstIn and UpdatePositions are only executed. Existing collaboration references are not expected to be re-resolved after Insert / EraseIn. The fuzz target applies the '
               'ManagedText oracles to every second text (chosen by a hash of the text).',
    design_ref='DESIGN.md section 4 (M6) and section 5, C17',
    assumptions=['single-threaded use (TextEnvironment is process-wide state; every case re-installs the processor and clears skipResolving)',
                 'texts are well-formed UTF-8 (documented requirement of the UTF-8 utilities); fuzz bytes are sanitised first',
                 'Insert positions and EraseIn ranges lie inside the text; EntityTermContext::At returns stable pointers during a call',
                 'entity names given to TranslateRaw are identifiers'],
)
