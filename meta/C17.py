# Configuration of the C17 check (read by props_meta.py / gen_manifest.py / check)
META = dict(
    harness=['C17'],
    fuzz=[dict(name='fz_ref', quick_runs=150000, max_len=192, quick_procs=2, thorough_procs=8)],
    rule='placeholder',
    technique='placeholder',
    level_text='placeholder',
    level_note='placeholder',
    design_ref='DESIGN.md section 4 (M6) and section 5, C17',
    assumptions=['single-threaded use'],
)
