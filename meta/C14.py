# Configuration of the C14 check (read by props_meta.py / gen_manifest.py / check)
META = dict(
    harness=['C14'],
    rule='Generated: (i) exhaustively every digraph (with self-loops) on <=3 vertices and every loop-free digraph on <=4 vertices, each under every vertex insertion order and two edge insertion orders; (ii) exhaustively, on 3 vertices, any graph / erase one vertex / re-insert it with any edges; (iii) rapidcheck histories of 1-24 operations AddItem/EraseItem/AddConnection/SetItemInputs/Clear (+UpdatableGraph UpdateFor/Invalidate/SetValid) over <=8 uids with every query compared after every operation against an adjacency-set model. Non-trivial: the history contains an effective erase or input replacement, or the graph has a cycle (exhaustive part: cycle or >=2 edges). Distinct = hash of the rendered history.',
    technique='model-based stateful rapidcheck histories + exhaustive small-graph enumeration against an adjacency-set reference graph',
    level_text='Model-based exploration: every public const query is compared with a naive reference graph after every mutation of generated histories, and all graphs up to 4 vertices are enumerated under all insertion orders. Deviations that need a particular DFS/insertion order or a tombstoned vertex are reached by construction on small graphs; larger graphs are sampled.',
    level_note='Trusted base: the reference model in harness/props/C14.cpp (reachability by search, SCC by double reachability). IsReachableFrom(x,x) is constrained only where upstream tests pin it (self edge => true, no cycle through x => false). Topological order is only required to respect edges when the graph is acyclic, as the property states.',
    design_ref='DESIGN.md section 5, C14',
    assumptions=['single-threaded use'],
)
