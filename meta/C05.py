# Configuration of the C05 check (read by props_meta.py / gen_manifest.py / check)
META = dict(
    harness=['C05'],
    rule='Generated: random grammatical trees over the whole abstract syntax (types ignored), Greek local names, rendered to MATH or ASCII by the harness printer; exhaustively every operator as parent of every operator as left/right/both child (set/arithmetic, logical, and negation/quantifier parents) in both source syntaxes. Oracle: Parse -> Generator::FromTree(MATH|ASCII) -> Parse gives a tree equal under SyntaxTree::operator== and equal to the generating tree (ASCII: local names through my copy of the transliteration table); printing the re-parsed tree is a fixpoint; ConvertTo there-and-back preserves the tree when local names stay distinct; conversion is idempotent. Non-trivial: an operator node with an operator child (bracket placement matters) or a constructor. Distinct = hash of rendered text. Integer literals are drawn from [0, INT32_MAX] (see known findings).',
    technique='rapidcheck grammar-based generation + print/parse round-trip oracle in both syntaxes + exhaustive operator-pair table',
    level_text='Round-trip exploration over generated trees: every (parent, child, side) operator pair is covered exhaustively, deeper nestings and all constructors by random generation. A missing bracket, a wrong token spelling in either syntax or an unstable printer shows up as a re-parse failure or a different tree.',
    level_note='Trusted base: harness printer/precedence model (rsast.hpp) used to create the source text and the expected tree. Direct double application of ConvertTo is only checked when the text has no "*" (MATH multiply vs ASCII product: the one token whose meaning differs).',
    design_ref='DESIGN.md section 5, C05',
    assumptions=['integer literals within int32, indices within int16'],
)
