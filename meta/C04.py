# Configuration of the C04 check
META = dict(
    harness=['C04'],
    fuzz=[
        dict(name='fz_expr', quick_runs=12000, max_len=160, quick_procs=2, thorough_procs=5, timeout=25, dict='fz_expr'),
        dict(name='fz_tokens', quick_runs=12000, max_len=96, quick_procs=2, thorough_procs=5, timeout=25, dict='fz_tokens'),
        dict(name='fz_json', quick_runs=6000, max_len=256, quick_procs=2, thorough_procs=3, timeout=25),
        dict(name='fz_ref', quick_runs=40000, max_len=192, quick_procs=1, thorough_procs=3),
    ],
    engines='rapidcheck + libFuzzer',
    rule='rapidcheck (deterministic component, harness/props/C04.cpp): grammatical texts with corner literals (indices 0 / 32768 / 70000, integers '
         'beyond 32 and 64 bits), texts damaged by truncation / deletion / transposition / spliced stray tokens, nesting up to depth 2000 in eight '
         'shapes, calls (also nested) of term / predicate functions whose inlined bodies fail at run time (positions of run-time errors raised inside an inlined body), all through the same oracle as the fuzz targets. libFuzzer (coverage-guided, ASan+UBSan, asserts on) over four in-process targets with the oracle inside: fz_expr (raw bytes as expression '
         'text, byte 0/1 choose syntax hint MATH/ASCII/auto, schema context, alias and constituent kind), fz_tokens (bytes -> indices into a '
         'vocabulary of every token of both syntaxes, identifiers of every kind, huge literals), fz_json (raw bytes or a schema document assembled '
         'from pools of valid/colliding/ill-formed identifiers, aliases, kinds, definitions, reference texts), fz_ref (reference text; shared with '
         'C17). Every input goes through Parser::Parse, Auditor::CheckType+CheckValue, Interpreter::Evaluate, ConvertTo x2, api::ParseExpression, '
         'RSFormJA::CheckExpression/CheckConstituenta/FromJSON/ToJSON and the seven pyconcept wrappers. Non-trivial: the input parses (reaches the '
         'type auditor) or produces >=2 distinct error codes (expression targets) / loads as a schema (fz_json) / contains a reference marker '
         '(fz_ref). Distinct = hash of the input bytes. Seed corpus: expressions from the upstream tests in both syntaxes.',
    technique='coverage-guided fuzzing (libFuzzer) with semantic oracle in the target: totality, exception discipline, success iff no critical error, positions within input',
    level_text='Coverage-guided exploration of byte strings and token sequences with sanitizers: any fault, escaped exception, failure without a '
               'critical error (or success with one) or out-of-range position on an explored input is a violation. Termination is observed only '
               'as "no hang within the per-input timeout"; timeouts, OOMs and slow units are load noise, not violations.',
    level_note='Trusted base: the target code in harness/fuzz. Positions are bounded by the code-point length for MATH on valid UTF-8 and by the byte '
               'length otherwise. Interpreter::Evaluate is skipped for texts longer than 96 bytes or with more than three power-set tokens (cost, '
               'not correctness). The quick tier is pinned by -seed/-runs only approximately; a saved crash input is the reproducible unit.',
    design_ref='DESIGN.md section 5, C04',
    assumptions=['single-threaded in-process use', 'global text environment reset at the top of each input'],
)
