// Stub of pybind11 (not installed in this sandbox): lets /repo/pyconcept/src/pyconcept.cpp compile as
// written so the seven exported wrapper functions can be exercised at the C++ level.
#pragma once
#define PYBIND11_MODULE(name, var) \
  struct verif_pybind_stub_module { template <class... A> void def(A&&...) {} }; \
  [[maybe_unused]] static void verif_pybind_stub_init(verif_pybind_stub_module& var)
