// fuzz.hpp - small helpers shared by the libFuzzer targets (header-only).
//
//   fuzz::Stats& st = fuzz::stats();      process-wide counters
//   st.evaluation();                       once per LLVMFuzzerTestOneInput
//   st.label("class");  st.count("k");     histogram / counters
//   st.nontrivial(bytes, size, "shown");   (or nontrivialLazy(bytes, size, []{ return shown; })) input satisfied the target's non-triviality rule (64-bit hash kept, capped)
//   fuzz::violation("oracle-id", "msg");   flush stats, print ORACLE-VIOLATION, __builtin_trap()
//
// Stats are written as JSON to the path in env VERIF_FUZZ_STATS (if set and non-empty) every kFlushEvery
// evaluations and at exit.  Keys: evaluations, distinct_nontrivial, hashes (list of 64-bit ints), samples, classes,
// counters, excluded_known, excluded_by.
#pragma once

#include <cstdint>
#include <cstdio>
#include <cstdlib>
#include <map>
#include <set>
#include <string>
#include <unistd.h>
#include <unordered_set>
#include <vector>

namespace fuzz {

inline uint64_t fnv1a(const uint8_t* p, size_t n, uint64_t h = 1469598103934665603ULL) {
  for (size_t i = 0; i < n; ++i) { h ^= p[i]; h *= 1099511628211ULL; }
  return h;
}

// JSON string literal; bytes that are not part of a well-formed UTF-8 sequence (RFC 3629) are rendered as the text \xNN
inline std::string jsonEscape(const std::string& s) {
  const auto at = [&](size_t k) -> unsigned { return k < s.size() ? static_cast<unsigned char>(s[k]) : 0x100u; };
  const auto cont = [&](size_t k) { return (at(k) & ~0x3Fu) == 0x80u; };
  std::string o = "\"";
  size_t i = 0;
  while (i < s.size()) {
    const unsigned c = at(i);
    size_t n = 0;
    if (c < 0x80) n = 1;
    else if (c >= 0xC2 && c <= 0xDF) n = cont(i + 1) ? 2 : 0;
    else if (c >= 0xE0 && c <= 0xEF) n = (cont(i + 1) && cont(i + 2) && !(c == 0xE0 && at(i + 1) < 0xA0) && !(c == 0xED && at(i + 1) >= 0xA0)) ? 3 : 0;
    else if (c >= 0xF0 && c <= 0xF4) n = (cont(i + 1) && cont(i + 2) && cont(i + 3) && !(c == 0xF0 && at(i + 1) < 0x90) && !(c == 0xF4 && at(i + 1) >= 0x90)) ? 4 : 0;
    if (n == 0) { char b[8]; snprintf(b, sizeof b, "\\\\x%02X", c); o += b; ++i; continue; }
    if (n == 1) {
      if (c == '"') o += "\\\"";
      else if (c == '\\') o += "\\\\";
      else if (c == '\n') o += "\\n";
      else if (c == '\r') o += "\\r";
      else if (c == '\t') o += "\\t";
      else if (c < 0x20 || c == 0x7F) { char b[8]; snprintf(b, sizeof b, "\\u%04x", c); o += b; }
      else o += static_cast<char>(c);
    } else {
      o.append(s, i, n);
    }
    i += n;
  }
  return o + "\"";
}

struct Stats {
  static constexpr size_t kMaxHashes = 200000;
  static constexpr uint64_t kFlushEvery = 8192;
  static constexpr size_t kMaxSamples = 8;

  uint64_t evaluations = 0, excluded = 0;
  std::unordered_set<uint64_t> hashes;
  uint64_t nontrivialSeen = 0;  // including repeats and those beyond the cap
  std::vector<std::string> samples;
  std::map<std::string, uint64_t> classes;
  std::map<std::string, int64_t> counters;
  std::map<std::string, uint64_t> excludedBy;
  std::string path;

  Stats() {
    const char* e = std::getenv("VERIF_FUZZ_STATS");
    if (e && *e) path = e;
  }

  void evaluation() {
    ++evaluations;
    if (evaluations % kFlushEvery == 0) flush();
  }
  void label(const std::string& l) { ++classes[l]; }
  void count(const std::string& k, int64_t d = 1) { counters[k] += d; }
  void excludedKnown(const std::string& key) { ++excluded; ++excludedBy[key]; }
  // `show` is only called when the input is kept as a sample
  template <class ShowFn> void nontrivialLazy(const uint8_t* data, size_t size, ShowFn show) {
    ++nontrivialSeen;
    if (hashes.size() >= kMaxHashes) return;
    if (hashes.insert(fnv1a(data, size)).second) {
      if (samples.size() < 5 || (hashes.size() % 9973 == 0 && samples.size() < kMaxSamples)) samples.push_back(show());
    }
  }
  void nontrivial(const uint8_t* data, size_t size, const std::string& shown) { nontrivialLazy(data, size, [&] { return shown; }); }

  void flush() const {
    if (path.empty()) return;
    const std::string tmp = path + ".tmp";
    FILE* f = fopen(tmp.c_str(), "w");
    if (!f) return;
    fprintf(f, "{\"evaluations\":%llu,\"distinct_nontrivial\":%llu,\"excluded_known\":%llu,\"hashes\":[",
            static_cast<unsigned long long>(evaluations), static_cast<unsigned long long>(hashes.size()), static_cast<unsigned long long>(excluded));
    bool first = true;
    // order is irrelevant: the driver forms the union over processes
    for (auto h : hashes) { fprintf(f, "%s%llu", first ? "" : ",", static_cast<unsigned long long>(h)); first = false; }
    fprintf(f, "],\"samples\":[");
    first = true;
    for (const auto& s : samples) { fprintf(f, "%s%s", first ? "" : ",", jsonEscape(s).c_str()); first = false; }
    fprintf(f, "],\"classes\":{");
    first = true;
    for (const auto& [k, n] : classes) { fprintf(f, "%s%s:%llu", first ? "" : ",", jsonEscape(k).c_str(), static_cast<unsigned long long>(n)); first = false; }
    fprintf(f, "},\"counters\":{");
    first = true;
    for (const auto& [k, n] : counters) { fprintf(f, "%s%s:%lld", first ? "" : ",", jsonEscape(k).c_str(), static_cast<long long>(n)); first = false; }
    fprintf(f, "},\"excluded_by\":{");
    first = true;
    for (const auto& [k, n] : excludedBy) { fprintf(f, "%s%s:%llu", first ? "" : ",", jsonEscape(k).c_str(), static_cast<unsigned long long>(n)); first = false; }
    fprintf(f, "}}\n");
    fclose(f);
    rename(tmp.c_str(), path.c_str());
  }
};

inline Stats& stats() {
  static Stats* s = [] {
    auto* p = new Stats();  // intentionally leaked: must outlive static destructors; flushed by atexit
    std::atexit([] { stats().flush(); });
    return p;
  }();
  return *s;
}

// known-finding keys (same convention as pbt::known): comma separated in env VERIF_KNOWN
inline bool known(const std::string& key) {
  static const std::set<std::string> keys = [] {
    std::set<std::string> k;
    const char* e = std::getenv("VERIF_KNOWN");
    std::string cur;
    for (const char* p = e ? e : "";; ++p) {
      if (*p == ',' || *p == 0) { if (!cur.empty()) k.insert(cur); cur.clear(); if (!*p) break; }
      else cur += *p;
    }
    return k;
  }();
  return keys.count(key) > 0;
}

[[noreturn]] inline void violation(const std::string& oracle, const std::string& msg) {
  stats().flush();
  std::string line = "ORACLE-VIOLATION oracle=" + oracle + " ";
  for (char ch : msg) line += (ch == '\n' || ch == '\r') ? ' ' : ch;
  line += "\n";
  if (::write(2, line.data(), line.size()) < 0) {}
  __builtin_trap();
}

}  // namespace fuzz
