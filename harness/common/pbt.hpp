// pbt.hpp - common property-based-testing runtime for the ConceptCore harnesses.
//
// One harness binary per listed property.  A harness registers sub-properties
// (pbt::Prop); each is a function  Verdict f(Ctx&)  that draws every random choice
// from ctx (a "choice source"), appends a human readable rendering of the case to
// ctx.show, calls ctx.exec() right before it touches the library under test, runs the
// oracle and returns pass / fail(oracle-id, message) / discard / excluded(known key).
//
// Choice sources:
//   RcSrc    rapidcheck (search + shrinking); every pick is an rc generator call
//   TapeSrc  replay of a recorded choice tape (replay files, regression tier, shrinker)
//   EnumSrc  exhaustive enumeration of the whole choice tree (bounded sub-spaces)
//   ByteSrc  libFuzzer bytes decoded to choices (structure-aware fuzz targets)
//
// Replay bypasses rapidcheck entirely: a replay file holds the choice tape.
#pragma once

#include <rapidcheck.h>

#include <algorithm>
#include <chrono>
#include <csignal>
#include <cstdint>
#include <cstdio>
#include <cstdlib>
#include <cstring>
#include <fstream>
#include <functional>
#include <iostream>
#include <map>
#include <set>
#include <sstream>
#include <string>
#include <unordered_set>
#include <vector>

#include <fcntl.h>
#include <sys/wait.h>
#include <sys/resource.h>
#include <sys/time.h>
#include <csignal>
#include <cstring>
#include <unistd.h>

namespace pbt {

// ------------------------------------------------------------------------------------------------
// small utilities
inline uint64_t fnv1a(const std::string& s, uint64_t h = 1469598103934665603ULL) {
  for (unsigned char c : s) { h ^= c; h *= 1099511628211ULL; }
  return h;
}
inline uint64_t splitmix64(uint64_t x) {
  x += 0x9E3779B97F4A7C15ULL;
  x = (x ^ (x >> 30)) * 0xBF58476D1CE4E5B9ULL;
  x = (x ^ (x >> 27)) * 0x94D049BB133111EBULL;
  return x ^ (x >> 31);
}
inline std::string jstr(const std::string& s) {
  std::string o = "\"";
  for (unsigned char c : s) {
    switch (c) {
      case '"': o += "\\\""; break;
      case '\\': o += "\\\\"; break;
      case '\n': o += "\\n"; break;
      case '\r': o += "\\r"; break;
      case '\t': o += "\\t"; break;
      default:
        if (c < 0x20) { char b[8]; snprintf(b, sizeof b, "\\u%04x", c); o += b; }
        else o += static_cast<char>(c);
    }
  }
  return o + "\"";
}
// make arbitrary bytes safe to embed in JSON (invalid UTF-8 -> \xNN text)
inline std::string printable(const std::string& s) {
  std::string o;
  size_t i = 0;
  while (i < s.size()) {
    unsigned char c = s[i];
    size_t n = c < 0x80 ? 1 : (c >> 5) == 6 ? 2 : (c >> 4) == 14 ? 3 : (c >> 3) == 30 ? 4 : 0;
    bool ok = n > 0 && i + n <= s.size();
    for (size_t k = 1; ok && k < n; ++k) ok = (static_cast<unsigned char>(s[i + k]) >> 6) == 2;
    if (ok) { o.append(s, i, n); i += n; }
    else { char b[8]; snprintf(b, sizeof b, "\\x%02X", c); o += b; ++i; }
  }
  return o;
}

// ------------------------------------------------------------------------------------------------
// choice sources
struct Src {
  std::vector<int64_t> tape;  // every recorded choice, in order
  virtual ~Src() = default;
  virtual int64_t raw(int64_t lo, int64_t hi) = 0;
  int64_t pick(int64_t lo, int64_t hi) {
    if (hi <= lo) return lo;
    const int64_t v = raw(lo, hi);
    tape.push_back(v);
    return v;
  }
};

struct RcSrc final : Src {
  int64_t raw(int64_t lo, int64_t hi) override {
    // inRange collapses towards lo at small sizes: always generate at full size
    if (hi == INT64_MAX) --hi;  // inRange is exclusive at the top
    return *rc::gen::resize(100, rc::gen::inRange<int64_t>(lo, hi + 1));
  }
};

struct TapeSrc final : Src {
  std::vector<int64_t> in;
  size_t idx = 0;
  explicit TapeSrc(std::vector<int64_t> t) : in(std::move(t)) {}
  int64_t raw(int64_t lo, int64_t hi) override {
    if (idx >= in.size()) return lo;
    const int64_t v = in[idx++];
    return (v < lo || v > hi) ? lo : v;
  }
};

struct EnumSrc final : Src {
  std::vector<int64_t> vals, his;
  size_t idx = 0;
  void restart() { idx = 0; tape.clear(); }
  int64_t raw(int64_t lo, int64_t hi) override {
    if (idx < vals.size()) return vals[idx++];
    vals.push_back(lo); his.push_back(hi); ++idx;
    return lo;
  }
  bool next() {  // advance to the next leaf of the choice tree
    vals.resize(idx); his.resize(idx);
    while (!vals.empty()) {
      if (vals.back() < his.back()) { ++vals.back(); return true; }
      vals.pop_back(); his.pop_back();
    }
    return false;
  }
};

struct ByteSrc final : Src {
  const uint8_t* p; size_t n; size_t i = 0;
  ByteSrc(const uint8_t* data, size_t size) : p(data), n(size) {}
  bool exhausted() const { return i >= n; }
  int64_t raw(int64_t lo, int64_t hi) override {
    const uint64_t range = static_cast<uint64_t>(hi - lo) + 1;
    uint64_t x = 0;
    for (uint64_t r = range - 1; r > 0; r >>= 8) {
      x = (x << 8) | (i < n ? p[i] : 0);
      if (i < n) ++i;
    }
    return lo + static_cast<int64_t>(x % range);
  }
};

// ------------------------------------------------------------------------------------------------
struct Verdict {
  enum Kind { PASS, FAIL, DISCARD, EXCLUDED } kind = PASS;
  std::string oracle;  // oracle id (FAIL), reason (DISCARD), known-finding key (EXCLUDED)
  std::string msg;
};
inline Verdict pass() { return {}; }
inline Verdict fail(std::string oracle, std::string msg = "") { return {Verdict::FAIL, std::move(oracle), std::move(msg)}; }
inline Verdict discard(std::string why = "") { return {Verdict::DISCARD, std::move(why), ""}; }
inline Verdict excluded(std::string key) { return {Verdict::EXCLUDED, std::move(key), ""}; }

// known-finding keys listed in /verif/known_findings.txt for this property (passed by the driver in VERIF_KNOWN).
// A harness excludes the class of a listed finding by construction:  if (pbt::known("key") && matches) return pbt::excluded("key");
// When the key is not listed (entry removed, or witness replay) the class is tested normally.
inline bool known(const std::string& key) {
  static const std::set<std::string> keys = [] {
    std::set<std::string> k;
    const char* e = std::getenv("VERIF_KNOWN");
    std::string cur;
    for (const char* p = e ? e : ""; ; ++p) { if (*p == ',' || *p == 0) { if (!cur.empty()) k.insert(cur); cur.clear(); if (!*p) break; } else cur += *p; }
    return k;
  }();
  return keys.count(key) > 0;
}

struct Runtime;
struct Ctx {
  Src& src;
  Runtime* rt;
  std::ostringstream show;
  bool nontrivial = false;
  bool exhaustive = false;  // true when driven by EnumSrc: generators should use their small bounds
  std::vector<std::string> labels;
  std::map<std::string, int64_t> counters;  // inconclusive, skipped-unspecified, ...
  Ctx(Src& s, Runtime* r) : src(s), rt(r) {}
  ~Ctx();
  int64_t pick(int64_t lo, int64_t hi) { return src.pick(lo, hi); }
  int ipick(int lo, int hi) { return static_cast<int>(src.pick(lo, hi)); }
  bool coin() { return src.pick(0, 1) == 1; }
  bool chance(int num, int den) { return src.pick(0, den - 1) < num; }
  template <class T> const T& oneof(const std::vector<T>& v) { return v[static_cast<size_t>(src.pick(0, static_cast<int64_t>(v.size()) - 1))]; }
  void label(const std::string& l) { labels.push_back(l); }
  void count(const std::string& k, int64_t d = 1) { counters[k] += d; }
  void exec();  // call right before the library under test is touched
};

using PropFn = std::function<Verdict(Ctx&)>;
struct Prop {
  std::string name;
  PropFn fn;
  int quick_cases = 1000;     // rapidcheck cases in the quick tier (per worker)
  int thorough_cases = 20000; // rapidcheck cases in the thorough tier (per worker)
  bool exhaustive = false;    // enumerate the whole choice tree instead of sampling it
  bool exhaustive_thorough_only = false;
  std::string rule;           // non-triviality rule of this sub-property (for the evidence)
};

// ------------------------------------------------------------------------------------------------
struct CaseFile {
  std::string property, sub, oracle, msg, show;
  std::vector<int64_t> tape;
};
inline bool writeCase(const std::string& path, const CaseFile& c) {
  std::ofstream f(path, std::ios::trunc);
  if (!f) return false;
  f << "property=" << c.property << "\nsub=" << c.sub << "\noracle=" << c.oracle << "\nmsg=";
  for (char ch : c.msg) f << (ch == '\n' ? ' ' : ch);
  f << "\ntape=";
  for (size_t i = 0; i < c.tape.size(); ++i) f << (i ? " " : "") << c.tape[i];
  f << "\n--- case\n" << c.show << "\n";
  return static_cast<bool>(f);
}
inline bool readCase(const std::string& path, CaseFile& c) {
  std::ifstream f(path);
  if (!f) return false;
  std::string line;
  bool inShow = false;
  while (std::getline(f, line)) {
    if (inShow) { c.show += line + "\n"; continue; }
    if (line == "--- case") { inShow = true; continue; }
    auto eq = line.find('=');
    if (eq == std::string::npos) continue;
    const auto k = line.substr(0, eq), v = line.substr(eq + 1);
    if (k == "property") c.property = v;
    else if (k == "sub") c.sub = v;
    else if (k == "oracle") c.oracle = v;
    else if (k == "msg") c.msg = v;
    else if (k == "tape") { std::istringstream is(v); int64_t x; while (is >> x) c.tape.push_back(x); }
  }
  return true;
}

// ------------------------------------------------------------------------------------------------
struct SubStats {
  uint64_t evaluations = 0, nontrivial = 0, discarded = 0, excluded = 0;
  bool exhaustive_done = false;
};
struct Runtime {
  std::string property;
  std::string outDir = ".";
  int worker = 0;
  std::string currentSub;
  bool counting = true;  // false while shrinking / replaying
  // stats
  uint64_t evaluations = 0, discarded = 0, excluded = 0;
  std::unordered_set<uint64_t> ntHashes;
  std::map<std::string, uint64_t> classes;
  std::map<std::string, int64_t> counters;
  std::map<std::string, uint64_t> excludedBy;
  std::map<std::string, SubStats> subs;
  std::vector<std::string> samples;       // first few non-trivial cases
  std::vector<std::string> lateSamples;   // a few drawn at fixed indices
  std::chrono::steady_clock::time_point t0 = std::chrono::steady_clock::now();
  int violations = 0;

  std::string path(const std::string& stem) const { return outDir + "/" + stem + "." + std::to_string(worker); }

  // The in-flight case is kept by pointer and only serialised if the process dies (sanitizer death
  // callback / fatal signal), so cheap properties do not pay a syscall per case.
  const Ctx* inflight = nullptr;
  bool hangDump = false;         // the in-flight case is dumped by the watchdog, not by a crash
  unsigned long caseSerial = 0;  // watchdog: distinguishes successive cases living at one address
  void writeCurrent(const Ctx& c) { inflight = &c; ++caseSerial; }
  void dumpInflight() {
    if (!inflight) return;
    const Ctx& c = *inflight;
    inflight = nullptr;
    const int fd = ::open(path("current").append(".case").c_str(), O_CREAT | O_WRONLY | O_TRUNC, 0644);
    if (fd < 0) return;
    std::string s = "property=" + property + "\nsub=" + currentSub + "\noracle=" + (hangDump ? "hang" : "crash") + "\nmsg=\ntape=";
    for (size_t i = 0; i < c.src.tape.size(); ++i) { if (i) s += ' '; s += std::to_string(c.src.tape[i]); }
    s += "\n--- case\n" + c.show.str() + "\n";
    if (::write(fd, s.data(), s.size()) < 0) {}
    ::close(fd);
  }

  void record(const std::string& sub, const Ctx& c, const Verdict& v) {
    inflight = nullptr;
    if (!counting) return;
    auto& ss = subs[sub];
    ++evaluations; ++ss.evaluations;
    if (v.kind == Verdict::DISCARD) { ++discarded; ++ss.discarded; classes["discard:" + v.oracle]++; return; }
    if (v.kind == Verdict::EXCLUDED) { ++excluded; ++ss.excluded; excludedBy[v.oracle]++; return; }
    for (const auto& l : c.labels) classes[l]++;
    for (const auto& [k, d] : c.counters) counters[k] += d;
    if (c.nontrivial) {
      const auto text = c.show.str();
      const auto h = fnv1a(sub + "\x1f" + text);
      if (ntHashes.insert(h).second) {
        ++ss.nontrivial;
        if (samples.size() < 5) samples.push_back("[" + sub + "] " + text);
        else if ((ntHashes.size() % 997) == 0 && lateSamples.size() < 3) lateSamples.push_back("[" + sub + "] " + text);
      }
    }
  }

  void flush(bool final) {
    const double wall = std::chrono::duration<double>(std::chrono::steady_clock::now() - t0).count();
    std::ostringstream o;
    o << "{\"property\":" << jstr(property) << ",\"worker\":" << worker << ",\"final\":" << (final ? "true" : "false")
      << ",\"evaluations\":" << evaluations << ",\"distinct_nontrivial\":" << ntHashes.size() << ",\"discarded\":" << discarded
      << ",\"excluded_known\":" << excluded << ",\"violations\":" << violations << ",\"wall_s\":" << wall << ",\"classes\":{";
    bool first = true;
    for (const auto& [k, n] : classes) { o << (first ? "" : ",") << jstr(k) << ":" << n; first = false; }
    o << "},\"counters\":{"; first = true;
    for (const auto& [k, n] : counters) { o << (first ? "" : ",") << jstr(k) << ":" << n; first = false; }
    o << "},\"excluded_by\":{"; first = true;
    for (const auto& [k, n] : excludedBy) { o << (first ? "" : ",") << jstr(k) << ":" << n; first = false; }
    o << "},\"subs\":{"; first = true;
    for (const auto& [k, s] : subs) {
      o << (first ? "" : ",") << jstr(k) << ":{\"evaluations\":" << s.evaluations << ",\"distinct_nontrivial\":" << s.nontrivial
        << ",\"discarded\":" << s.discarded << ",\"excluded_known\":" << s.excluded << ",\"exhaustive\":" << (s.exhaustive_done ? "true" : "false") << "}";
      first = false;
    }
    o << "},\"samples\":["; first = true;
    for (const auto& s : samples) { o << (first ? "" : ",") << jstr(printable(s)); first = false; }
    for (const auto& s : lateSamples) { o << (first ? "" : ",") << jstr(printable(s)); first = false; }
    o << "]}\n";
    const auto tmp = path("stats") + ".json.tmp";
    { std::ofstream f(tmp, std::ios::trunc); f << o.str(); }
    ::rename(tmp.c_str(), (path("stats") + ".json").c_str());
    if (final) {
      std::ofstream h(path("hashes") + ".bin", std::ios::binary | std::ios::trunc);
      for (auto x : ntHashes) h.write(reinterpret_cast<const char*>(&x), sizeof x);
    }
  }
};

inline void Ctx::exec() { if (rt) rt->writeCurrent(*this); }
inline Ctx::~Ctx() { if (rt && rt->inflight == this) rt->inflight = nullptr; }

extern "C" void __sanitizer_set_death_callback(void (*)(void));
inline Runtime*& activeRuntime() { static Runtime* r = nullptr; return r; }
inline void onDeath() { if (activeRuntime()) activeRuntime()->dumpInflight(); }
inline void onFatalSignal(int sig) { onDeath(); ::signal(sig, SIG_DFL); ::raise(sig); }
// Hang watchdog: a profiling timer ticks every 60 s of CPU time of this process; a case that is still the one in flight
// after five ticks (>= 4 min of CPU on one case; ordinary cases take milliseconds) is dumped like a crash and the worker
// exits, so that a non-terminating library call becomes a reproducible failure instead of a check that never returns.
inline void onWatchdogTick(int) {
  static unsigned long lastSerial = 0; static int same = 0;
  Runtime* rt = activeRuntime();
  if (!rt || !rt->inflight) { same = 0; return; }
  if (rt->caseSerial == lastSerial) { if (++same >= 4) { rt->hangDump = true; onDeath(); rt->flush(true); ::_exit(80); } }
  else { lastSerial = rt->caseSerial; same = 0; }
}
inline void installDeathHooks(Runtime& rt) {
  activeRuntime() = &rt;
  { struct sigaction sa; std::memset(&sa, 0, sizeof sa); sa.sa_handler = onWatchdogTick; sa.sa_flags = SA_RESTART; ::sigaction(SIGPROF, &sa, nullptr);
    struct itimerval it; it.it_interval.tv_sec = 60; it.it_interval.tv_usec = 0; it.it_value = it.it_interval; ::setitimer(ITIMER_PROF, &it, nullptr); }
  __sanitizer_set_death_callback(onDeath);
  std::set_terminate([] { onDeath(); std::abort(); });
}

// run one case in-process, translating escaped exceptions into failures
inline Verdict runGuarded(const PropFn& fn, Ctx& c) {
  try {
    return fn(c);
  } catch (const rc::detail::CaseResult&) {
    throw;
  } catch (const rc::GenerationFailure&) {
    throw;
  } catch (const std::exception& e) {
    return fail("escaped-exception", std::string("std::exception escaped: ") + e.what());
  }
}

// run one tape in a forked child; returns verdict (crash => FAIL with oracle "crash")
inline Verdict runForked(const PropFn& fn, Runtime& rt, const std::vector<int64_t>& tape, std::string* shown = nullptr,
                         std::vector<int64_t>* used = nullptr, int timeoutS = 60) {
  int fds[2];
  if (::pipe(fds) != 0) return fail("harness", "pipe failed");
  fflush(stdout); fflush(stderr);
  const pid_t pid = ::fork();
  if (pid == 0) {
    ::close(fds[0]);
    { struct rlimit rl; rl.rlim_cur = static_cast<rlim_t>(timeoutS); rl.rlim_max = static_cast<rlim_t>(timeoutS + 2); ::setrlimit(RLIMIT_CPU, &rl); }
    ::alarm(static_cast<unsigned>(timeoutS) * 20u);  // wall-clock backstop only: expiry is never a verdict
    // silence sanitizer chatter of shrink candidates
    if (!std::getenv("VERIF_VERBOSE")) { int devnull = ::open("/dev/null", O_WRONLY); if (devnull >= 0) ::dup2(devnull, 2); }
    TapeSrc src(tape);
    Ctx c(src, nullptr);
    Verdict v;
    try { v = runGuarded(fn, c); } catch (...) { v = fail("escaped-exception", "non-std exception"); }
    std::ostringstream o;
    o << static_cast<int>(v.kind) << "\n" << v.oracle << "\n";
    for (char ch : v.msg) o << (ch == '\n' ? ' ' : ch);
    o << "\n";
    for (size_t i = 0; i < src.tape.size(); ++i) o << (i ? " " : "") << src.tape[i];
    o << "\n" << c.show.str();
    const auto s = o.str();
    size_t off = 0;
    while (off < s.size()) { auto w = ::write(fds[1], s.data() + off, s.size() - off); if (w <= 0) break; off += static_cast<size_t>(w); }
    ::close(fds[1]);
    ::_exit(0);
  }
  ::close(fds[1]);
  std::string buf; char tmp[4096]; ssize_t r;
  while ((r = ::read(fds[0], tmp, sizeof tmp)) > 0) buf.append(tmp, static_cast<size_t>(r));
  ::close(fds[0]);
  int status = 0; ::waitpid(pid, &status, 0);
  (void)rt;
  const bool clean = WIFEXITED(status) && WEXITSTATUS(status) == 0;
  if (!clean || buf.empty()) {
    if (WIFSIGNALED(status) && (WTERMSIG(status) == SIGXCPU || WTERMSIG(status) == SIGKILL)) return fail("timeout", "case exceeded " + std::to_string(timeoutS) + " s of CPU time");
    if (WIFSIGNALED(status) && WTERMSIG(status) == SIGALRM) return discard("case starved of CPU (wall-clock backstop)");
    return fail("crash", WIFSIGNALED(status) ? "killed by signal " + std::to_string(WTERMSIG(status)) : "abnormal exit " + std::to_string(WEXITSTATUS(status)));
  }
  std::istringstream is(buf);
  std::string l1, l2, l3, l4;
  std::getline(is, l1); std::getline(is, l2); std::getline(is, l3); std::getline(is, l4);
  Verdict v; v.kind = static_cast<Verdict::Kind>(atoi(l1.c_str())); v.oracle = l2; v.msg = l3;
  if (used) { used->clear(); std::istringstream ts(l4); int64_t x; while (ts >> x) used->push_back(x); }
  if (shown) { std::ostringstream rest; rest << is.rdbuf(); *shown = rest.str(); }
  return v;
}

// Run a piece of a case in a forked child under a CPU-time limit.  Used where the library call may legitimately take
// very long (e.g. power sets of power sets): a timeout is "inconclusive", never a violation; a crash is a failure.
// TIMEOUT: the child used up `timeoutS` seconds of CPU time (load independent).  STARVED: it did not get that much CPU
// within 20x the wall time - never a verdict, always inconclusive.
struct ChildResult { enum { OK, TIMEOUT, CRASH, STARVED } status = OK; Verdict verdict; std::string crashInfo; };
inline ChildResult inChild(const std::function<Verdict()>& fn, int timeoutS) {
  ChildResult out;
  int fds[2];
  if (::pipe(fds) != 0) { out.status = ChildResult::CRASH; out.crashInfo = "pipe failed"; return out; }
  fflush(stdout); fflush(stderr);
  const pid_t pid = ::fork();
  if (pid == 0) {
    ::close(fds[0]);
    { struct rlimit rl; rl.rlim_cur = static_cast<rlim_t>(timeoutS); rl.rlim_max = static_cast<rlim_t>(timeoutS + 2); ::setrlimit(RLIMIT_CPU, &rl); }
    ::alarm(static_cast<unsigned>(timeoutS) * 20u);
    Verdict v;
    try { v = fn(); } catch (const std::exception& e) { v = fail("escaped-exception", std::string("std::exception escaped: ") + e.what()); } catch (...) { v = fail("escaped-exception", "non-std exception"); }
    std::string s = std::to_string(static_cast<int>(v.kind)) + "\n" + v.oracle + "\n";
    for (char ch : v.msg) s += ch == '\n' ? ' ' : ch;
    size_t off = 0;
    while (off < s.size()) { auto w = ::write(fds[1], s.data() + off, s.size() - off); if (w <= 0) break; off += static_cast<size_t>(w); }
    ::close(fds[1]);
    ::_exit(0);
  }
  ::close(fds[1]);
  std::string buf; char tmp[4096]; ssize_t r;
  while ((r = ::read(fds[0], tmp, sizeof tmp)) > 0) buf.append(tmp, static_cast<size_t>(r));
  ::close(fds[0]);
  int status = 0; ::waitpid(pid, &status, 0);
  if (WIFSIGNALED(status) && (WTERMSIG(status) == SIGXCPU || WTERMSIG(status) == SIGKILL)) { out.status = ChildResult::TIMEOUT; return out; }
  if (WIFSIGNALED(status) && WTERMSIG(status) == SIGALRM) { out.status = ChildResult::STARVED; return out; }
  if (!(WIFEXITED(status) && WEXITSTATUS(status) == 0) || buf.empty()) {
    out.status = ChildResult::CRASH;
    out.crashInfo = WIFSIGNALED(status) ? "killed by signal " + std::to_string(WTERMSIG(status)) : "abnormal exit " + std::to_string(WEXITSTATUS(status));
    return out;
  }
  std::istringstream is(buf); std::string l1, l2, l3;
  std::getline(is, l1); std::getline(is, l2); std::getline(is, l3);
  out.verdict.kind = static_cast<Verdict::Kind>(atoi(l1.c_str())); out.verdict.oracle = l2; out.verdict.msg = l3;
  return out;
}

// greedy tape shrinker (fork per candidate): keeps a candidate if it still fails with the same oracle id
inline CaseFile shrinkTape(const Prop& p, Runtime& rt, CaseFile c, int budgetCandidates = 4000, double budgetS = 120.0) {
  const auto t0 = std::chrono::steady_clock::now();
  int tried = 0;
  auto over = [&] { return tried >= budgetCandidates || std::chrono::duration<double>(std::chrono::steady_clock::now() - t0).count() > budgetS; };
  auto stillFails = [&](const std::vector<int64_t>& t, CaseFile& out) {
    ++tried;
    std::string shown; std::vector<int64_t> used;
    const Verdict v = runForked(p.fn, rt, t, &shown, &used, 20);
    if (v.kind != Verdict::FAIL || v.oracle != c.oracle) return false;
    out = c; out.tape = v.oracle == "crash" || v.oracle == "timeout" ? t : used; out.msg = v.msg;
    if (!shown.empty()) out.show = shown;
    return true;
  };
  auto smaller = [](const std::vector<int64_t>& a, const std::vector<int64_t>& b) { return a.size() < b.size() || (a.size() == b.size() && a < b); };
  // normalise first: the recorded tape as replayed
  { CaseFile n; if (stillFails(c.tape, n)) c = n; else return c; }
  bool progress = true;
  while (progress && !over()) {
    progress = false;
    for (size_t chunk : {16u, 8u, 4u, 2u, 1u}) {
      for (size_t i = 0; i + chunk <= c.tape.size() && !over();) {
        auto t = c.tape; t.erase(t.begin() + static_cast<long>(i), t.begin() + static_cast<long>(i + chunk));
        CaseFile n;
        if (stillFails(t, n) && smaller(n.tape, c.tape)) { c = n; progress = true; } else ++i;
      }
    }
    for (size_t i = 0; i < c.tape.size() && !over(); ++i) {
      if (c.tape[i] == 0) continue;
      for (int64_t cand : {int64_t{0}, c.tape[i] / 2, c.tape[i] - 1}) {
        if (cand == c.tape[i] || cand < 0) continue;
        auto t = c.tape; t[i] = cand;
        CaseFile n;
        if (stillFails(t, n) && smaller(n.tape, c.tape)) { c = n; progress = true; break; }
      }
    }
  }
  return c;
}

// ------------------------------------------------------------------------------------------------
struct Args {
  std::string tier = "quick";
  uint64_t seed = 1;
  int worker = 0;
  std::string outDir = ".";
  std::vector<std::string> replay;
  std::string shrink;  // case file to shrink (crash triage)
  std::string only;
  double scale = 1.0;
  bool list = false;
};
inline Args parseArgs(int argc, char** argv) {
  Args a;
  for (int i = 1; i < argc; ++i) {
    const std::string k = argv[i];
    auto val = [&]() -> std::string { return i + 1 < argc ? argv[++i] : ""; };
    if (k == "--tier") a.tier = val();
    else if (k == "--seed") a.seed = strtoull(val().c_str(), nullptr, 10);
    else if (k == "--worker") a.worker = atoi(val().c_str());
    else if (k == "--out") a.outDir = val();
    else if (k == "--replay") a.replay.push_back(val());
    else if (k == "--shrink") a.shrink = val();
    else if (k == "--only") a.only = val();
    else if (k == "--scale") a.scale = atof(val().c_str());
    else if (k == "--list") a.list = true;
  }
  return a;
}

inline const Prop* findProp(const std::vector<Prop>& props, const std::string& name) {
  for (const auto& p : props) if (p.name == name) return &p;
  return nullptr;
}

// Replay one case file in a forked child.  exit status protocol for the driver:
//   prints "REPLAY <path> PASS|FAIL|DISCARD|EXCLUDED oracle=<id> msg=<..>"
inline Verdict replayFile(const std::vector<Prop>& props, Runtime& rt, const std::string& path) {
  CaseFile c;
  if (!readCase(path, c)) return fail("harness", "cannot read " + path);
  const Prop* p = findProp(props, c.sub);
  if (!p) return fail("harness", "unknown sub-property " + c.sub);
  const char* lim = std::getenv("VERIF_REPLAY_CPU_S");
  return runForked(p->fn, rt, c.tape, nullptr, nullptr, lim && atoi(lim) > 0 ? atoi(lim) : 120);
}

inline int main(int argc, char** argv, const std::string& propertyId, const std::vector<Prop>& props) {
  const Args a = parseArgs(argc, argv);
  Runtime rt;
  rt.property = propertyId; rt.outDir = a.outDir; rt.worker = a.worker;
  if (a.list) { for (const auto& p : props) std::cout << p.name << "\n"; return 0; }
  installDeathHooks(rt);

  if (!a.replay.empty()) {
    int rc = 0;
    for (const auto& f : a.replay) {
      const Verdict v = replayFile(props, rt, f);
      static const char* names[] = {"PASS", "FAIL", "DISCARD", "EXCLUDED"};
      std::cout << "REPLAY " << f << " " << names[v.kind] << " oracle=" << v.oracle << " msg=" << v.msg << std::endl;
      if (v.kind == Verdict::FAIL) rc = 1;
    }
    return rc;
  }
  if (!a.shrink.empty()) {
    CaseFile c;
    if (!readCase(a.shrink, c)) { std::cerr << "cannot read " << a.shrink << "\n"; return 2; }
    const Prop* p = findProp(props, c.sub);
    if (!p) { std::cerr << "unknown sub " << c.sub << "\n"; return 2; }
    // establish the oracle id of the failure first
    std::string shown; std::vector<int64_t> used;
    const Verdict v = runForked(p->fn, rt, c.tape, &shown, &used, 120);
    if (v.kind != Verdict::FAIL) { std::cout << "SHRINK not-failing\n"; return 0; }
    c.oracle = v.oracle; c.msg = v.msg; if (!shown.empty()) c.show = shown;
    c = shrinkTape(*p, rt, c);
    writeCase(a.shrink + ".min", c);
    std::cout << "SHRUNK " << a.shrink << ".min oracle=" << c.oracle << " msg=" << c.msg << std::endl;
    return 1;
  }

  const bool thorough = a.tier == "thorough";
  int rc = 0;
  for (const auto& p : props) {
    if (!a.only.empty() && p.name != a.only) continue;
    rt.currentSub = p.name;
    CaseFile failing; bool failed = false;

    if (p.exhaustive) {
      if (p.exhaustive_thorough_only && !thorough) continue;
      if (a.worker != 0) continue;  // enumerations are not sharded
      EnumSrc src;
      do {
        src.restart();
        Ctx c(src, &rt); c.exhaustive = true;
        const Verdict v = runGuarded(p.fn, c);
        rt.record(p.name, c, v);
        if (v.kind == Verdict::FAIL) {
          failing = CaseFile{propertyId, p.name, v.oracle, v.msg, c.show.str(), src.tape};
          failed = true; break;
        }
        if ((rt.evaluations & 0xFFFF) == 0) rt.flush(false);
      } while (src.next());
      if (!failed) rt.subs[p.name].exhaustive_done = true;
    } else {
      const int cases = std::max(1, static_cast<int>((thorough ? p.thorough_cases : p.quick_cases) * a.scale));
      rc::detail::TestParams params;
      params.seed = splitmix64(a.seed * 1000003ULL + static_cast<uint64_t>(a.worker) * 7919ULL + fnv1a(p.name));
      params.maxSuccess = cases;
      params.maxSize = 100;
      params.maxDiscardRatio = 20;
      rc::detail::TestMetadata meta; meta.id = propertyId + "/" + p.name; meta.description = meta.id;
      rt.counting = true;
      const auto result = rc::detail::checkTestable([&] {
        RcSrc src;
        Ctx c(src, &rt);
        const Verdict v = runGuarded(p.fn, c);
        rt.record(p.name, c, v);
        if (rt.counting && (rt.evaluations & 0x3FF) == 0) rt.flush(false);
        if (v.kind == Verdict::DISCARD) RC_DISCARD(v.oracle);
        if (v.kind == Verdict::FAIL) {
          rt.counting = false;  // everything after the first failure is shrinking
          failing = CaseFile{propertyId, p.name, v.oracle, v.msg, c.show.str(), src.tape};
          failed = true;
          RC_FAIL(v.oracle + ": " + v.msg);
        }
      }, meta, params);
      rt.counting = true;
      if (!failed && result.template is<rc::detail::GaveUpResult>()) {
        std::cerr << "pbt: rapidcheck gave up on " << p.name << " (too many discards) - generator problem, not a violation\n";
        rt.counters["gave_up:" + p.name] += 1;
      }
      if (!failed && result.template is<rc::detail::Error>()) {
        std::cerr << "pbt: rapidcheck error on " << p.name << ": " << result.template get<rc::detail::Error>().description << "\n";
        rt.flush(true);
        return 3;
      }
    }

    if (failed) {
      rt.violations++;
      const auto raw = rt.path("fail-" + p.name) + ".case";
      writeCase(raw, failing);
      CaseFile shrunk = shrinkTape(p, rt, failing, 3000, 90.0);
      const auto fin = rt.path("fail-" + p.name) + ".min.case";
      writeCase(fin, shrunk);
      std::cout << "FAIL sub=" << p.name << " oracle=" << shrunk.oracle << " file=" << fin << " msg=" << shrunk.msg << std::endl;
      rc = 1;
      break;  // one failure per run: later sub-properties are not explored behind it
    }
  }
  rt.flush(true);
  return rc;
}

}  // namespace pbt
