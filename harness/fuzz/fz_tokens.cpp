// fz_tokens - C04, structure-aware: bytes -> indices into a vocabulary of every token spelling of both syntaxes,
// identifiers of every constituent kind (also axiom / function / predicate names in any position), literals incl. the
// empty set and huge integers -> text -> the same oracle as fz_expr.  Reaches the type auditor and the interpreter far
// more often than byte-level mutation, because MATH tokens are multi-byte.
#include "c04_common.hpp"

namespace {
const std::vector<std::string>& vocabulary() {
  static const std::vector<std::string> v = {
    // identifiers and literals
    "X1", "X2", "C1", "S1", "S2", "D1", "D2", "A1", "F1", "P1", "T1", "X9", "R1", "R2", "a", "b", "x", "y", "ab", "\xCE\xB1", "\xCE\xBE", "_t",
    "0", "1", "2", "7", "2147483647", "2147483648", "99999999999999999999", "007", "Z", "\xE2\x88\x85", "{}",
    // MATH operators
    "+", "-", "*", ">", "<", "\xE2\x89\xA5", "\xE2\x89\xA4", "=", "\xE2\x89\xA0", "\xE2\x88\x80", "\xE2\x88\x83", "\xC2\xAC", "&", "\xE2\x88\xA8", "\xE2\x87\x92", "\xE2\x87\x94",
    ":\xE2\x88\x88", "\xE2\x88\x88", "\xE2\x88\x89", "\xE2\x8A\x86", "\xE2\x8A\x82", "\xE2\x8A\x84", "\xC3\x97", "\xE2\x88\xAA", "\xE2\x88\xA9", "\\", "\xE2\x88\x86", "\xE2\x84\xAC",
    // shared keywords
    "pr1", "pr2", "pr1,2", "pr0", "pr40000", "Pr1", "Pr2", "Pr2,1", "Pr3", "Fi1", "Fi1,2", "Fi2", "card", "bool", "red", "debool", "D", "R", "I",
    ":=", ":==", "::=", "(", ")", "{", "}", "[", "]", "|", ",", ";", " ", "\n", "\t",
    // ASCII operators
    "\\A", "\\E", "\\neg", "\\and", "\\or", "\\impl", "\\equiv", "\\plus", "\\minus", "\\multiply", "\\gr", "\\ls", "\\ge", "\\le", "\\eq", "\\noteq", "\\in", "\\notin",
    "\\subseteq", "\\subset", "\\notsubset", "\\union", "\\intersect", "\\setminus", "\\symmdiff", "B", "\\assign", "\\from", "\\defexpr", "\\deftype",
    // fragments that are valid on their own
    "X1\xE2\x88\xAAX1", "a\xE2\x88\x88X1", "\xE2\x88\x80" "a\xE2\x88\x88X1 ", "D{a\xE2\x88\x88X1|", "R{a:=X1|", "I{a|a:\xE2\x88\x88X1;", "F1[X1,X1]", "P1[D1]", "[a\xE2\x88\x88X1] ", "(a,b)", "debool(", "Pr1(S1)",
    "F2", "F3", "P2", "F2[X1]", "F3[X1]", "P2[X1,D1]", "F2[", "P2[",
    "\xF0\x9F\x98\x80", "\xFF", "\x00",
  };
  return v;
}
}  // namespace

extern "C" int LLVMFuzzerTestOneInput(const uint8_t* data, size_t size) {
  c04::resetGlobalState();
  auto& st = fuzz::stats();
  st.evaluation();
  if (size < 3) return 0;
  static const char* aliases[] = {"X1", "D1", "S1", "A1", "F1", "P1", "T1", "C1", "", "D99"};
  const int sel = data[0];
  const std::string alias = aliases[data[1] % 10];
  const auto& voc = vocabulary();
  std::string text;
  const bool spaced = data[2] & 1;
  for (size_t i = 3; i < size && text.size() < 400; ++i) {
    const std::string& tok = voc[data[i] % voc.size()];
    if (spaced && !text.empty() && (std::isalnum(static_cast<unsigned char>(text.back())) || tok[0] == '\\') ) text += ' ';
    if (tok == std::string("\x00", 1)) text.push_back('\0'); else text += tok;
  }
  const int stage = c04::runAll(text, sel % 3, (sel / 3) % 2, alias, (sel / 6) % 9);
  if (stage >= 1 || stage == -2) st.nontrivialLazy(data, size, [&] { return text; });
  return 0;
}
