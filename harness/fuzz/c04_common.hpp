// Shared oracle of the C04 expression fuzz targets: one text goes through every public expression entry point.
//   * every call returns normally (sanitizers, asserts and exception specifications are part of the oracle);
//   * no exception escapes (only nlohmann::json::exception may escape the JSON entry points);
//   * an analysis reports failure iff it logged at least one critical error;
//   * every reported position lies within the input.
#pragma once

#include "common/fuzz.hpp"
#include "model/libenv.hpp"

#include "ccl/api/RSFormJA.h"
#include "ccl/lang/TextEnvironment.h"
#include "ccl/rslang/RSGenerator.h"
#include "ccl/tools/JSON.h"

#include <pyconcept.h>

namespace c04 {

namespace rl = ccl::rslang;

// how an oracle violation is reported: libFuzzer targets trap (default); the rapidcheck harness throws instead
struct OracleViolation { std::string oracle, msg; };
inline bool& throwOnViolation() { static bool t = false; return t; }
[[noreturn]] inline void violation(const std::string& oracle, const std::string& msg) { if (throwOnViolation()) throw OracleViolation{oracle, msg}; fuzz::violation(oracle, msg); }

using JSON = nlohmann::ordered_json;

inline bool validUtf8(const std::string& s) {
  size_t i = 0;
  while (i < s.size()) {
    const unsigned char c = s[i];
    size_t n = c < 0x80 ? 1 : (c >= 0xC2 && c <= 0xDF) ? 2 : (c >= 0xE0 && c <= 0xEF) ? 3 : (c >= 0xF0 && c <= 0xF4) ? 4 : 0;
    if (n == 0 || i + n > s.size()) return false;
    for (size_t k = 1; k < n; ++k) if ((static_cast<unsigned char>(s[i + k]) & 0xC0) != 0x80) return false;
    i += n;
  }
  return true;
}
inline int codePoints(const std::string& s) { int n = 0; for (unsigned char c : s) if ((c & 0xC0) != 0x80) ++n; return n; }
// upper bound for a position reported for `text`: code points for MATH on valid UTF-8, else bytes (the larger, safe bound)
inline int bound(const std::string& text, rl::Syntax used) { return (used == rl::Syntax::MATH && validUtf8(text)) ? codePoints(text) : static_cast<int>(text.size()); }

inline void checkLog(const char* who, const std::string& text, const rl::ErrorLogger& log, bool success, rl::Syntax used, int extraPrefix = 0) {
  bool critical = false;
  const int hi = bound(text, used) + extraPrefix;
  for (const auto& e : log.All()) {
    critical |= e.IsCritical();
    if (e.position < 0 || e.position > hi) violation("error-position", std::string(who) + ": position " + std::to_string(e.position) + " outside [0," + std::to_string(hi) + "] eid=" + std::to_string(e.eid) + " text=" + text);
  }
  if (success == critical) violation("success-iff-no-critical-error", std::string(who) + (success ? ": reported success with a critical error logged" : ": reported failure without any critical error") + " text=" + text);
}
inline void checkJsonAnswer(const char* who, const std::string& text, const std::string& answer, int hiBound) {
  const JSON j = JSON::parse(answer);
  const bool ok = j.at("parseResult").get<bool>();
  bool critical = false;
  for (const auto& e : j.at("errors")) {
    critical |= e.at("isCritical").get<bool>();
    const int pos = e.at("position").get<int>();
    if (pos < 0 || pos > hiBound) violation("error-position", std::string(who) + ": position " + std::to_string(pos) + " outside [0," + std::to_string(hiBound) + "] text=" + text);
  }
  // the answer carries two analyses: the type check (parseResult) and, when it succeeds, the value-class audit
  // (valueClass, "invalid" = failed).  Each must report failure iff it logged a critical error.
  const bool valueFailed = ok && j.contains("valueClass") && j.at("valueClass").get<std::string>() == "invalid";
  const bool success = ok && !valueFailed;
  if (!ok && !critical) violation("success-iff-no-critical-error", std::string(who) + ": parseResult false without a critical error text=" + text);
  if (success && critical) violation("success-iff-no-critical-error", std::string(who) + ": parseResult true and a valid value class with a critical error text=" + text);
  if (valueFailed && !critical) violation("success-iff-no-critical-error", std::string(who) + ": value class invalid without a critical error text=" + text);
  if (ok && j.contains("astText") && j.at("astText").get<std::string>().empty()) violation("empty-ast-text", std::string(who) + ": success with empty astText text=" + text);
}

// ---- fixed contexts -------------------------------------------------------------------------------
inline const rs::Gamma& gamma() {
  static const rs::Gamma g = [] {
    using namespace rs;
    Gamma G;
    auto base = [&](const char* n, std::vector<int> els, bool integral) { Global x; x.name = n; x.isBase = true; x.integral = integral; x.type = Ty::Set(Ty::Base(n)); std::vector<Val> v; for (int e : els) v.push_back(Val::Int(e)); x.value = Val::Set(v); G.globals.push_back(x); };
    base("X1", {1, 2}, false); base("X2", {1}, false); base("C1", {0, 3}, true);
    { Global s; s.name = "S1"; s.type = Ty::Set(Ty::Tuple({Ty::Base("X1"), Ty::Base("X2")})); s.value = Val::Set({Val::Tuple({Val::Int(1), Val::Int(1)})}); G.globals.push_back(s); }
    { Global s; s.name = "S2"; s.type = Ty::Set(Ty::Set(Ty::Base("X1"))); s.value = Val::Set({Val::Set({Val::Int(1)}), Val::Empty()}); G.globals.push_back(s); }
    { Global d; d.name = "D1"; d.type = Ty::Base("X1"); d.value = Val::Int(2); G.globals.push_back(d); }
    { Global d; d.name = "D2"; d.type = Ty::Base("Z"); d.value = Val::Int(7); G.globals.push_back(d); }
    { Global a; a.name = "A1"; a.type = Ty::Logic(); G.globals.push_back(a); }
    { FuncDef f; f.name = "F1"; f.args = {{"a", Ty::Set(Ty::Base("R1"))}, {"b", Ty::Set(Ty::Base("R1"))}}; f.result = Ty::Set(Ty::Base("R1")); f.body = mk(TID::SET_MINUS, {mkName(TID::ID_LOCAL, "a"), mkName(TID::ID_LOCAL, "b")}); G.funcs.push_back(f); }
    { FuncDef f; f.name = "P1"; f.args = {{"a", Ty::Base("X1")}}; f.result = Ty::Logic(); f.body = mk(TID::IN, {mkName(TID::ID_LOCAL, "a"), mkName(TID::ID_GLOBAL, "X1")}); G.funcs.push_back(f); }
    // functions whose bodies can fail at run time (debool of a non-singleton, also through a nested call): their inlined
    // nodes must report positions inside the text that was evaluated, not inside the function's own definition
    { FuncDef f; f.name = "F2"; f.args = {{"a", Ty::Set(Ty::Base("R1"))}}; f.result = Ty::Base("R1"); f.body = mk(TID::DEBOOL, {mkName(TID::ID_LOCAL, "a")}); G.funcs.push_back(f); }
    { FuncDef f; f.name = "F3"; f.args = {{"a", Ty::Set(Ty::Base("X1"))}}; f.result = Ty::Set(Ty::Base("X1")); f.body = mk(TID::NT_ENUMERATION, {mk(TID::NT_FUNC_CALL, {mkName(TID::ID_FUNCTION, "F2"), mk(TID::UNION, {mkName(TID::ID_LOCAL, "a"), mkName(TID::ID_LOCAL, "a")})})}); G.funcs.push_back(f); }
    { FuncDef f; f.name = "P2"; f.args = {{"a", Ty::Set(Ty::Base("R1"))}, {"b", Ty::Base("R1")}}; f.result = Ty::Logic(); f.body = mk(TID::EQUAL, {mk(TID::DEBOOL, {mkName(TID::ID_LOCAL, "a")}), mkName(TID::ID_LOCAL, "b")}); G.funcs.push_back(f); }
    return G;
  }();
  return g;
}

struct Schemas { std::vector<ccl::api::RSFormJA> forms; std::vector<std::string> jsons; };
inline Schemas& schemas() {
  static Schemas* s = [] {
    using ccl::semantic::CstType;
    auto* out = new Schemas();
    {  // 0: empty schema
      ccl::semantic::RSForm f; out->forms.push_back(ccl::api::RSFormJA::FromData(std::move(f)));
    }
    {  // 1: a small correct schema with every constituent kind, plus one incorrect definition
      ccl::semantic::RSForm f;
      f.Emplace(CstType::base); f.Emplace(CstType::base); f.Emplace(CstType::constant);
      f.Emplace(CstType::structured, "\xE2\x84\xAC(X1\xC3\x97X2)");
      f.Emplace(CstType::structured, "\xE2\x84\xAC\xE2\x84\xAC(X1)");
      f.Emplace(CstType::term, "X1\\X1");
      f.Emplace(CstType::term, "Pr1(S1)");
      f.Emplace(CstType::axiom, "\xE2\x88\x80" "a\xE2\x88\x88X1 a\xE2\x88\x88X1");
      f.Emplace(CstType::function, "[a\xE2\x88\x88\xE2\x84\xAC(R1), b\xE2\x88\x88\xE2\x84\xAC(R1)] a\\b");
      f.Emplace(CstType::predicate, "[a\xE2\x88\x88X1] a\xE2\x88\x88" "D1");
      f.Emplace(CstType::theorem, "D1=D1");
      f.Emplace(CstType::term, "X9\xE2\x88\xAA");
      f.Emplace(CstType::term, "card(X1)+C1");
      out->forms.push_back(ccl::api::RSFormJA::FromData(std::move(f)));
    }
    for (auto& f : out->forms) out->jsons.push_back(f.ToJSON());
    return out;
  }();
  return *s;
}

inline void resetGlobalState() {
  ccl::lang::TextEnvironment::Instance().skipResolving = false;
  ccl::lang::TextEnvironment::SetProcessor(std::make_unique<ccl::lang::TextProcessor>());
}

inline int countOf(const std::string& text, const std::string& needle) { int n = 0; for (size_t p = text.find(needle); p != std::string::npos; p = text.find(needle, p + needle.size())) ++n; return n; }

// The whole oracle. `hintSel` 0..2 -> UNDEF/MATH/ASCII, `ctxSel` picks the schema, alias/kind feed CheckConstituenta.
// Returns the furthest stage reached (for the class histogram): 0 lex/parse error, 1 parsed, 2 type-correct, 3 evaluated.
inline int runAll(const std::string& text, int hintSel, int ctxSel, const std::string& alias, int kindSel) {
  static const rl::Syntax hints[] = {rl::Syntax::UNDEF, rl::Syntax::MATH, rl::Syntax::ASCII};
  const rl::Syntax hint = hints[hintSel % 3];
  auto& st = fuzz::stats();
  int stage = 0;
  std::set<uint32_t> codes;

  {  // 1. parser
    rl::Parser p;
    const bool ok = p.Parse(text, hint);
    checkLog("Parser::Parse", text, p.Errors(), ok, p.syntax);
    for (auto& e : p.Errors().All()) codes.insert(e.eid);
    if (ok) {
      stage = 1;
      if (rl::AST2String::Apply(p.AST()).empty()) violation("empty-ast-text", "successful parse with empty AST2String text=" + text);
      const auto m = rl::Generator::FromTree(p.AST(), rl::Syntax::MATH);
      const auto a = rl::Generator::FromTree(p.AST(), rl::Syntax::ASCII);
      if (m.empty() || a.empty()) violation("print-empty", "FromTree returned an empty text for " + text);
    }
  }
  {  // 2. auditor (type + value class) under the rslang-level context
    static const rs::LibEnv env(gamma(), false);
    rl::Auditor audit(env, env.valueContext(), env.astContext());
    const bool ok = audit.CheckType(text, hint);
    checkLog("Auditor::CheckType", text, audit.Errors(), ok, audit.parser.syntax);
    for (auto& e : audit.Errors().All()) codes.insert(e.eid);
    if (ok) {
      stage = 2;
      const bool vok = audit.CheckValue();
      checkLog("Auditor::CheckValue", text, audit.Errors(), vok, audit.parser.syntax);
      if (vok != (audit.GetValueClass() != rl::ValueClass::invalid)) violation("value-class", "CheckValue result and GetValueClass disagree for " + text);
    }
  }
  // 3. interpreter (bounded: power sets of power sets and long texts are skipped - a time budget is not an oracle)
  const int pow = countOf(text, "\xE2\x84\xAC") + countOf(text, "B");
  if (text.size() <= 96 && pow <= 3) {
    static const rs::LibEnv env(gamma(), false);
    rl::Interpreter interp(env, env.astContext(), env.dataContext());
    const auto res = interp.Evaluate(text, hint);
    checkLog("Interpreter::Evaluate", text, interp.Errors(), res.has_value(), interp.parser.syntax);
    for (auto& e : interp.Errors().All()) codes.insert(e.eid);
    if (res.has_value()) stage = 3;
  } else {
    st.count("evaluate-skipped-expensive");
  }
  // 4. conversions and the JSON level
  (void)rl::ConvertTo(text, rl::Syntax::ASCII);
  (void)rl::ConvertTo(text, rl::Syntax::MATH);
  checkJsonAnswer("api::ParseExpression", text, ccl::api::ParseExpression(text, hint), static_cast<int>(text.size()));
  auto& sch = schemas();
  const size_t ci = static_cast<size_t>(ctxSel) % sch.forms.size();
  checkJsonAnswer("RSFormJA::CheckExpression", text, sch.forms[ci].CheckExpression(text, hint), static_cast<int>(text.size()));
  static const char* kinds[] = {"basic", "constant", "structure", "axiom", "term", "function", "theorem", "predicate", "nonsense"};
  const std::string kind = kinds[kindSel % 9];
  try {
    const std::string full = alias + ":==" + text;
    checkJsonAnswer("RSFormJA::CheckConstituenta", text, sch.forms[ci].CheckConstituenta(alias, text, kind), static_cast<int>(full.size()));
  } catch (const nlohmann::json::exception&) { st.count("json-exception-cst-type"); }
  // 5. the python wrappers (compiled from /repo/pyconcept against a stub pybind11)
  (void)ConvertToASCII(text);
  (void)ConvertToMath(text);
  checkJsonAnswer("pyconcept.ParseExpression", text, ParseExpression(text), static_cast<int>(text.size()));
  checkJsonAnswer("pyconcept.CheckExpression", text, CheckExpression(sch.jsons[ci], text), static_cast<int>(text.size()));
  try {
    const std::string full = alias + ":==" + text;
    checkJsonAnswer("pyconcept.CheckConstituenta", text, CheckConstituenta(sch.jsons[ci], alias, text, kind), static_cast<int>(full.size()));
  } catch (const nlohmann::json::exception&) { st.count("json-exception-cst-type"); }

  static const char* stages[] = {"stage:rejected-by-parser", "stage:parsed", "stage:type-correct", "stage:evaluated"};
  st.label(stages[stage]);
  st.label(hintSel % 3 == 0 ? "hint:UNDEF" : hintSel % 3 == 1 ? "hint:MATH" : "hint:ASCII");
  if (!codes.empty()) { char b[24]; snprintf(b, sizeof b, "first-error:%04X", *codes.begin()); st.label(b); }
  return stage >= 1 ? stage : (codes.size() >= 2 ? -2 : 0);
}

}  // namespace c04
