// fz_json - C04: JSON documents through the schema-level entry points.
// mode 0: raw bytes as the document; mode 1: structure-aware - a schema document is assembled from the bytes (identifiers,
// aliases, kinds, definitions, texts, tracking entries drawn from pools that contain valid, colliding and ill-formed
// values).  Oracle: only nlohmann::json::exception may escape; a loaded schema serialises, re-loads and answers
// CheckExpression / CheckConstituenta; the python wrappers CheckSchema / ResetAliases behave the same.
#include "c04_common.hpp"

#include "common/pbt.hpp"

namespace {
using JSON = nlohmann::ordered_json;

std::string assemble(pbt::ByteSrc& src) {
  static const std::vector<std::string> aliases = {"X1", "X2", "C1", "S1", "D1", "D2", "A1", "F1", "P1", "T1", "X1", "", "D", "1X", "\xD0\x96" "1", "X01", "D11"};
  static const std::vector<std::string> kinds = {"basic", "constant", "structure", "axiom", "term", "function", "theorem", "predicate", "nonsense"};
  static const std::vector<std::string> formals = {"", "X1", "X1\xE2\x88\xAAX1", "\xE2\x84\xAC(X1\xC3\x97X1)", "D1\\X1", "Pr1(S1)", "\xE2\x88\x80" "a\xE2\x88\x88X1 a\xE2\x88\x88" "D1", "[a\xE2\x88\x88X1] {a}", "[a\xE2\x88\x88\xE2\x84\xAC(R1)] a\xE2\x88\xAA" "a",
                                                   "D1", "D2\xE2\x88\xAA" "D1", "X9", "(((", "1+", "\xE2\x88\x85", "A1", "F1[X1]", "P1[D1]", "debool(X1)", "R{a:=X1|a\\a}", "I{a|a:\xE2\x88\x88X1}", "card(X1)", "\xFF\xFE"};
  static const std::vector<std::string> texts = {"", "plain", "@{X1|nomn,sing}", "@{D1|datv,plur} and @{-1|word}", "@{X9|nomn}", "@{X1|nomn|}", "@{99999999999|t}", "@@{X1|nomn}", "\xE2\x84\xAC @{S1|sing}", "@{"};
  JSON doc = {{"type", "rsform"}, {"title", "t"}, {"alias", "a"}, {"comment", ""}};
  doc["items"] = JSON::array();
  const int n = static_cast<int>(src.pick(0, 7));
  std::vector<int64_t> uids;
  for (int i = 0; i < n; ++i) {
    JSON it;
    const int64_t uid = src.pick(0, 5) == 0 ? (uids.empty() ? 1 : uids[static_cast<size_t>(src.pick(0, static_cast<int64_t>(uids.size()) - 1))]) : src.pick(-1, 12);
    uids.push_back(uid);
    it["entityUID"] = uid;
    it["type"] = "constituenta";
    it["cstType"] = kinds[static_cast<size_t>(src.pick(0, static_cast<int64_t>(kinds.size()) - 1))];
    it["alias"] = aliases[static_cast<size_t>(src.pick(0, static_cast<int64_t>(aliases.size()) - 1))];
    it["convention"] = texts[static_cast<size_t>(src.pick(0, 2))];
    if (src.pick(0, 3) != 0) {
      it["term"] = {{"raw", texts[static_cast<size_t>(src.pick(0, static_cast<int64_t>(texts.size()) - 1))]}, {"resolved", ""}, {"forms", JSON::array()}};
      if (src.pick(0, 3) == 0) it["term"]["forms"].push_back({{"text", "form"}, {"tags", src.pick(0, 1) ? "sing,datv" : "nonsense,,"}});
    }
    it["definition"] = {{"formal", formals[static_cast<size_t>(src.pick(0, static_cast<int64_t>(formals.size()) - 1))]},
                        {"text", {{"raw", texts[static_cast<size_t>(src.pick(0, static_cast<int64_t>(texts.size()) - 1))]}, {"resolved", ""}}}};
    if (src.pick(0, 9) == 0) it.erase("alias");
    doc["items"].push_back(it);
  }
  if (src.pick(0, 2) == 0) {
    doc["tracking"] = JSON::array();
    const int t = static_cast<int>(src.pick(0, 2));
    for (int i = 0; i < t; ++i) doc["tracking"].push_back({{"entityUID", src.pick(-1, 12)}, {"flags", {{"mutable", src.pick(0, 1) == 1}, {"editTerm", true}, {"editDefinition", false}, {"editConvention", true}}}});
  }
  return doc.dump(-1, ' ', false, JSON::error_handler_t::replace);
}
}  // namespace

extern "C" int LLVMFuzzerTestOneInput(const uint8_t* data, size_t size) {
  c04::resetGlobalState();
  auto& st = fuzz::stats();
  st.evaluation();
  if (size < 1) return 0;
  std::string doc;
  if (data[0] & 1) { pbt::ByteSrc src(data + 1, size - 1); doc = assemble(src); st.label("mode:assembled"); }
  else { doc.assign(reinterpret_cast<const char*>(data + 1), size - 1); st.label("mode:raw"); }
  bool loaded = false;
  try {
    auto form = ccl::api::RSFormJA::FromJSON(doc);
    loaded = true;
    const std::string out = form.ToJSON();
    (void)form.ToMinimalJSON();
    c04::checkJsonAnswer("RSFormJA::CheckExpression", doc, form.CheckExpression("X1\xE2\x88\xAA" "D1"), 64);
    c04::checkJsonAnswer("RSFormJA::CheckConstituenta", doc, form.CheckConstituenta("D1", "X1\\X1", "term"), 64);
    // a document produced by the library loads again and is stable
    auto again = ccl::api::RSFormJA::FromJSON(out);
    if (again.ToJSON() != out) st.count("save-load-save-differs");  // C10 decides this; counted here only
  } catch (const nlohmann::json::exception&) { st.label("json-exception"); }
  try { (void)CheckSchema(doc); } catch (const nlohmann::json::exception&) {}
  try { (void)ResetAliases(doc); } catch (const nlohmann::json::exception&) {}
  try { c04::checkJsonAnswer("pyconcept.CheckExpression", doc, CheckExpression(doc, "X1"), 16); } catch (const nlohmann::json::exception&) {}
  st.label(loaded ? "loaded" : "rejected");
  if (loaded) st.nontrivialLazy(data, size, [&] { return doc.substr(0, 600); });
  return 0;
}
