// fz_compact - libFuzzer target for the decode half of C16 (SDCompact::Unpack on untrusted integer tables).
//
// bytes -> (typification, table):
//   byte 0            index into a fixed list of 12 typifications (mod 12)
//   then per byte b   0xFF            start a new row
//                     0xF0..0xFE      the next 4 bytes are a raw little-endian int32 cell
//                     0xE0..0xEF      a cell from a table of special values (unknown-count marker and neighbours,
//                                     -1, int32 limits, ...)
//                     0xC0..0xDF      cell 16 + (b & 0x1F)
//                     otherwise       cell b & 0x0F  (counts and element ids are small in well-formed tables)
// Oracle (cpt::decodeOracle): Unpack does not fault (ASan/UBSan/asserts, escaped exceptions), returns nothing or a value
// that passes the deep structural check against the typification; a decoded value packs and unpacks to an equal value.
// The library keeps no global state in this code path, so there is nothing to reset per input.
#include "common/fuzz.hpp"
#include "model/sdcompact_model.hpp"

#include <cstdint>
#include <exception>
#include <string>
#include <vector>

namespace {

using rsv::Type;

struct Target { Type type; ccl::rslang::Typification lib; std::string name; };

const std::vector<Target>& targets() {
  static const std::vector<Target> ts = [] {
    const Type X = Type::base("X1"), Z = Type::integer(), BX = Type::set(X);
    const std::vector<Type> types{
      X,                                                         // 0
      Type::tuple({X, Z}),                                       // 1
      BX,                                                        // 2
      Type::set(Type::tuple({X, X})),                            // 3
      Type::set(BX),                                             // 4
      Type::tuple({BX, BX}),                                     // 5
      Type::set(Type::tuple({X, BX})),                           // 6
      Type::set(Type::tuple({BX, X})),                           // 7
      Type::set(Type::tuple({BX, BX})),                          // 8
      Type::set(Type::set(BX)),                                  // 9
      Type::tuple({Type::set(Type::tuple({Z, Type::set(BX)})), X}),  // 10
      Type::set(Type::tuple({Type::tuple({X, BX}), Type::set(Type::tuple({X, X})), Z})),  // 11
    };
    std::vector<Target> out;
    for (const auto& t : types) out.push_back({t, rsv::toLib(t), rsv::str(t)});
    return out;
  }();
  return ts;
}

cpt::Table decodeTable(const uint8_t* p, size_t n) {
  static const int32_t special[16] = {cpt::kUnknownCount, cpt::kUnknownCount - 1, cpt::kUnknownCount + 1, -1, -2, INT32_MAX, INT32_MIN, 100, 255, 256,
                                      65535, 65536, 1000000, -cpt::kUnknownCount, 16, 31};
  cpt::Table t;
  if (n == 0) return t;
  t.emplace_back();
  for (size_t i = 0; i < n; ++i) {
    const uint8_t b = p[i];
    if (b == 0xFF) { t.emplace_back(); continue; }
    int32_t cell;
    if (b >= 0xF0) {
      uint32_t raw = 0;
      for (int k = 0; k < 4; ++k) { raw |= static_cast<uint32_t>(i + 1 < n ? p[i + 1] : 0) << (8 * k); if (i + 1 < n) ++i; }
      cell = static_cast<int32_t>(raw);
    } else if (b >= 0xE0) cell = special[b & 0x0F];
    else if (b >= 0xC0) cell = 16 + (b & 0x1F);
    else cell = b & 0x0F;
    t.back().push_back(cell);
  }
  return t;
}

}  // namespace

extern "C" int LLVMFuzzerTestOneInput(const uint8_t* data, size_t size) {
  auto& st = fuzz::stats();
  st.evaluation();
  if (size == 0) return 0;
  const auto& ts = targets();
  const size_t ti = data[0] % ts.size();
  const Target& tg = ts[ti];
  const cpt::Table table = decodeTable(data + 1, size - 1);
  cpt::DecodeResult r;
  try {
    r = cpt::decodeOracle(table, tg.type, tg.lib);
  } catch (const std::exception& e) {
    fuzz::violation("escaped-exception", "type " + tg.name + " table " + cpt::str(table) + ": " + e.what());
  }
  if (r.failed()) fuzz::violation(r.oracle, "type " + tg.name + " table " + cpt::str(table) + ": " + r.msg);
  st.label("type:" + std::to_string(ti));
  st.label(r.decoded ? "decoded" : "rejected");
  size_t cells = 0;
  bool marker = false, negative = false, ragged = false;
  for (const auto& row : table) { cells += row.size(); ragged = ragged || row.size() != table.front().size(); for (auto x : row) { marker = marker || x == cpt::kUnknownCount; negative = negative || x < 0; } }
  if (marker) st.label(r.decoded ? "unknown-count:decoded" : "unknown-count:rejected");
  if (negative) st.label("has-negative");
  if (ragged) st.label("ragged-rows");
  if (table.size() >= 2) st.label(r.decoded ? "multi-row:decoded" : "multi-row:rejected");
  // non-trivial: a table of at least two rows or four cells that decodes against a typification containing a set
  if (r.decoded && rsv::containsSet(tg.type) && (table.size() >= 2 || cells >= 4))
    st.nontrivialLazy(data, size, [&] { return "type " + tg.name + " table " + cpt::str(table); });
  return 0;
}
