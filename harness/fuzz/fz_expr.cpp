// fz_expr - C04: raw bytes as expression text through every public expression entry point (see c04_common.hpp).
// byte 0: syntax hint (UNDEF/MATH/ASCII), schema context, constituent kind; byte 1: alias; rest: the text (any bytes).
#include "c04_common.hpp"

extern "C" int LLVMFuzzerTestOneInput(const uint8_t* data, size_t size) {
  c04::resetGlobalState();
  auto& st = fuzz::stats();
  st.evaluation();
  if (size < 2) return 0;
  static const char* aliases[] = {"X1", "D1", "S1", "A1", "F1", "P1", "T1", "C1", "", "\xD0\x96" "1", "X", "D99", "1", "x1"};
  const int sel = data[0];
  const std::string alias = aliases[data[1] % 14];
  const std::string text(reinterpret_cast<const char*>(data + 2), size - 2);
  const int stage = c04::runAll(text, sel % 3, (sel / 3) % 2, alias, (sel / 6) % 9);
  if (stage >= 1 || stage == -2) st.nontrivialLazy(data, size, [&] { return text; });
  return 0;
}
