// fz_ref - libFuzzer target for the text-reference code (C17, and the reference-text part of C04).
//
// bytes -> text.  Only well-formed UTF-8 is in the documented domain of the UTF-8 utilities ("Requires UTF8 conforming
// input", Strings.hpp): if the input is not structurally valid UTF-8 every offending byte is replaced by '?' before use
// (class "sanitized").  The text then goes through
//   Reference::Parse(text)                       no fault (arbitrary strings are given to Parse by upstream's tests)
//   Reference::ExtractAll(text)                  vs the model M6: ranges in the text / ordered / disjoint, every reported
//                                                reference is a well-formed occurrence with that content and canonical
//                                                ToString, every top-level well-formed occurrence is reported
//   RefsManager::Resolve / get / OutputRefs      under a small fixed term context: ranges ordered and delimiting the recorded
//                                                resolution, resolved text = model; OutputRefs(Resolve(x)) = x up to canonical
//                                                spelling and (every second text) parses to the same reference list (both
//                                                skipped when a candidate has no documented reading)
//   (the other half of the texts, chosen by a hash of the text:)
//   ManagedText InitFrom / Str / Raw / Referals / TranslateRaw   Raw kept, Str = Resolve, Referals = entity names of the
//                                                references found, renaming = gaps and unchanged references byte-identical,
//                                                renamed references in canonical spelling
// Global state (TextEnvironment processor, skipResolving) is reset at the top of every input.
#include "common/fuzz.hpp"
#include "model/reftext_glue.hpp"

#include "ccl/Substitutes.hpp"

#include <cstdint>
#include <set>
#include <string>

using ccl::lang::ManagedText;
using ccl::lang::Reference;
using ccl::lang::RefsManager;

namespace {

const m6::ContextModel& contextModel() {
  static const m6::ContextModel m = [] {
    m6::ContextModel c;
    c.terms["X1"].nominal = "Test";
    c.terms["X2"].nominal = "\xD0\x9C\xD0\xBD\xD0\xBE\xD0\xB6\xD0\xB5\xD1\x81\xD1\x82\xD0\xB2\xD0\xBE";
    c.terms["X2"].manual[{m6::tagIndex("sing"), m6::tagIndex("datv")}] = "manual";
    c.terms["X3"].nominal = "";
    c.terms["abc"].nominal = "\xE2\x84\xAC-set";
    return c;
  }();
  return m;
}

void must(const glue::Failure& f) { if (f.failed()) fuzz::violation(f.oracle, f.msg); }

// does Parse(whole text) fall into a listed known-finding class?  (Parse strips 2 leading and 1 trailing byte.)
std::string knownForWholeParse(const std::string& text) {
  if (text.size() <= 3) return {};
  if (fuzz::known("legacy-empty-last") && glue::legacyEmptyLastShape(text)) return "legacy-empty-last";
  const auto f = m6::split(std::string_view(text).substr(2, text.size() - 3), '|');
  if (f.size() == 2 && m6::isIntegerText(f[0])) {
    const auto p = m6::classify("@{" + std::string(f[0]) + "|}");
    if (fuzz::known("offset-beyond-int32") && p.offsetBeyondInt32) return "offset-beyond-int32";
  }
  return {};
}

}  // namespace

// see harness/props/C17.cpp: shallower allocation stacks keep ASan's stack depot small (ASAN_OPTIONS still takes precedence)
extern "C" const char* __asan_default_options() { return "malloc_context_size=8"; }

extern "C" int LLVMFuzzerTestOneInput(const uint8_t* data, size_t size) {
  glue::resetTextEnvironment();
  auto& st = fuzz::stats();
  st.evaluation();

  const std::string raw(reinterpret_cast<const char*>(data), size);
  const bool valid = m6::validUtf8(raw);
  const std::string text = valid ? raw : m6::sanitizeUtf8(raw);
  if (!valid) st.label("sanitized");

  const auto sc = m6::scan(text);
  {
    auto k = glue::knownClass(text, sc, [](const char* key) { return fuzz::known(key); });
    if (k.empty()) k = knownForWholeParse(text);
    if (!k.empty()) { st.excludedKnown(k); return 0; }
  }

  // Parse of the whole text: no fault
  (void)Reference::Parse(text).IsValid();

  // extraction vs M6
  const auto found = Reference::ExtractAll(text);
  std::vector<m6::Occ> E;
  int nested = 0;
  must(glue::compareExtraction(text, sc, found, E, nested));
  must(glue::compareParse(sc, true));
  if (nested) st.count("nested-occurrence-reported", nested);
  if (sc.unspecified) st.count("unconstrained:unspecified-candidate");

  // classes
  const size_t nrefs = found.size();
  st.label("refs:" + std::to_string(std::min<size_t>(nrefs, 4)));
  if (sc.hasUnclosed) st.label("unclosed");
  if (sc.hasNested) st.label("nested-start");
  if (sc.hasAdjacent) st.label("adjacent-refs");
  if (sc.unspecified) st.label("unspecified-candidate");
  bool multibyteBefore = false, malformedClosed = false;
  for (const auto& o : sc.top) {
    if (o.closed && o.p.kind == m6::Kind::Malformed) malformedClosed = true;
    if (o.closed && o.p.wellFormed() && m6::hasMultibyte(text.substr(0, o.bstart))) multibyteBefore = true;
  }
  if (malformedClosed) st.label("malformed-closed");
  if (multibyteBefore) st.label("multibyte-before-ref");
  if (!sc.top.empty()) st.nontrivialLazy(reinterpret_cast<const uint8_t*>(text.data()), text.size(), [&] { return glue::esc(text); });

  // resolution under the fixed context
  static const glue::TermContext* ctx = new glue::TermContext(contextModel());
  RefsManager mgr(*ctx);
  const std::string resolved = mgr.Resolve(text);
  if (found.empty()) {
    // no reference: everything is the identity.  The remaining calls would repeat exactly the extraction already done
    // above on the same text (ExtractAll is a pure function of the text) and then do nothing with an empty list, so
    // the budget goes to texts with references instead.
    if (resolved != text || !mgr.get().empty()) fuzz::violation("resolved-text", "Resolve changed a text without references: '" + glue::esc(text) + "' -> '" + glue::esc(resolved) + "'");
    if (mgr.OutputRefs(resolved) != text) fuzz::violation("write-back", "OutputRefs changed a text without references: '" + glue::esc(text) + "'");
    return 0;
  }
  must(glue::checkStructure(resolved, mgr.get(), "Resolve:"));
  if (mgr.get().size() != found.size()) fuzz::violation("resolve-count", "Resolve kept " + std::to_string(mgr.get().size()) + " references, ExtractAll found " + std::to_string(found.size()));
  if (!sc.unspecified) {
    const auto model = m6::resolveText(text, E, contextModel());
    if (resolved != model.text) fuzz::violation("resolved-text", "Resolve('" + glue::esc(text) + "') = '" + glue::esc(resolved) + "' want '" + glue::esc(model.text) + "'");
    for (size_t i = 0; i < E.size(); ++i) {
      const auto& p = mgr.get()[i].position;
      if (p.start != model.ranges[i].first || p.finish != model.ranges[i].second)
        fuzz::violation("resolved-range", "reference " + std::to_string(i) + " recorded at " + glue::rng(p.start, p.finish) + " want " + glue::rng(model.ranges[i].first, model.ranges[i].second));
    }
  }
  // write the references back: the original text up to the canonical spelling of every reference
  const bool stageManaged = (fuzz::fnv1a(reinterpret_cast<const uint8_t*>(text.data()), text.size()) & 1) == 0;
  const std::string back = mgr.OutputRefs(resolved);
  // (an undocumented candidate - e.g. a name containing a brace - may be re-spelled into something that scans differently)
  if (!sc.unspecified) {
    std::vector<m6::Seg> segs;
    size_t cur = 0;
    for (const auto& o : E) { segs.push_back(m6::litSeg(text.substr(cur, o.bstart - cur))); segs.push_back(m6::refSeg(o.p)); cur = o.bfinish; }
    segs.push_back(m6::litSeg(text.substr(cur)));
    const auto d = m6::matchSegs(back, segs);
    if (!d.empty()) fuzz::violation("write-back", "OutputRefs(Resolve('" + glue::esc(text) + "')) = '" + glue::esc(back) + "': " + d);
  }
  // ... and it parses to the same reference list (one more extraction: done for the texts that skip the ManagedText stage)
  if (!sc.unspecified && !stageManaged) {
    const auto again = Reference::ExtractAll(back);
    if (again.size() != found.size()) fuzz::violation("write-back-reparse", "OutputRefs(Resolve(x)) = '" + glue::esc(back) + "' has " + std::to_string(again.size()) + " references, x has " + std::to_string(found.size()));
    for (size_t i = 0; i < again.size(); ++i) {
      const auto a = glue::view(again[i]), b = glue::view(found[i]);
      if (a.type != b.type || a.entity != b.entity || a.tags != b.tags || a.offset != b.offset || a.nominal != b.nominal)
        fuzz::violation("write-back-reparse", "reference " + std::to_string(i) + " of OutputRefs(Resolve(x)) is " + glue::esc(a.spelled) + ", of x " + glue::esc(b.spelled));
    }
  }
  if (!resolved.empty() && !mgr.get().empty()) {
    // a sub-range from the text start to the end of the first reference: no fault, and it ends with that reference
    const auto& first = mgr.get().front();
    (void)mgr.OutputRefs(resolved, ccl::StrRange{0, first.position.finish});
    (void)mgr.FirstIn(ccl::StrRange{0, first.position.finish});
  }

  // managed text: one more Resolve and two more extractions of the same text - done for every second text (chosen by a
  // hash of the text, so the choice is a deterministic function of the input) to keep 150k executions within the quick tier
  if (!stageManaged) return 0;
  st.label("managed-text-stage");
  ManagedText mt;
  mt.InitFrom(text, *ctx);
  if (mt.Raw() != text) fuzz::violation("managed-raw", "Raw() differs from the text given to InitFrom");
  if (mt.Str() != (resolved.empty() ? text : resolved)) fuzz::violation("managed-str", "Str() differs from Resolve(text)");
  {
    std::set<std::string> want;
    for (const auto& r : found) if (r.IsEntity()) want.insert(std::string(r.GetEntity()));
    const auto got = mt.Referals();
    if (std::set<std::string>(got.begin(), got.end()) != want) fuzz::violation("referals", "Referals() has " + std::to_string(got.size()) + " names, the text mentions " + std::to_string(want.size()));
  }
  {
    static const ccl::StrSubstitutes renames = {{"X1", "X2"}, {"X2", "X11"}, {"abc", "T"}, {"T", "T"}};
    mt.TranslateRaw(ccl::CreateTranslator(renames));
    if (!sc.unspecified) {
      std::vector<m6::Seg> segs;
      size_t cur = 0;
      for (const auto& o : E) {
        segs.push_back(m6::litSeg(text.substr(cur, o.bstart - cur)));
        const auto it = o.p.kind == m6::Kind::Entity ? renames.find(o.p.entity) : renames.end();
        if (it != renames.end() && it->second != o.p.entity) { m6::Parsed p = o.p; p.entity = it->second; segs.push_back(m6::refSeg(p)); }
        else segs.push_back(m6::litSeg(o.spelling));
        cur = o.bfinish;
      }
      segs.push_back(m6::litSeg(text.substr(cur)));
      const auto d = m6::matchSegs(mt.Raw(), segs);
      if (!d.empty()) fuzz::violation("translate-raw", "TranslateRaw('" + glue::esc(text) + "') = '" + glue::esc(mt.Raw()) + "': " + d);
    }
  }
  return 0;
}
