// C14 - dependency-graph queries are exact for every graph and update history.
// Oracle: an adjacency-set model (map<uid,set<uid>>) with naive reachability / SCC by double reachability.
#include "common/pbt.hpp"

#include "ccl/graph/CGraph.h"

#include <map>
#include <set>

using ccl::EntityUID;
using ccl::graph::CGraph;
using pbt::Ctx;
using pbt::Verdict;

namespace {

struct Model {
  std::set<EntityUID> items;
  std::set<std::pair<EntityUID, EntityUID>> edges;  // source -> dest

  void add(EntityUID u) { items.insert(u); }
  void erase(EntityUID u) {
    if (!items.count(u)) return;
    items.erase(u);
    for (auto it = edges.begin(); it != edges.end();) it = (it->first == u || it->second == u) ? edges.erase(it) : std::next(it);
  }
  void connect(EntityUID s, EntityUID d) { add(s); add(d); edges.emplace(s, d); }
  void setInputs(EntityUID u, const std::set<EntityUID>& in) {
    add(u);
    for (auto it = edges.begin(); it != edges.end();) it = (it->second == u) ? edges.erase(it) : std::next(it);
    for (auto s : in) { add(s); edges.emplace(s, u); }
  }
  void clear() { items.clear(); edges.clear(); }

  std::set<EntityUID> succ(EntityUID u, bool forward) const {
    std::set<EntityUID> r;
    for (auto& e : edges) { if (forward && e.first == u) r.insert(e.second); if (!forward && e.second == u) r.insert(e.first); }
    return r;
  }
  // closure including the seeds that are items
  std::set<EntityUID> expand(const std::set<EntityUID>& seeds, bool forward) const {
    std::set<EntityUID> r; std::vector<EntityUID> todo;
    for (auto s : seeds) if (items.count(s) && r.insert(s).second) todo.push_back(s);
    while (!todo.empty()) { auto u = todo.back(); todo.pop_back(); for (auto v : succ(u, forward)) if (r.insert(v).second) todo.push_back(v); }
    return r;
  }
  // reachable by a path of length >= 1
  bool reach1(EntityUID s, EntityUID d) const {
    std::set<EntityUID> r; std::vector<EntityUID> todo{s};
    bool first = true;
    std::set<EntityUID> seen;
    while (!todo.empty()) {
      auto u = todo.back(); todo.pop_back();
      for (auto v : succ(u, true)) { if (v == d) return true; if (seen.insert(v).second) todo.push_back(v); }
      (void)first;
    }
    return false;
  }
  std::set<std::set<EntityUID>> loopGroups() const {
    std::set<std::set<EntityUID>> r;
    for (auto u : items) {
      if (!reach1(u, u)) continue;
      std::set<EntityUID> comp;
      for (auto v : items) if (v == u || (reach1(u, v) && reach1(v, u))) comp.insert(v);
      r.insert(comp);
    }
    return r;
  }
  bool hasLoop() const { for (auto u : items) if (reach1(u, u)) return true; return false; }
};

std::string setStr(const std::set<EntityUID>& s) { std::string o = "{"; for (auto u : s) o += std::to_string(u) + " "; return o + "}"; }
template <class C> std::set<EntityUID> toSet(const C& c) { return std::set<EntityUID>(c.begin(), c.end()); }

#define CHECK(cond, oracle, msg) do { if (!(cond)) return pbt::fail(oracle, msg); } while (0)

// compare every query; `subsets` supplies seed sets for the closure / sort queries
Verdict compare(const CGraph& g, const Model& m, const std::vector<EntityUID>& universe, const std::vector<std::set<EntityUID>>& subsets) {
  CHECK(g.ItemsCount() == static_cast<int>(m.items.size()), "items-count", "ItemsCount=" + std::to_string(g.ItemsCount()) + " want " + std::to_string(m.items.size()));
  CHECK(g.ConnectionsCount() == static_cast<int>(m.edges.size()), "connections-count", "ConnectionsCount=" + std::to_string(g.ConnectionsCount()) + " want " + std::to_string(m.edges.size()));
  for (auto u : universe) {
    CHECK(g.Contains(u) == (m.items.count(u) > 0), "contains", "Contains(" + std::to_string(u) + ")");
    CHECK(toSet(g.InputsFor(u)) == m.succ(u, false), "inputs", "InputsFor(" + std::to_string(u) + ")=" + setStr(toSet(g.InputsFor(u))) + " want " + setStr(m.succ(u, false)));
    for (auto v : universe) {
      CHECK(g.ConnectionExists(u, v) == (m.edges.count({u, v}) > 0), "connection-exists", "ConnectionExists(" + std::to_string(u) + "," + std::to_string(v) + ")");
      const bool got = g.IsReachableFrom(v, u);  // dest v from source u
      if (u != v) {
        CHECK(got == m.reach1(u, v), "reachable", "IsReachableFrom(dest=" + std::to_string(v) + ",source=" + std::to_string(u) + ")=" + (got ? "true" : "false"));
      } else if (m.edges.count({u, u})) {
        CHECK(got, "reachable", "IsReachableFrom(u,u) false despite self edge");
      } else if (!m.reach1(u, u)) {
        CHECK(!got, "reachable", "IsReachableFrom(u,u) true without a cycle through u");
      }
    }
  }
  CHECK(g.HasLoop() == m.hasLoop(), "has-loop", std::string("HasLoop=") + (g.HasLoop() ? "true" : "false"));
  {
    std::set<std::set<EntityUID>> got;
    const auto groups = g.GetAllLoopsItems();
    for (auto& grp : groups) got.insert(toSet(grp));
    const auto want = m.loopGroups();
    std::string gs, ws;
    for (auto& s : got) gs += setStr(s);
    for (auto& s : want) ws += setStr(s);
    CHECK(got.size() == groups.size(), "loop-groups", "GetAllLoopsItems returned a duplicate group: " + gs);
    CHECK(got == want, "loop-groups", "GetAllLoopsItems=" + gs + " want " + ws);
  }
  const auto topo = g.TopologicalOrder();
  {
    CHECK(topo.size() == m.items.size() && toSet(topo) == m.items, "topo-perm", "TopologicalOrder is not a permutation of the live items (size " + std::to_string(topo.size()) + ")");
    auto inv = g.InverseTopologicalOrder();
    std::reverse(inv.begin(), inv.end());
    CHECK(inv == topo, "topo-inverse", "InverseTopologicalOrder is not the reverse of TopologicalOrder");
    if (!m.hasLoop()) {
      std::map<EntityUID, size_t> pos;
      for (size_t i = 0; i < topo.size(); ++i) pos[topo[i]] = i;
      for (auto& e : m.edges) CHECK(pos[e.first] < pos[e.second], "topo-edge", "edge " + std::to_string(e.first) + "->" + std::to_string(e.second) + " not respected");
    }
  }
  for (const auto& seeds : subsets) {
    const CGraph::UnorderedItems in(seeds.begin(), seeds.end());
    CHECK(toSet(g.ExpandOutputs(in)) == m.expand(seeds, true), "expand-outputs", "ExpandOutputs(" + setStr(seeds) + ")=" + setStr(toSet(g.ExpandOutputs(in))) + " want " + setStr(m.expand(seeds, true)));
    CHECK(toSet(g.ExpandInputs(in)) == m.expand(seeds, false), "expand-inputs", "ExpandInputs(" + setStr(seeds) + ")=" + setStr(toSet(g.ExpandInputs(in))) + " want " + setStr(m.expand(seeds, false)));
    std::vector<EntityUID> want;
    for (auto u : topo) if (seeds.count(u)) want.push_back(u);
    CHECK(g.Sort(in) == want, "sort-subset", "Sort(" + setStr(seeds) + ") is not the sub-sequence of TopologicalOrder");
  }
  return pbt::pass();
}

std::set<EntityUID> genSubset(Ctx& c, const std::vector<EntityUID>& universe) {
  std::set<EntityUID> s;
  for (auto u : universe) if (c.chance(1, 3)) s.insert(u);
  return s;
}

// --- random histories, all queries after every operation -------------------------------------------
Verdict propHistory(Ctx& c) {
  const int nU = c.ipick(2, 8);
  std::vector<EntityUID> universe;
  for (int i = 0; i < nU; ++i) universe.push_back(static_cast<EntityUID>(c.chance(1, 8) ? 1000000000u + i * 7919u : 1 + i));
  const bool updatable = c.chance(1, 4);
  std::set<EntityUID> nextInputs;
  ccl::graph::UpdatableGraph ug([&](EntityUID) { return CGraph::UnorderedItems(nextInputs.begin(), nextInputs.end()); });
  CGraph plain;
  CGraph& g = updatable ? static_cast<CGraph&>(ug) : plain;
  Model m;
  const int nOps = c.ipick(1, 24);
  bool hadErase = false, hadReplace = false, hadCycle = false, reinserted = false;
  std::set<EntityUID> erasedOnce;
  std::vector<std::function<void()>> script;
  c.show << (updatable ? "updatable " : "") << "universe=" << nU << " ops:";
  // generate the whole history first (so the rendered case is complete before the library runs)
  struct Op { int kind; EntityUID a, b; std::set<EntityUID> set; };
  std::vector<Op> ops;
  for (int i = 0; i < nOps; ++i) {
    Op op{};
    const int k = c.ipick(0, 99);
    op.a = c.oneof(universe); op.b = c.oneof(universe);
    if (k < 15) op.kind = 0;                 // AddItem
    else if (k < 30) op.kind = 1;            // EraseItem
    else if (k < 70) op.kind = 2;            // AddConnection
    else if (k < 90) { op.kind = 3; op.set = genSubset(c, universe); }  // SetItemInputs
    else if (k < 93) op.kind = 4;            // Clear
    else if (updatable) { op.kind = 5 + c.ipick(0, 2); op.set = genSubset(c, universe); }  // UpdateFor / Invalidate / SetValid
    else op.kind = 2;
    ops.push_back(op);
    static const char* names[] = {"Add", "Erase", "Connect", "SetInputs", "Clear", "UpdateFor", "Invalidate", "SetValid"};
    c.show << " " << names[op.kind] << "(" << op.a;
    if (op.kind == 2) c.show << "->" << op.b;
    if (op.kind == 3 || op.kind == 5) c.show << "," << setStr(op.set);
    c.show << ")";
  }
  std::vector<std::set<EntityUID>> subsets;
  for (int i = 0; i < 3; ++i) subsets.push_back(genSubset(c, universe));
  subsets.push_back({});
  subsets.push_back(std::set<EntityUID>(universe.begin(), universe.end()));
  c.exec();
  bool broken = false;
  for (const auto& op : ops) {
    switch (op.kind) {
      case 0: if (erasedOnce.count(op.a) && !m.items.count(op.a)) reinserted = true; g.AddItem(op.a); m.add(op.a); break;
      case 1: if (m.items.count(op.a)) { hadErase = true; erasedOnce.insert(op.a); } g.EraseItem(op.a); m.erase(op.a); break;
      case 2: if ((erasedOnce.count(op.a) && !m.items.count(op.a)) || (erasedOnce.count(op.b) && !m.items.count(op.b))) reinserted = true;
              g.AddConnection(op.a, op.b); m.connect(op.a, op.b); break;
      case 3: if (!m.succ(op.a, false).empty()) hadReplace = true; g.SetItemInputs(op.a, CGraph::UnorderedItems(op.set.begin(), op.set.end())); m.setInputs(op.a, op.set); break;
      case 4: g.Clear(); m.clear(); break;
      case 5: nextInputs = op.set; ug.UpdateFor(op.a); if (!broken) { if (!m.succ(op.a, false).empty()) hadReplace = true; m.setInputs(op.a, op.set); } break;
      case 6: ug.Invalidate(); broken = true; break;
      case 7: ug.SetValid(); broken = false; break;
    }
    if (updatable) CHECK(ug.IsBroken() == broken, "updatable-flag", "IsBroken");
    hadCycle = hadCycle || m.hasLoop();
    const Verdict v = compare(g, m, universe, subsets);
    if (v.kind != Verdict::PASS) return v;
  }
  // copies behave like the original
  { CGraph copy = g; const Verdict v = compare(copy, m, universe, subsets); if (v.kind != Verdict::PASS) return pbt::fail("copy-" + v.oracle, v.msg); }
  c.nontrivial = hadErase || hadReplace || hadCycle;
  if (hadErase) c.label("has-erase");
  if (hadReplace) c.label("has-input-replacement");
  if (hadCycle) c.label("has-cycle");
  if (reinserted) c.label("erase-then-reinsert");
  if (updatable) c.label("updatable-graph");
  c.label("ops:" + std::to_string(nOps / 4 * 4));
  return pbt::pass();
}

// --- exhaustive: every digraph on n vertices x every vertex insertion order x two edge insertion orders ----
Verdict enumGraphs(Ctx& c, int maxN, bool selfLoops) {
  const int n = c.ipick(1, maxN);
  std::vector<EntityUID> perm;
  {
    std::vector<EntityUID> pool;
    for (int i = 0; i < n; ++i) pool.push_back(static_cast<EntityUID>(i + 1));
    while (!pool.empty()) { const int k = c.ipick(0, static_cast<int>(pool.size()) - 1); perm.push_back(pool[k]); pool.erase(pool.begin() + k); }
  }
  const bool reversed = c.coin();
  std::vector<std::pair<EntityUID, EntityUID>> edges;
  for (int s = 1; s <= n; ++s) for (int d = 1; d <= n; ++d) { if (s == d && !selfLoops) continue; if (c.coin()) edges.emplace_back(s, d); }
  if (reversed) std::reverse(edges.begin(), edges.end());
  c.show << "n=" << n << " order="; for (auto u : perm) c.show << u; c.show << " edges:";
  for (auto& e : edges) c.show << " " << e.first << ">" << e.second;
  c.exec();
  CGraph g; Model m;
  for (auto u : perm) { g.AddItem(u); m.add(u); }
  for (auto& e : edges) { g.AddConnection(e.first, e.second); m.connect(e.first, e.second); }
  std::vector<EntityUID> universe; for (int i = 1; i <= n + 1; ++i) universe.push_back(static_cast<EntityUID>(i));
  std::vector<std::set<EntityUID>> subsets;
  for (int i = 1; i <= n; ++i) subsets.push_back({static_cast<EntityUID>(i)});
  subsets.push_back(std::set<EntityUID>(perm.begin(), perm.end()));
  c.nontrivial = m.hasLoop() || edges.size() >= 2;
  c.label(m.hasLoop() ? "has-cycle" : "acyclic");
  return compare(g, m, universe, subsets);
}
Verdict propEnum3(Ctx& c) { return enumGraphs(c, 3, true); }
Verdict propEnum4(Ctx& c) { return enumGraphs(c, 4, false); }

// --- exhaustive: 3 vertices, build any graph, erase one vertex, re-insert it with new edges -------------------
Verdict propEnumEraseReinsert(Ctx& c) {
  const int n = 3;
  std::vector<std::pair<EntityUID, EntityUID>> e1, e2;
  for (int s = 1; s <= n; ++s) for (int d = 1; d <= n; ++d) if (c.coin()) e1.emplace_back(s, d);
  const EntityUID victim = static_cast<EntityUID>(c.ipick(1, n));
  for (int o = 1; o <= n; ++o) { if (c.coin()) e2.emplace_back(victim, o); if (o != static_cast<int>(victim) && c.coin()) e2.emplace_back(o, victim); }
  c.show << "edges:"; for (auto& e : e1) c.show << " " << e.first << ">" << e.second;
  c.show << " erase " << victim << " then:"; for (auto& e : e2) c.show << " " << e.first << ">" << e.second;
  c.exec();
  CGraph g; Model m;
  for (int i = 1; i <= n; ++i) { g.AddItem(i); m.add(i); }
  for (auto& e : e1) { g.AddConnection(e.first, e.second); m.connect(e.first, e.second); }
  std::vector<EntityUID> universe{1, 2, 3, 4};
  std::vector<std::set<EntityUID>> subsets{{1}, {2}, {3}, {1, 2, 3}};
  g.EraseItem(victim); m.erase(victim);
  { const Verdict v = compare(g, m, universe, subsets); if (v.kind != Verdict::PASS) return v; }
  for (auto& e : e2) { g.AddConnection(e.first, e.second); m.connect(e.first, e.second); }
  c.nontrivial = true;
  c.label("erase-then-reinsert");
  return compare(g, m, universe, subsets);
}

}  // namespace

int main(int argc, char** argv) {
  std::vector<pbt::Prop> props;
  props.push_back({"enum_graphs3", propEnum3, 0, 0, true, false, "every digraph with self-loops on <=3 vertices x vertex insertion order x 2 edge orders"});
  props.push_back({"enum_graphs4", propEnum4, 0, 0, true, true, "every loop-free digraph on <=4 vertices x vertex insertion order x 2 edge orders"});
  props.push_back({"enum_erase_reinsert3", propEnumEraseReinsert, 0, 0, true, false, "3 vertices: any graph, erase one vertex, re-insert with any edges"});
  props.push_back({"history", propHistory, 3000, 40000, false, false, "random op histories over <=8 uids, all queries after every op"});
  return pbt::main(argc, argv, "C14", props);
}
