// C15 - structured data behaves as a finite-set algebra with value semantics.
// Oracle: the independent value model of harness/model/rsvalue.hpp (Int | Tuple | Set as sorted vectors) and its
// set-theoretic reference operations; library values are read back by iteration, so internal order does not matter.
#include "model/rsvalue.hpp"

#include <set>

using pbt::Ctx;
using pbt::Verdict;
using namespace rsv;
using obj::Factory;
using obj::StructuredData;

namespace {

#define CHECK(cond, oracle, msg) do { if (!(cond)) return pbt::fail(oracle, msg); } while (0)
#define SUB(expr) do { const Verdict v__ = (expr); if (v__.kind != Verdict::PASS) return v__; } while (0)

constexpr const char* kKnownCacheRef = "lazy-cache-ref";  // see known_findings.txt

const char* b2s(bool b) { return b ? "true" : "false"; }

// read a library value back and demand: each element exactly once, count == Cardinality(), equal to the model
Verdict readsAs(const StructuredData& d, const Value& want, const std::string& what) {
  ReadInfo info;
  const Value got = fromLib(d, &info);
  CHECK(!info.truncated, "iteration", what + ": " + info.where);
  CHECK(!info.duplicate, "iteration", what + ": an element was yielded twice: " + info.where);
  CHECK(!info.cardMismatch, "cardinality", what + ": " + info.where);
  CHECK(got == want, "value", what + " reads back as " + str(got) + " want " + str(want));
  return pbt::pass();
}

// exactly one of a<b, a==b, b<a, and it is the one the model equality predicts
Verdict orderPair(const StructuredData& a, const StructuredData& b, bool modelEqual, const std::string& what) {
  const bool lt = a < b, gt = b < a, eq = a == b, eq2 = b == a;
  CHECK(eq == eq2, "eq-symmetric", what + ": a==b is " + b2s(eq) + " but b==a is " + b2s(eq2));
  CHECK(eq == modelEqual, "eq-model", what + ": == is " + b2s(eq) + " but the denoted values are " + (modelEqual ? "equal" : "different"));
  CHECK((a != b) == !eq, "eq-model", what + ": != is not the negation of ==");
  CHECK(static_cast<int>(lt) + static_cast<int>(gt) + static_cast<int>(eq) == 1, "order-trichotomy",
        what + ": a<b=" + b2s(lt) + " b<a=" + b2s(gt) + " a==b=" + b2s(eq));
  const auto cab = a.Compare(b), cba = b.Compare(a);
  const auto want = eq ? ccl::Comparison::EQUAL : lt ? ccl::Comparison::LESS : ccl::Comparison::GREATER;
  const auto wantBack = eq ? ccl::Comparison::EQUAL : lt ? ccl::Comparison::GREATER : ccl::Comparison::LESS;
  CHECK(cab == want && cba == wantBack, "compare-consistent", what + ": Compare disagrees with < / ==");
  return pbt::pass();
}

void labelValue(Ctx& c, const Value& v, const BuildLog& log) {
  c.label("depth:" + std::to_string(std::min(depth(v), 5)));
  if (log.lazyNodes) c.label("repr:lazy");
  if (log.duplicates) c.label("built:duplicates");
  if (log.shuffled) c.label("built:shuffled");
  if (log.addElement) c.label("built:add-element");
  if (hasInnerEmpty(v)) c.label("inner-empty-set");
}

GenOpts shapedOpts(int maxSet = 4, int ids = 3) { GenOpts o; o.maxSet = maxSet; o.ids = ids; o.shapedPct = 25; return o; }

// ---------------------------------------------------------------------------------------------------- equality
// one value through two constructions + a second value: == is exactly model equality, < is a function of the values
Verdict propEquality(Ctx& c) {
  const Type t = genType(c, 4, 3);
  const GenOpts o = shapedOpts();
  const Value a = genValue(c, t, o);
  const int rel = c.ipick(0, 3);
  const Value b = rel == 0 ? a : rel <= 2 ? genNeighbour(c, a, t, o) : genValue(c, t, o);
  BuildLog la, lb;
  const Plan pa1 = plan(c, a, Repr::MIXED, &la), pa2 = plan(c, a, c.coin() ? Repr::EAGER : Repr::LAZY, &la), pb = plan(c, b, Repr::MIXED, &lb);
  c.show << "type=" << str(t) << " a=" << str(a) << " b=" << str(b) << "\n a1=" << str(pa1) << "\n a2=" << str(pa2) << "\n b1=" << str(pb);
  c.nontrivial = depth(a) >= 2 || la.lazyNodes > 0 || lb.lazyNodes > 0;
  labelValue(c, a, la);
  c.label(a == b ? "pair:equal" : "pair:different");
  c.exec();
  const StructuredData A1 = realize(pa1), A2 = realize(pa2), B = realize(pb);
  SUB(readsAs(A1, a, "a1"));
  SUB(readsAs(A2, a, "a2"));
  SUB(readsAs(B, b, "b1"));
  { const auto r = conforms(A1, t); CHECK(r.empty(), "type-conforms", "a1: " + r); }
  { const auto r = conforms(A2, t); CHECK(r.empty(), "type-conforms", "a2: " + r); }
  CHECK(obj::CheckCompatible(A1, toLib(t)) && obj::CheckCompatible(A2, toLib(t)), "type-conforms", "CheckCompatible rejects a value of its type");
  SUB(orderPair(A1, A2, true, "a1/a2"));
  SUB(orderPair(A1, A1, true, "a1/a1"));
  { const StructuredData copy = A1; SUB(orderPair(copy, A1, true, "copy/a1")); SUB(orderPair(copy, A2, true, "copy/a2")); }
  SUB(orderPair(A1, B, a == b, "a1/b1"));
  SUB(orderPair(A2, B, a == b, "a2/b1"));
  CHECK((A1 < B) == (A2 < B) && (B < A1) == (B < A2), "order-repr-independent",
        std::string("a1<b=") + b2s(A1 < B) + " but a2<b=" + b2s(A2 < B) + " for equal a1, a2");
  return pbt::pass();
}

// ---------------------------------------------------------------------------------------------------- order laws
Verdict orderWith(Ctx& c, bool extremes) {
  const Type t = genType(c, 4, 3);
  GenOpts o = shapedOpts();
  o.specials = extremes;  // 0, negatives and the int32 limits among the basic elements: the order must not depend on differences
  const int n = c.ipick(3, 5);
  std::vector<Value> vals;
  std::vector<Plan> plans;
  BuildLog log;
  vals.push_back(genValue(c, t, o));
  for (int i = 1; i < n; ++i) {
    const int how = c.ipick(0, 3);
    vals.push_back(how == 0 ? vals[static_cast<size_t>(c.pick(0, i - 1))] : how <= 2 ? genNeighbour(c, vals[static_cast<size_t>(c.pick(0, i - 1))], t, o) : genValue(c, t, o));
  }
  for (const auto& v : vals) plans.push_back(plan(c, v, Repr::MIXED, &log));
  c.show << "type=" << str(t);
  int maxDepth = 0;
  for (size_t i = 0; i < vals.size(); ++i) { c.show << "\n x" << i << "=" << str(vals[i]) << " as " << str(plans[i]); maxDepth = std::max(maxDepth, depth(vals[i])); }
  c.nontrivial = maxDepth >= 2 || log.lazyNodes > 0;
  labelValue(c, vals[0], log);
  c.exec();
  std::vector<StructuredData> xs;
  for (const auto& p : plans) xs.push_back(realize(p));
  for (size_t i = 0; i < xs.size(); ++i) {
    CHECK(!(xs[i] < xs[i]), "order-irreflexive", "x" + std::to_string(i) + " < itself");
    for (size_t j = 0; j < xs.size(); ++j) SUB(orderPair(xs[i], xs[j], vals[i] == vals[j], "x" + std::to_string(i) + "/x" + std::to_string(j)));
  }
  for (size_t i = 0; i < xs.size(); ++i) for (size_t j = 0; j < xs.size(); ++j) for (size_t k = 0; k < xs.size(); ++k) {
    if (xs[i] < xs[j] && xs[j] < xs[k]) CHECK(xs[i] < xs[k], "order-transitive", "x" + std::to_string(i) + "<x" + std::to_string(j) + "<x" + std::to_string(k) + " but not x" + std::to_string(i) + "<x" + std::to_string(k));
    if (xs[i] == xs[j] && xs[j] < xs[k]) CHECK(xs[i] < xs[k], "order-consistent-eq", "equal values are not interchangeable on the left of <");
    if (xs[i] == xs[j] && xs[k] < xs[j]) CHECK(xs[k] < xs[i], "order-consistent-eq", "equal values are not interchangeable on the right of <");
  }
  // the order as used by an ordered container
  std::set<StructuredData> bag(xs.begin(), xs.end());
  std::set<Value> mbag(vals.begin(), vals.end());
  CHECK(bag.size() == mbag.size(), "order-container", "std::set of the values holds " + std::to_string(bag.size()) + " want " + std::to_string(mbag.size()));
  return pbt::pass();
}

// ---------------------------------------------------------------------------------------------------- set algebra
struct Operand { const StructuredData& d; const Value& v; std::string name; bool lazyTop = false; };
bool isLazyTop(const Plan& p) { return p.style == Plan::BOOLEAN || p.style == Plan::DECARTIAN; }


Verdict checkBinary(const Operand& A, const Operand& B) {
  const auto& a = A.v; const auto& b = B.v;
  const std::string ab = A.name + "," + B.name;
  CHECK(A.d.B().IsSubsetOrEq(B.d.B()) == isSubset(a, b), "subset", "IsSubsetOrEq(" + ab + ")=" + b2s(A.d.B().IsSubsetOrEq(B.d.B())));
  const struct { const char* name; StructuredData got; Value want; } ops[] = {
    {"union", A.d.B().Union(B.d.B()), setUnion(a, b)},
    {"intersect", A.d.B().Intersect(B.d.B()), setIntersect(a, b)},
    {"diff", A.d.B().Diff(B.d.B()), setDiff(a, b)},
    {"symdiff", A.d.B().SymDiff(B.d.B()), setSymDiff(a, b)},
  };
  for (const auto& op : ops) {
    const Verdict v = readsAs(op.got, op.want, std::string(op.name) + "(" + ab + ")");
    if (v.kind != Verdict::PASS) return pbt::fail(v.oracle == "value" ? op.name : v.oracle, v.msg);
    const StructuredData ref = buildCanonical(op.want);
    CHECK(op.got == ref && ref == op.got && !(op.got < ref) && !(ref < op.got), "eq-model", std::string(op.name) + "(" + ab + ") does not compare equal to the same value built by Factory::Set");
  }
  return pbt::pass();
}

// everything the property lists for one set operand (and a probe element list)
struct Probe { Value v; Plan p; };  // a candidate element and how it is built (possibly lazily)

Verdict checkUnary(const Operand& A, const Type& setType, const std::vector<Probe>& probes, const std::vector<std::vector<int>>& projections) {
  const auto& a = A.v;
  CHECK(A.d.IsCollection(), "structure", A.name + " is not a collection");
  CHECK(A.d.B().Cardinality() == static_cast<obj::Size>(a.card()), "cardinality", "Cardinality(" + A.name + ")=" + std::to_string(A.d.B().Cardinality()) + " want " + std::to_string(a.card()));
  CHECK(A.d.B().IsEmpty() == a.items.empty(), "cardinality", "IsEmpty(" + A.name + ")");
  SUB(readsAs(A.d, a, A.name));
  for (const auto& pr : probes) {
    const bool got = A.d.B().Contains(realize(pr.p));
    CHECK(got == contains(a, pr.v), "contains", "Contains(" + A.name + ", " + str(pr.v) + ")=" + b2s(got));
  }
  for (const auto& e : a.items) CHECK(A.d.B().Contains(buildCanonical(e)), "contains", A.name + " does not contain its element " + str(e));
  CHECK(A.d.B().IsSubsetOrEq(A.d.B()), "subset", A.name + " is not a subset of itself");
  if (setType.elem().isTuple()) {
    for (const auto& idx : projections) {
      std::vector<rl::Index> li;
      std::string is;
      for (const int i : idx) { li.push_back(static_cast<rl::Index>(i)); is += (is.empty() ? "" : ",") + std::to_string(i); }
      const Verdict v = readsAs(A.d.B().Projection(li), projection(a, idx), "Pr" + is + "(" + A.name + ")");
      if (v.kind != Verdict::PASS) return pbt::fail(v.oracle == "value" ? "projection" : v.oracle, v.msg);
    }
  }
  if (setType.elem().isSet()) {
    const Verdict v = readsAs(A.d.B().Reduce(), reduce(a), "red(" + A.name + ")");
    if (v.kind != Verdict::PASS) return pbt::fail(v.oracle == "value" ? "reduce" : v.oracle, v.msg);
  }
  {
    const StructuredData single = Factory::Singleton(A.d);
    const Verdict v = readsAs(single, singleton(a), "singleton(" + A.name + ")");
    if (v.kind != Verdict::PASS) return pbt::fail(v.oracle == "value" ? "singleton" : v.oracle, v.msg);
    CHECK(single.B().Contains(A.d) && single.B().Cardinality() == 1, "singleton", "singleton(" + A.name + ") does not contain exactly " + A.name);
    const StructuredData back = single.B().Debool();
    CHECK(back == A.d && fromLib(back) == a, "debool", "debool(singleton(" + A.name + ")) is not " + A.name);
  }
  if (a.card() == 1) {
    const Verdict v = readsAs(A.d.B().Debool(), *debool(a), "debool(" + A.name + ")");
    if (v.kind != Verdict::PASS) return pbt::fail(v.oracle == "value" ? "debool" : v.oracle, v.msg);
  }
  return pbt::pass();
}

std::vector<std::vector<int>> genProjections(Ctx& c, const Type& setType) {
  std::vector<std::vector<int>> out;
  if (!setType.elem().isTuple()) return out;
  const int arity = static_cast<int>(setType.elem().kids.size());
  for (int i = 1; i <= arity; ++i) out.push_back({i});
  std::vector<int> idx;
  const int k = c.ipick(1, 3);
  for (int i = 0; i < k; ++i) idx.push_back(c.ipick(1, arity));
  out.push_back(idx);
  return out;
}

// a second operand related to a: equal, a subset, a neighbour, or fresh
Value genRelated(Ctx& c, const Value& a, const Type& st, const GenOpts& o) {
  const int how = c.ipick(0, 5);
  if (how == 5) {  // two-sided: drop some elements, add others
    std::vector<Value> keep; for (const auto& e : a.items) if (c.coin()) keep.push_back(e);
    const Value extra = genValue(c, st, o); keep.insert(keep.end(), extra.items.begin(), extra.items.end());
    return mkSet(std::move(keep));
  }
  if (how == 0) return genValue(c, st, o);
  if (how == 1) return genNeighbour(c, a, st, o);
  if (how == 2) { std::vector<Value> keep; for (const auto& e : a.items) if (c.coin()) keep.push_back(e); return mkSet(std::move(keep)); }
  if (how == 3) { auto all = a.items; const Value extra = genValue(c, st, o); all.insert(all.end(), extra.items.begin(), extra.items.end()); return mkSet(std::move(all)); }
  return a;
}

std::vector<Probe> genProbes(Ctx& c, const Value& a, const Value& b, const Type& st, const GenOpts& o) {
  std::vector<Probe> probes;
  for (const auto& e : b.items) probes.push_back({e, planCanonical(e)});
  const int n = c.ipick(1, 3);
  for (int i = 0; i < n; ++i) {
    const int how = a.items.empty() ? 2 : c.ipick(0, 2);
    const Value e = how == 0 ? a.items[static_cast<size_t>(c.pick(0, static_cast<int64_t>(a.items.size()) - 1))]
                  : how == 1 ? genNeighbour(c, a.items[static_cast<size_t>(c.pick(0, static_cast<int64_t>(a.items.size()) - 1))], st.elem(), o)
                             : genValue(c, st.elem(), o);
    probes.push_back({e, plan(c, e, Repr::MIXED)});
  }
  return probes;
}

Verdict propSetAlgebra(Ctx& c) {
  const Type st = genSetType(c, 4, 3);
  const GenOpts o = shapedOpts();
  const Value a = genValue(c, st, o);
  const Value b = genRelated(c, a, st, o);
  const auto probes = genProbes(c, a, b, st, o);
  const auto prs = genProjections(c, st);
  BuildLog la, lb;
  const Plan pa = plan(c, a, Repr::MIXED, &la), pb = plan(c, b, Repr::MIXED, &lb);
  c.show << "type=" << str(st) << " a=" << str(a) << " b=" << str(b) << "\n A=" << str(pa) << "\n B=" << str(pb) << "\n probes:";
  for (const auto& e : probes) c.show << " " << str(e.p);
  if (!prs.empty()) { c.show << " pr:"; for (const int i : prs.back()) c.show << i; }
  c.nontrivial = depth(a) >= 2 || depth(b) >= 2 || la.lazyNodes + lb.lazyNodes > 0;
  labelValue(c, a, la);
  if (st.elem().isTuple()) c.label("op:projection");
  if (st.elem().isSet()) c.label("op:reduce");
  if (a.card() == 1) c.label("op:debool");
  c.label(a == b ? "pair:equal" : isSubset(a, b) || isSubset(b, a) ? "pair:subset" : setIntersect(a, b).items.empty() ? "pair:disjoint" : "pair:overlap");
  c.exec();
  const StructuredData A = realize(pa), B = realize(pb);
  const std::string sa = A.ToString(), sb = B.ToString();
  const Operand oa{A, a, "A", isLazyTop(pa)}, ob{B, b, "B", isLazyTop(pb)};
  SUB(checkUnary(oa, st, probes, prs));
  SUB(checkUnary(ob, st, probes, prs));
  SUB(checkBinary(oa, ob));
  SUB(checkBinary(ob, oa));
  SUB(checkBinary(oa, oa));
  SUB(orderPair(A, B, a == b, "A/B"));
  CHECK(A.ToString() == sa && B.ToString() == sb, "operands-unchanged", "an operand changed under const operations");
  return pbt::pass();
}

// ---------------------------------------------------------------------------------------------------- eager vs lazy
// values that are full power sets / products (possibly nested, possibly inside an enumerated set), once built with
// Boolean/Decartian wherever possible and once fully enumerated: both must agree with the model and each other
Value genLazyShaped(Ctx& c, Type& typeOut, std::string& shape) {
  const int k = c.ipick(0, 5);
  GenOpts o; o.shapedPct = 0; o.emptyPct = 8;
  const Type u = genType(c, 2, 2);
  switch (k) {
    default:
    case 0: {  // B(S)
      o.maxSet = c.chance(1, 10) ? 7 : c.ipick(0, 5); o.ids = 7; shape = "boolean";
      typeOut = Type::set(Type::set(u));
      return powerset(genValue(c, Type::set(u), o));
    }
    case 1: {  // F1 x .. x Fk
      const int arity = c.ipick(2, 3); o.maxSet = arity == 2 ? 5 : 3; o.ids = 5; o.emptyPct = 3; shape = "decartian";
      std::vector<Type> ts; std::vector<Value> fs;
      for (int i = 0; i < arity; ++i) { const Type ti = i == 0 ? u : genType(c, 1, 2); ts.push_back(ti); fs.push_back(genValue(c, Type::set(ti), o)); }
      typeOut = Type::set(Type::tuple(ts));
      return product(fs);
    }
    case 2: {  // B(B(S))
      o.maxSet = 2; shape = "boolean-of-boolean";
      typeOut = Type::set(Type::set(Type::set(u)));
      return powerset(powerset(genValue(c, Type::set(u), o)));
    }
    case 3: {  // B(F1 x F2)
      o.maxSet = 2; o.emptyPct = 3; shape = "boolean-of-decartian";
      const Type t2 = genType(c, 1, 2);
      typeOut = Type::set(Type::set(Type::tuple({u, t2})));
      return powerset(product({genValue(c, Type::set(u), o), genValue(c, Type::set(t2), o)}));
    }
    case 4: {  // B(S) x F
      o.maxSet = 3; o.emptyPct = 3; shape = "decartian-of-boolean";
      const Type t2 = genType(c, 1, 2);
      typeOut = Type::set(Type::tuple({Type::set(u), t2}));
      return product({powerset(genValue(c, Type::set(u), o)), genValue(c, Type::set(t2), o)});
    }
    case 5: {  // { B(S1), B(S2), S3 }  an enumerated set containing lazy sets
      o.maxSet = 3; shape = "set-of-lazy";
      typeOut = Type::set(Type::set(Type::set(u)));
      std::vector<Value> elems;
      const int n = c.ipick(1, 3);
      for (int i = 0; i < n; ++i) elems.push_back(c.chance(1, 4) ? genValue(c, Type::set(Type::set(u)), o) : powerset(genValue(c, Type::set(u), o)));
      return mkSet(std::move(elems));
    }
  }
}

Verdict propEagerLazy(Ctx& c) {
  Type st; std::string shape;
  const Value v = genLazyShaped(c, st, shape);
  GenOpts o; o.shapedPct = 20;
  // the other operand: mostly derived from v so that overlaps are real
  Value w = genRelated(c, v, st, o);
  if (w.card() > 300) w = v;
  const auto probes = genProbes(c, v, w.card() <= 40 ? w : emptySet(), st, o);
  const auto prs = genProjections(c, st);
  const Value d = genNeighbour(c, v, st, o);  // a value next to v in the order
  BuildLog ll, le, lw;
  const Plan pl = plan(c, v, Repr::LAZY, &ll), pe = plan(c, v, Repr::EAGER, &le), pw = plan(c, w, Repr::MIXED, &lw), pd = plan(c, d, Repr::MIXED, &lw);
  c.show << "shape=" << shape << " type=" << str(st) << " v=" << str(v) << "\n w=" << str(w) << "\n d=" << str(d) << "\n L=" << str(pl) << "\n E=" << str(pe) << "\n W=" << str(pw) << "\n D=" << str(pd) << "\n probes:";
  for (const auto& e : probes) c.show << " " << str(e.p);
  if (!prs.empty()) { c.show << " pr:"; for (const int i : prs.back()) c.show << i; }
  c.nontrivial = ll.lazyNodes > 0;
  c.label("shape:" + shape);
  c.label(ll.lazyNodes > 0 ? "repr:lazy" : "repr:degenerate-eager");
  c.label(v.card() > 100 ? "card:>100" : v.card() > 16 ? "card:17-100" : "card:<=16");
  if (ll.lazyNodes > 1) c.label("lazy-nested");
  c.exec();
  const StructuredData L = realize(pl), E = realize(pe), W = realize(pw), D = realize(pd);
  const std::string sl = L.ToString(), se = E.ToString();
  const Operand ol{L, v, "L", isLazyTop(pl)}, oe{E, v, "E", false}, ow{W, w, "W", isLazyTop(pw)};
  SUB(checkUnary(ol, st, probes, prs));
  SUB(checkUnary(oe, st, probes, prs));
  SUB(orderPair(L, E, true, "L/E"));
  SUB(orderPair(L, W, v == w, "L/W"));
  SUB(orderPair(L, D, v == d, "L/D"));
  SUB(orderPair(E, D, v == d, "E/D"));
  CHECK((L < D) == (E < D) && (D < L) == (D < E), "order-repr-independent", std::string("L<D=") + b2s(L < D) + " but E<D=" + b2s(E < D));
  SUB(checkBinary(ol, oe));
  SUB(checkBinary(oe, ol));
  SUB(checkBinary(ol, ow));
  SUB(checkBinary(ow, ol));
  SUB(checkBinary(ol, ol));
  CHECK(L.ToString() == sl && E.ToString() == se, "operands-unchanged", "an operand changed under const operations");
  if (sl != se) c.count("unconstrained:text-order-differs");  // iteration order of equal values is not part of the property
  return pbt::pass();
}

// ---------------------------------------------------------------------------------------------------- copies
// histories of copy / assign / ModifyB().AddElement / wrapping into containers on values that share their payload:
// every value other than the one being modified keeps its model value and its ToString
Verdict propCopyIsolation(Ctx& c) {
  const Type st = genSetType(c, 3, 2);
  const GenOpts o = shapedOpts(3, 3);
  struct Op { int kind; int i, j; Value e; Plan pe; };
  const int nInit = c.ipick(1, 2);
  std::vector<Value> init;
  std::vector<Plan> initPlans;
  BuildLog log;
  for (int i = 0; i < nInit; ++i) { init.push_back(genValue(c, st, o)); initPlans.push_back(plan(c, init.back(), Repr::MIXED, &log)); }
  const int nOps = c.ipick(2, 12);
  std::vector<Op> ops;
  int slots = nInit;
  bool hadCopy = false, hadAdd = false;
  static const char* names[] = {"copy", "assign", "add", "touch", "wrap-set", "wrap-tuple", "elem-copy-add", "add-from", "self-assign"};
  for (int k = 0; k < nOps; ++k) {
    Op op{};
    op.kind = c.ipick(0, 8);
    op.i = c.ipick(0, slots - 1);
    op.j = c.ipick(0, slots - 1);
    if (op.kind == 0) { ++slots; hadCopy = true; }
    if (op.kind == 1) hadCopy = true;
    if (op.kind == 2) { op.e = genValue(c, st.elem(), o); op.pe = plan(c, op.e, Repr::MIXED, &log); hadAdd = true; }
    if (op.kind == 6) { if (!st.elem().isSet()) op.kind = 2, op.e = genValue(c, st.elem(), o), op.pe = plan(c, op.e, Repr::MIXED, &log); else { op.e = genValue(c, st.elem().elem(), o); op.pe = plan(c, op.e, Repr::MIXED, &log); } hadAdd = true; }
    if (op.kind == 7) hadAdd = true;
    ops.push_back(op);
  }
  c.show << "type=" << str(st);
  for (size_t i = 0; i < init.size(); ++i) c.show << "\n s" << i << "=" << str(init[i]) << " as " << str(initPlans[i]);
  c.show << "\n ops:";
  for (const auto& op : ops) { c.show << " " << names[op.kind] << "(s" << op.i; if (op.kind == 1 || op.kind == 5 || op.kind == 7) c.show << ",s" << op.j; if (op.kind == 2 || op.kind == 6) c.show << "," << str(op.pe); c.show << ")"; }
  int maxDepth = 0;
  for (const auto& v : init) maxDepth = std::max(maxDepth, depth(v));
  c.nontrivial = (maxDepth >= 2 || log.lazyNodes > 0) && hadCopy && hadAdd;
  labelValue(c, init[0], log);
  c.label("ops:" + std::to_string(nOps / 4 * 4));
  c.exec();

  struct Slot { StructuredData d; Value v; std::string text; bool lazyTop; };
  std::vector<Slot> live;      // values that are modified
  std::vector<Slot> frozen;    // containers / element copies built from live values; never modified afterwards
  for (size_t i = 0; i < init.size(); ++i) { Slot s{realize(initPlans[i]), init[i], "", isLazyTop(initPlans[i])}; s.text = s.d.ToString(); live.push_back(std::move(s)); }

  auto verifyAll = [&](const std::string& after, int modified) -> Verdict {
    for (size_t i = 0; i < live.size(); ++i) {
      SUB(readsAs(live[i].d, live[i].v, "s" + std::to_string(i) + " after " + after));
      if (static_cast<int>(i) == modified) { live[i].text = live[i].d.ToString(); continue; }
      CHECK(live[i].d.ToString() == live[i].text, "copy-isolation", "ToString of s" + std::to_string(i) + " changed after " + after + ": " + live[i].d.ToString() + " was " + live[i].text);
    }
    for (size_t i = 0; i < frozen.size(); ++i) {
      const Verdict v = readsAs(frozen[i].d, frozen[i].v, "container " + std::to_string(i) + " after " + after);
      if (v.kind != Verdict::PASS) return pbt::fail(v.oracle == "value" ? "copy-isolation" : v.oracle, v.msg);
      CHECK(frozen[i].d.ToString() == frozen[i].text, "copy-isolation", "ToString of container " + std::to_string(i) + " changed after " + after);
    }
    return pbt::pass();
  };
  // AddElement on slot i; lazy representations document "returns false, nothing added" (upstream tests), while a
  // set-theoretic insert is just as defensible: either outcome is accepted there, anything else is a failure
  auto addTo = [&](Slot& s, const StructuredData& e, const Value& ev, const std::string& what) -> Verdict {
    const bool isNew = !contains(s.v, ev);
    const bool ret = s.d.ModifyB().AddElement(e);
    auto grown = s.v.items; grown.push_back(ev);
    const Value added = mkSet(std::move(grown));
    if (s.lazyTop && isNew) {
      c.count("unconstrained");
      const Value got = fromLib(s.d);
      CHECK(got == s.v || got == added, "add-element", what + " on a lazy set gives " + str(got));
      if (got == added) s.lazyTop = false;
      s.v = got;
      return pbt::pass();
    }
    CHECK(ret == isNew, "add-element", what + " returned " + b2s(ret) + " but the element was " + (isNew ? "new" : "already present"));
    s.v = added;
    if (isNew) s.lazyTop = false;
    return pbt::pass();
  };

  for (size_t k = 0; k < ops.size(); ++k) {
    const Op& op = ops[k];
    const std::string what = "op " + std::to_string(k) + " " + names[op.kind];
    int modified = -1;
    const size_t i = static_cast<size_t>(op.i) % live.size(), j = static_cast<size_t>(op.j) % live.size();
    switch (op.kind) {
      case 0: { Slot s = live[i]; live.push_back(std::move(s)); break; }                       // copy-construct
      case 1: { live[j].d = live[i].d; live[j].v = live[i].v; live[j].text = live[i].text; live[j].lazyTop = live[i].lazyTop; modified = static_cast<int>(j); break; }
      case 2: { SUB(addTo(live[i], realize(op.pe), op.e, what)); modified = static_cast<int>(i); break; }
      case 3: { (void)live[i].d.ModifyB(); modified = static_cast<int>(i); break; }             // un-share without a change
      case 4: { Slot s{op.j % 2 ? Factory::Set({live[i].d}) : Factory::Singleton(live[i].d), singleton(live[i].v), "", false}; s.text = s.d.ToString(); frozen.push_back(std::move(s)); break; }
      case 5: { Slot s{Factory::Tuple({live[i].d, live[j].d}), mkTuple({live[i].v, live[j].v}), "", false}; s.text = s.d.ToString(); frozen.push_back(std::move(s)); break; }
      case 6: {  // copy an element (itself a set) out of the value, modify the copy
        if (live[i].v.items.empty()) break;
        StructuredData x = *live[i].d.B().begin();
        Slot s{x, fromLib(x), "", log.lazyNodes > 0};  // the element may itself be a lazy set: AddElement outcome unconstrained then
        CHECK(contains(live[i].v, s.v), "iteration", what + ": first element is not a member");
        SUB(addTo(s, realize(op.pe), op.e, what));
        s.text = s.d.ToString();
        frozen.push_back(std::move(s));
        break;
      }
      case 7: {  // add to s_i an element obtained by iterating s_j (which may share its payload with s_i)
        if (live[j].v.items.empty()) break;
        auto it = live[j].d.B().begin();
        const size_t steps = (static_cast<size_t>(op.i) + k) % live[j].v.items.size();
        for (size_t s = 0; s < steps; ++s) ++it;
        const StructuredData e = *it;
        SUB(addTo(live[i], e, fromLib(e), what));
        modified = static_cast<int>(i);
        break;
      }
      case 8: { StructuredData& self = live[i].d; self = *&self; modified = static_cast<int>(i); break; }
    }
    SUB(verifyAll(what, modified));
  }
  return pbt::pass();
}

// ---------------------------------------------------------------------------------------------------- nested iteration
// one lazy set object (and copies sharing its payload) iterated by several iterators at once
Verdict propNestedIteration(Ctx& c) {
  const bool boolean = c.coin();
  Type st; Value v;
  // cardinalities are chosen directly (distinct elements by construction) so that sets beyond the 100-entry cache are common
  auto firstN = [](int n, int from) { std::vector<Value> e; for (int i = 0; i < n; ++i) e.push_back(mkInt(from + i)); return mkSet(std::move(e)); };
  if (boolean) {
    const int n = c.chance(1, 3) ? c.ipick(7, 8) : c.ipick(0, 6);
    st = Type::set(Type::set(Type::base("X1")));
    v = powerset(firstN(n, c.ipick(1, 3)));
  } else {
    const int arity = c.ipick(2, 3);
    std::vector<Type> ts; std::vector<Value> fs;
    for (int i = 0; i < arity; ++i) { ts.push_back(Type::base("X1")); fs.push_back(firstN(c.ipick(1, arity == 2 ? 14 : 6), c.ipick(1, 3))); }
    st = Type::set(Type::tuple(ts));
    v = product(fs);
  }
  // modes: 0 nested range-for holding references, 1 nested holding copies, 2 iterate + query the same object,
  //        3 two live iterators (references), 4 two live iterators (copies), 5 reference to the first element kept over a full pass,
  //        6 product whose factors are one shared lazy set (partial pass), 7 like 2 + IsSubsetOrEq (which iterates the same object) while a reference is held
  const int mode = c.ipick(0, 7);
  const int lag = c.ipick(1, 120);
  BuildLog log;
  const Plan pl = plan(c, v, Repr::LAZY, &log);
  static const char* modes[] = {"nested-ref", "nested-copy", "iterate+query", "two-iterators-ref", "two-iterators-copy", "first-ref-kept", "shared-factor-product", "iterate+subset-query"};
  c.show << modes[mode] << " lag=" << lag << " card=" << v.card() << " L=" << str(pl);
  c.nontrivial = log.lazyNodes > 0;
  c.label(std::string("mode:") + modes[mode]);
  c.label(v.card() > 100 ? "card:>100" : v.card() > 16 ? "card:17-100" : "card:<=16");
  c.label(boolean ? "shape:boolean" : "shape:decartian");
  const bool holdsReference = mode == 0 || mode == 3 || mode == 5 || mode == 7;
  // known finding: the element cache of a lazy set is cleared when it holds 100 entries, which invalidates references
  // obtained from other live iterators of the same object
  if (pbt::known(kKnownCacheRef) && holdsReference && v.card() > 100 && log.lazyNodes > 0) return pbt::excluded(kKnownCacheRef);
  c.exec();
  const StructuredData L = realize(pl);
  const StructuredData L2 = L;  // shares the payload
  // expected sequence: a fresh, separately built object iterated once, each element converted at once
  std::vector<Value> seq;
  { const StructuredData fresh = realize(pl); for (auto it = fresh.B().begin(); it != fresh.B().end(); ++it) { const StructuredData e = *it; seq.push_back(fromLib(e)); } }
  CHECK(mkSet(seq) == v && seq.size() == v.card(), "iteration", "single pass yields " + std::to_string(seq.size()) + " elements / not the model set");
  CHECK(L.B().Cardinality() == static_cast<obj::Size>(v.card()), "cardinality", "Cardinality");
  auto elemIs = [&](const StructuredData& x, size_t i) { return i < seq.size() && fromLib(x) == seq[i]; };
  const size_t stride = seq.size() > 64 ? 7 : 1;
  switch (mode) {
    case 0: case 1: {
      size_t i = 0;
      for (auto it = L.B().begin(); it != L.B().end(); ++it, ++i) {
        CHECK(i < seq.size(), "nested-iteration", "outer loop overruns");
        const StructuredData keep = mode == 1 ? *it : StructuredData{};
        const StructuredData& x = mode == 1 ? keep : *it;
        if (seq.size() > 64 && i % 5 != 0 && i + 3 < seq.size()) continue;  // keep the quadratic part affordable
        size_t j = 0;
        for (const auto& y : L2.B()) { if (j % stride == 0) CHECK(elemIs(y, j), "nested-iteration", "inner element " + std::to_string(j) + " wrong in outer round " + std::to_string(i)); ++j; }
        CHECK(j == seq.size(), "nested-iteration", "inner loop yields " + std::to_string(j) + " elements");
        CHECK(elemIs(x, i), "nested-iteration", "outer element " + std::to_string(i) + " changed while the inner loop ran");
      }
      CHECK(i == seq.size(), "nested-iteration", "outer loop yields " + std::to_string(i) + " elements");
      break;
    }
    case 2: case 7: {
      size_t i = 0;
      for (const auto& x : L.B()) {
        CHECK(L.B().Contains(x) && L2.B().Contains(x), "contains", "element " + std::to_string(i) + " not contained while iterating");
        CHECK(L.B().Cardinality() == static_cast<obj::Size>(seq.size()), "cardinality", "Cardinality while iterating");
        if (mode == 7 && i % 16 == 0) CHECK(L2.B().IsSubsetOrEq(L.B()), "subset", "L is not a subset of itself while iterating");
        CHECK(elemIs(x, i), "nested-iteration", "element " + std::to_string(i) + " wrong");
        ++i;
      }
      CHECK(i == seq.size(), "nested-iteration", "loop yields " + std::to_string(i) + " elements");
      break;
    }
    case 3: case 4: {
      auto lead = L.B().begin(); auto trail = L2.B().begin();
      size_t li = 0, ti = 0;
      for (; li < static_cast<size_t>(lag) && lead != L.B().end(); ++li) ++lead;
      while (lead != L.B().end()) {
        if (mode == 3) {
          const StructuredData& a = *trail; const StructuredData& b = *lead;
          CHECK(elemIs(b, li), "nested-iteration", "leading iterator wrong at " + std::to_string(li));
          CHECK(elemIs(a, ti), "nested-iteration", "trailing iterator's element " + std::to_string(ti) + " changed after the leading one was read");
        } else {
          const StructuredData a = *trail; const StructuredData b = *lead;
          CHECK(elemIs(b, li) && elemIs(a, ti), "nested-iteration", "two iterators disagree with a single pass at " + std::to_string(ti) + "/" + std::to_string(li));
        }
        ++lead; ++li; ++trail; ++ti;
      }
      CHECK(li == seq.size() || seq.size() < static_cast<size_t>(lag), "nested-iteration", "leading iterator yields " + std::to_string(li));
      break;
    }
    case 5: {
      if (seq.empty()) break;
      const auto firstIt = L.B().begin();  // the iterator stays alive, so the reference is valid for a stashing iterator too
      const StructuredData& first = *firstIt;
      size_t i = 0;
      for (const auto& x : L2.B()) { if (i % stride == 0) CHECK(elemIs(x, i), "nested-iteration", "element " + std::to_string(i) + " wrong"); ++i; }
      CHECK(elemIs(first, 0), "nested-iteration", "the first element changed during a pass over the same set");
      break;
    }
    case 6: {
      if (seq.empty()) break;
      const StructuredData P = Factory::Decartian({L, L2});
      const int64_t want = static_cast<int64_t>(seq.size()) * static_cast<int64_t>(seq.size());
      CHECK(P.B().Cardinality() == want, "cardinality", "Cardinality of L x L");
      std::set<Value> seen;
      size_t n = 0;
      for (auto it = P.B().begin(); it != P.B().end() && n < 400; ++it, ++n) {
        const StructuredData e = *it;
        const Value ev = fromLib(e);
        CHECK(ev.isTuple() && ev.items.size() == 2 && contains(v, ev.items[0]) && contains(v, ev.items[1]), "nested-iteration", "L x L yields a non-member " + str(ev));
        CHECK(seen.insert(ev).second, "iteration", "L x L yields " + str(ev) + " twice");
        CHECK(P.B().Contains(e), "contains", "L x L does not contain its element");
      }
      CHECK(static_cast<int64_t>(n) == std::min<int64_t>(want, 400), "iteration", "L x L stopped after " + std::to_string(n));
      break;
    }
  }
  SUB(readsAs(L, v, "L after the passes"));
  return pbt::pass();
}

Verdict propOrder(Ctx& c) { return orderWith(c, false); }
Verdict propOrderExtreme(Ctx& c) { return orderWith(c, true); }

}  // namespace

int main(int argc, char** argv) {
  std::vector<pbt::Prop> props;
  props.push_back({"equality", propEquality, 3500, 60000, false, false, "one value through two constructions + a related value: ==, <, Compare, read-back, type"});
  props.push_back({"order_laws", propOrder, 1600, 30000, false, false, "3-5 related values of one type: irreflexive, total, transitive, consistent with =="});
  props.push_back({"order_laws_extreme_elements", propOrderExtreme, 800, 15000, false, false, "the order laws over values whose basic elements include 0, negatives and the int32 limits"});
  props.push_back({"set_algebra", propSetAlgebra, 2000, 50000, false, false, "two related sets: membership, subset, cardinality, iteration, union/intersect/diff/symdiff, projection, reduce, singleton, debool"});
  props.push_back({"eager_vs_lazy", propEagerLazy, 500, 20000, false, false, "full power sets / products (nested, inside sets) built lazily and enumerated"});
  props.push_back({"copy_isolation", propCopyIsolation, 3000, 40000, false, false, "copy / assign / AddElement / wrap histories on values sharing a payload"});
  props.push_back({"nested_iteration", propNestedIteration, 800, 15000, false, false, "several live iterators / queries on one lazy set object"});
  return pbt::main(argc, argv, "C15", props);
}
