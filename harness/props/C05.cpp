// C05 - printing then re-parsing an expression preserves its tree in both syntaxes.
// Oracle: round trip  text -> Parse -> Generator::FromTree(S') -> Parse(S')  must give an equal tree (operator== and
// equality with the generating model tree; in ASCII local names pass through my copy of the transliteration table).
#include "model/rsast.hpp"

#include "ccl/rslang/Parser.h"
#include "ccl/rslang/RSGenerator.h"

#include <set>

using pbt::Ctx;
using pbt::Verdict;
using namespace rs;
namespace rl = ccl::rslang;

namespace {

#define CHECK(cond, oracle, msg) do { if (!(cond)) return pbt::fail(oracle, msg); } while (0)

void collectLocals(const Expr& e, std::set<std::string>& out) { if (e.id == TID::ID_LOCAL) out.insert(e.name); for (auto& k : e.kids) collectLocals(*k, out); }
EP translitTree(const EP& e) { EP c = clone(e); std::function<void(Expr&)> f = [&](Expr& x) { if (x.id == TID::ID_LOCAL) x.name = translit(x.name); for (auto& k : x.kids) f(*k); }; f(*c); return c; }
bool hasPairs(const Expr& e) {
  if (isSetexprBinary(e.id) || isLogicBin(e.id) || e.id == TID::NOT || e.id == TID::FORALL || e.id == TID::EXISTS)
    for (auto& k : e.kids) if (isSetexprBinary(k->id) || isLogicBin(k->id)) return true;
  for (auto& k : e.kids) if (hasPairs(*k)) return true;
  return false;
}
bool hasConstructor(const Expr& e) {
  switch (e.id) { case TID::NT_DECLARATIVE_EXPR: case TID::NT_RECURSIVE_FULL: case TID::NT_RECURSIVE_SHORT: case TID::NT_IMPERATIVE_EXPR: case TID::NT_FUNC_DEFINITION: case TID::FILTER: return true; default: break; }
  for (auto& k : e.kids) if (hasConstructor(*k)) return true;
  return false;
}
void labelPairs(Ctx& c, const Expr& e) {
  for (size_t i = 0; i < e.kids.size(); ++i) {
    const Expr& k = *e.kids[i];
    if ((isSetexprBinary(e.id) || isLogicBin(e.id) || e.id == TID::NOT || e.id == TID::FORALL || e.id == TID::EXISTS) && (isSetexprBinary(k.id) || isLogicBin(k.id)))
      c.label(std::string("pair:") + kindName(e.id) + (i == 0 ? "<" : ">") + kindName(k.id));
  }
  for (auto& k : e.kids) labelPairs(c, *k);
}
rl::Syntax toLib(Syn s) { return s == Syn::MATH ? rl::Syntax::MATH : rl::Syntax::ASCII; }
std::string errs(const rl::Parser& p) { std::string s; for (auto& er : p.Errors().All()) s += " eid=" + std::to_string(er.eid) + "@" + std::to_string(er.position); return s; }

Verdict roundTrip(Ctx& c, const EP& e, Syn src) {
  PrintOpts po; po.syn = src;
  const std::string text = render(e, po);
  std::set<std::string> locals; collectLocals(*e, locals);
  bool greek = false; for (auto& n : locals) for (unsigned char ch : n) greek |= ch >= 0x80;
  std::set<std::string> tl; for (auto& n : locals) tl.insert(translit(n));
  const bool distinctUnderTranslit = tl.size() == locals.size();
  c.show << (src == Syn::MATH ? "MATH " : "ASCII ") << text;
  c.nontrivial = hasPairs(*e) || hasConstructor(*e);
  if (greek) c.label("has-greek");
  if (hasConstructor(*e)) c.label("has-constructor");
  c.label(src == Syn::MATH ? "source:MATH" : "source:ASCII");
  labelPairs(c, *e);
  c.exec();

  rl::Parser parser;
  if (!parser.Parse(text, toLib(src))) return pbt::fail("valid-rejected", "grammatical text rejected (C06 territory):" + errs(parser));
  const EP srcModel = src == Syn::ASCII ? translitTree(e) : e;
  const std::string t1 = sexprLib(parser.AST());
  CHECK(t1 == sexpr(srcModel), "tree-mismatch", "parsed " + t1 + " want " + sexpr(srcModel));
  const auto ast1 = *parser.ExtractAST();

  for (Syn dst : {Syn::MATH, Syn::ASCII}) {
    const std::string printed = rl::Generator::FromTree(ast1, toLib(dst));
    const char* dn = dst == Syn::MATH ? "MATH" : "ASCII";
    CHECK(!printed.empty(), "print-empty", std::string("FromTree(") + dn + ") returned an empty text");
    rl::Parser p2;
    if (!p2.Parse(printed, toLib(dst))) return pbt::fail(std::string("reparse-fails-") + dn, "printed '" + printed + "' does not parse:" + errs(p2));
    const EP want = dst == Syn::ASCII ? translitTree(srcModel) : srcModel;
    const std::string t2 = sexprLib(p2.AST());
    CHECK(t2 == sexpr(want), std::string("roundtrip-tree-") + dn, "printed '" + printed + "' re-parses as " + t2 + " want " + sexpr(want));
    if (dst == Syn::MATH || !greek) CHECK(p2.AST() == ast1, std::string("roundtrip-eq-") + dn, "SyntaxTree::operator== says the re-parsed tree differs");
    // printing the re-parsed tree again is a fixpoint
    CHECK(rl::Generator::FromTree(p2.AST(), toLib(dst)) == printed, std::string("print-not-stable-") + dn, "printing the re-parsed tree gives a different text");
  }

  // ConvertTo consequences (source text in MATH): there-and-back preserves the tree when local names stay distinct
  if (src == Syn::MATH) {
    const std::string a = rl::ConvertTo(text, rl::Syntax::ASCII);
    const std::string b = rl::ConvertTo(a, rl::Syntax::MATH);
    if (distinctUnderTranslit) {
      rl::Parser p3;
      CHECK(p3.Parse(b, rl::Syntax::MATH), "convert-back-fails", "ConvertTo(ConvertTo(x,ASCII),MATH)='" + b + "' does not parse");
      const std::string t3 = sexprLib(p3.AST());
      CHECK(t3 == sexpr(translitTree(e)), "convert-roundtrip", "there-and-back gives " + t3 + " want " + sexpr(translitTree(e)));
    }
    // normalisation is idempotent: converting the canonical text there and back again changes nothing
    const std::string a2 = rl::ConvertTo(b, rl::Syntax::ASCII);
    const std::string b2 = rl::ConvertTo(a2, rl::Syntax::MATH);
    CHECK(a2 == a && b2 == b, "convert-idempotent", "second there-and-back changes the text: '" + a + "' -> '" + a2 + "'");
    // (Direct double application ConvertTo(ConvertTo(x,S),S) is not checked: it feeds text of syntax S to a parser for the
    // other syntax, where '*' and every backslash word have another reading; the property's idempotence is the fixpoint above.)
  }
  return pbt::pass();
}

Verdict propRandom(Ctx& c) {
  const Syn src = c.chance(2, 3) ? Syn::MATH : Syn::ASCII;
  SynGen g(c);
  g.greek = src == Syn::MATH;
  return roundTrip(c, g.expression(c.ipick(1, 4)), src);
}

// exhaustive (parent, side, child) table over all operators that take operator children
Verdict propPairs(Ctx& c) {
  static const std::vector<TID> sops = {TID::PLUS, TID::MINUS, TID::MULTIPLY, TID::UNION, TID::INTERSECTION, TID::SET_MINUS, TID::SYMMINUS, TID::DECART};
  static const std::vector<TID> lops = {TID::EQUIVALENT, TID::IMPLICATION, TID::OR, TID::AND};
  const int family = c.ipick(0, 2);  // 0 setexpr binaries, 1 logic binaries, 2 unary logic parents (NOT / quantifiers) over logic binaries + unary
  const Syn src = c.coin() ? Syn::ASCII : Syn::MATH;
  auto sl = [&](const char* n) { return mkName(TID::ID_LOCAL, n); };
  auto ll = [&](const char* n) { return mk(TID::EQUAL, {sl(n), sl(n)}); };
  EP e;
  if (family == 0) {
    const TID parent = c.oneof(sops), kid = c.oneof(sops);
    const int side = c.ipick(0, 2);  // left, right, both
    EP i1 = mk(kid, {sl("a"), sl("b")}), i2 = mk(kid, {sl("x"), sl("y")});
    e = side == 0 ? mk(parent, {i1, sl("c")}) : side == 1 ? mk(parent, {sl("c"), i1}) : mk(parent, {i1, i2});
  } else if (family == 1) {
    const TID parent = c.oneof(lops), kid = c.oneof(lops);
    const int side = c.ipick(0, 2);
    EP i1 = mk(kid, {ll("a"), ll("b")}), i2 = mk(kid, {ll("x"), ll("y")});
    e = side == 0 ? mk(parent, {i1, ll("c")}) : side == 1 ? mk(parent, {ll("c"), i1}) : mk(parent, {i1, i2});
  } else {
    const int pk = c.ipick(0, 2);
    const int ck = c.ipick(0, 6);
    EP child = ck < 4 ? mk(lops[ck], {ll("a"), ll("b")}) : ck == 4 ? mk(TID::NOT, {ll("a")}) : ck == 5 ? mk(TID::FORALL, {sl("a"), sl("s"), ll("a")}) : ll("a");
    const int wrap = c.ipick(0, 2);  // alone, as left operand of &, as right operand of ∨
    EP u = pk == 0 ? mk(TID::NOT, {child}) : mk(pk == 1 ? TID::FORALL : TID::EXISTS, {sl("q"), sl("s"), child});
    e = wrap == 0 ? u : wrap == 1 ? mk(TID::AND, {u, ll("c")}) : mk(TID::OR, {ll("c"), u});
  }
  return roundTrip(c, e, src);
}

}  // namespace

int main(int argc, char** argv) {
  std::vector<pbt::Prop> props;
  props.push_back({"pairs", propPairs, 0, 0, true, false, "every operator as parent of every operator as left/right/both child, both source syntaxes"});
  props.push_back({"roundtrip", propRandom, 8000, 120000, false, false, "random grammatical trees, both source syntaxes, both target syntaxes"});
  return pbt::main(argc, argv, "C05", props);
}
