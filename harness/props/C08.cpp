// C08 - renaming rewrites all and only the mentions of a name and preserves meaning.
// String level: texts whose identifier tokens are known by construction (printed from generated trees, or token soups);
// TranslateRS / SubstituteGlobals must replace exactly those whole-identifier occurrences, simultaneously.
// Schema level: SetAliasFor with substitution and ResetAliases on schemas reached by editing histories; every formal
// definition / convention / reference text must equal the harness' own span rewrite of the old one, and - when the new
// name was not already mentioned as an unresolved name - dependency edges, status and typifications are preserved up to
// the renaming.  (ManagedText::TranslateRaw / Referals at string level are decided in the C17 harness, sub-property managed.)
#include "model/rsast.hpp"
#include "model/schemahist.hpp"
#include "model/reftext.hpp"

#include "ccl/rslang/RSExpr.h"

using pbt::Ctx;
using pbt::Verdict;
using namespace rs;
using ccl::EntityUID;

namespace {

#define CHECK(cond, oracle, msg) do { if (!(cond)) return pbt::fail(oracle, msg); } while (0)

bool isGlobalKind(TID id) { return id == TID::ID_GLOBAL || id == TID::ID_FUNCTION || id == TID::ID_PREDICATE; }

// ---- my own scanner for global identifier tokens of a MATH text (transcribed from the lexer's token classes) ----
struct Span { size_t byte, len; };
bool isGreek2(const std::string& s, size_t i) { const unsigned char c = s[i]; if (i + 1 >= s.size()) return false; const unsigned char d = s[i + 1]; return (c == 0xCE && d >= 0xB1 && d <= 0xBF) || (c == 0xCF && d >= 0x80 && d <= 0x89); }
std::vector<Span> globalSpans(const std::string& s) {
  std::vector<Span> out;
  size_t i = 0;
  auto alnumAt = [&](size_t k) -> size_t { const unsigned char c = s[k]; if (std::isalnum(c) || c == '_') return 1; if (isGreek2(s, k)) return 2; return 0; };
  auto allDigits = [](const std::string& w, size_t from) { if (from >= w.size()) return false; for (size_t k = from; k < w.size(); ++k) if (w[k] < '0' || w[k] > '9') return false; return true; };
  while (i < s.size()) {
    const unsigned char c = s[i];
    if (c >= '0' && c <= '9') { while (i < s.size() && s[i] >= '0' && s[i] <= '9') ++i; continue; }
    const bool start = std::isalpha(c) || c == '_' || isGreek2(s, i);
    if (!start) { ++i; continue; }
    if (c == 'B') { ++i; continue; }  // 'B' is no token of the MATH syntax: the scan restarts right after it
    size_t j = i; while (j < s.size()) { const size_t n = alnumAt(j); if (!n) break; j += n; }
    const std::string w = s.substr(i, j - i);
    const bool upper = c >= 'A' && c <= 'Z';
    bool global = upper;
    if (w == "D" || w == "R" || w == "I" || w == "Z") global = false;
    if (w[0] == 'R' && allDigits(w, 1)) global = false;                      // radical
    if (w.size() > 2 && w.compare(0, 2, "Pr") == 0 && allDigits(w, 2)) global = false;  // projection
    if (w.size() > 2 && w.compare(0, 2, "Fi") == 0 && allDigits(w, 2)) global = false;  // filter
    if (global) out.push_back({i, w.size()});
    i = j;
  }
  return out;
}
std::string rewrite(const std::string& s, const std::vector<Span>& spans, const std::map<std::string, std::string>& m, int* count = nullptr) {
  std::string o; size_t at = 0; int n = 0;
  for (auto& sp : spans) {
    o.append(s, at, sp.byte - at);
    const std::string w = s.substr(sp.byte, sp.len);
    auto it = m.find(w);
    if (it != m.end() && it->second != w) { o += it->second; ++n; } else o += w;
    at = sp.byte + sp.len;
  }
  o.append(s, at, std::string::npos);
  if (count) *count = n;
  return o;
}

std::map<std::string, std::string> genMap(Ctx& c, const std::vector<std::string>& present) {
  static const std::vector<std::string> extra = {"X1", "X11", "X12", "X2", "X3", "D1", "D11", "S1", "F1", "P1", "C1", "T1", "A1", "X10", "D2"};
  std::vector<std::string> names = present; names.insert(names.end(), extra.begin(), extra.end());
  std::map<std::string, std::string> m;
  const int n = c.ipick(1, 4);
  for (int i = 0; i < n; ++i) {
    const std::string from = c.chance(3, 4) ? c.oneof(present) : c.oneof(names);
    const int w = c.ipick(0, 5);
    std::string to;
    if (w == 0) to = from;                                   // identity entry
    else if (w == 1) to = c.oneof(names);                    // chain / swap partner: a name that may itself be a key
    else if (w == 2) to = from + "1";                        // the old name becomes a prefix of the new one
    else if (w == 3) to = from.substr(0, 1) + std::to_string(c.ipick(20, 99));
    else if (w == 4) to = "Q" + std::to_string(c.ipick(1, 3)) + "_long_name";
    else to = from.substr(0, 1);                             // shorter
    m[from] = to;
  }
  if (c.chance(1, 4) && m.size() >= 1) { auto a = m.begin()->first; auto b = c.oneof(names); m[a] = b; m[b] = a; }  // swap
  return m;
}

Verdict stringProp(Ctx& c) {
  std::string text; std::vector<Span> globals, locals; bool multibyteBefore = false;
  const int mode = c.ipick(0, 2);
  if (mode <= 1) {  // printed from a generated tree
    SynGen g(c); g.greek = true; g.maxInt = 1000;
    EP e = g.expression(c.ipick(1, 3));
    PrintOpts po; po.syn = Syn::MATH; po.rnd = &c; po.whitespace = mode == 1 ? 30 : 0; po.newlines = true; po.redundantParens = 10;
    Printer pr(po); pr.print(*e); text = pr.out;
    for (auto& t : pr.idents) { if (isGlobalKind(t.id)) globals.push_back({t.byte, t.len}); else if (t.id == TID::ID_LOCAL) locals.push_back({t.byte, t.len}); }
  } else {  // token soup: every identifier delimited unambiguously
    static const std::vector<std::string> idents = {"X1", "X11", "X12", "X2", "D1", "D11", "S1", "F1", "P1", "C1", "Xa", "X1_", "Da1", "T1", "A1"};
    static const std::vector<std::string> others = {"\xE2\x88\xAA", "\xE2\x88\x88", " ", "(", ")", ",", "\xE2\x84\xAC", "\xC3\x97", "=", "a", "x1", "card", "pr1", "Pr1,2", "R1", "Z", "D", "I", "12", "\n", "\\", "\xD0\x96", "[", "]", "|", "{", "}", "\xCE\xB1", "Fi1"};
    const int n = c.ipick(1, 14);
    bool lastWord = false;
    for (int i = 0; i < n; ++i) {
      const bool id = c.chance(2, 5);
      const std::string tok = id ? c.oneof(idents) : c.oneof(others);
      const unsigned char f = tok[0];
      const bool wordStart = std::isalnum(f) || f == '_' || f == 0xCE || f == 0xCF;
      if (lastWord && wordStart) text += ' ';
      if (id) globals.push_back({text.size(), tok.size()});
      text += tok;
      const unsigned char l = tok.back();
      lastWord = std::isalnum(l) || l == '_' || (tok.size() >= 2 && (static_cast<unsigned char>(tok[tok.size() - 2]) == 0xCE || static_cast<unsigned char>(tok[tok.size() - 2]) == 0xCF));
    }
  }
  std::vector<std::string> present; for (auto& g : globals) present.push_back(text.substr(g.byte, g.len));
  if (present.empty()) present.push_back("X1");
  const auto m = genMap(c, present);
  int wantCount = 0;
  const std::string want = rewrite(text, globals, m, &wantCount);
  for (auto& g : globals) { for (size_t k = 0; k < g.byte; ++k) if (static_cast<unsigned char>(text[k]) >= 0x80) { multibyteBefore = true; break; } if (multibyteBefore) break; }
  bool chainOrSwap = false, prefixFires = false;
  for (auto& [a, b] : m) { if (a != b && m.count(b)) chainOrSwap = true; for (auto& p : present) if (p != a && p.compare(0, a.size(), a) == 0) prefixFires = true; }
  c.show << "text='" << text << "' map={"; for (auto& [a, b] : m) c.show << a << "->" << b << " "; c.show << "}";
  c.nontrivial = (wantCount >= 2 && multibyteBefore) || (wantCount >= 1 && (chainOrSwap || prefixFires));
  if (chainOrSwap) c.label("chain-or-swap"); if (prefixFires) c.label("prefix-name-present"); if (multibyteBefore) c.label("multibyte-before-identifier");
  c.label("replacements:" + std::to_string(std::min(wantCount, 4)));
  c.exec();

  // my scanner must agree with the construction (self-check of the harness, not of the library)
  { const auto mine = globalSpans(text); bool same = mine.size() == globals.size(); for (size_t i = 0; same && i < mine.size(); ++i) same = mine[i].byte == globals[i].byte && mine[i].len == globals[i].len; if (!same) { c.count("scanner-vs-construction-mismatch"); return pbt::discard("harness-scanner"); } }

  ccl::StrSubstitutes subst(m.begin(), m.end());
  { std::string s = text; const int n = ccl::rslang::SubstituteGlobals(s, subst);
    CHECK(s == want, "substitute-globals", "SubstituteGlobals gives '" + s + "' want '" + want + "'");
    CHECK(n == wantCount, "substitute-count", "SubstituteGlobals reports " + std::to_string(n) + " replacements, " + std::to_string(wantCount) + " occurrences changed"); }
  { std::string s = text; const int n = ccl::rslang::TranslateRS(s, ccl::rslang::TFFactory::FilterGlobals(), ccl::CreateTranslator(subst));
    CHECK(s == want && n == wantCount, "translate-rs", "TranslateRS(FilterGlobals) gives '" + s + "' (" + std::to_string(n) + ") want '" + want + "' (" + std::to_string(wantCount) + ")"); }
  // an identity map changes nothing
  { std::string s = text; ccl::StrSubstitutes id; for (auto& p : present) id[p] = p; const int n = ccl::rslang::SubstituteGlobals(s, id); CHECK(s == text && n == 0, "identity-map", "identity map changed the text or reported replacements"); }
  // mentions extracted = the identifiers present
  { std::set<std::string> wantNames(present.begin(), present.end()); if (globals.empty()) wantNames.clear(); const auto got = ccl::rslang::ExtractUGlobals(text); std::set<std::string> gotNames(got.begin(), got.end());
    CHECK(gotNames == wantNames, "extract-globals", "ExtractUGlobals differs from the identifiers in the text"); }
  return pbt::pass();
}

// ---- schema level ---------------------------------------------------------------------------------------------
struct Snap { std::string alias, def, conv, term, text, status, type; std::set<EntityUID> inputs; };
std::string typeStrOf(const sh::RSForm& f, EntityUID uid) {
  const auto& p = f.GetParse(uid); if (!p.exprType.has_value()) return "-";
  if (std::holds_alternative<ccl::rslang::LogicT>(*p.exprType)) return "LOGIC";
  return std::get<ccl::rslang::Typification>(*p.exprType).ToString();
}
std::map<EntityUID, Snap> snapshot(const sh::RSForm& f) {
  std::map<EntityUID, Snap> m;
  for (auto uid : f.List()) {
    Snap s; const auto& rs = f.GetRS(uid); const auto& tx = f.GetText(uid);
    s.alias = rs.alias; s.def = rs.definition; s.conv = rs.convention; s.term = tx.term.Text().Raw(); s.text = tx.definition.Raw();
    s.status = std::to_string(static_cast<int>(f.GetParse(uid).status)); s.type = typeStrOf(f, uid);
    for (auto u : f.RSLang().Graph().InputsFor(uid)) s.inputs.insert(u);
    m[uid] = s;
  }
  return m;
}
// expected raw reference text: entity references whose name is renamed are re-spelled canonically, the rest is byte-identical
std::vector<m6::Seg> expectedSegs(const std::string& raw, const std::map<std::string, std::string>& ren, bool* unspecified) {
  std::vector<m6::Seg> segs; const auto sc = m6::scan(raw); size_t at = 0;
  if (sc.unspecified || sc.hasNested) *unspecified = true;
  for (const auto& oc : sc.top) {
    if (!oc.closed || oc.p.kind != m6::Kind::Entity) continue;
    auto it = ren.find(oc.p.entity);
    if (it == ren.end() || it->second == oc.p.entity) continue;
    segs.push_back(m6::litSeg(raw.substr(at, oc.bstart - at)));
    m6::Parsed p = oc.p; p.entity = it->second; segs.push_back(m6::refSeg(p));
    at = oc.bfinish;
  }
  segs.push_back(m6::litSeg(raw.substr(at)));
  return segs;
}

Verdict schemaRename(Ctx& c, bool richRefs) {
  sh::GenOpts o; o.maxOps = 8;
  const uint64_t idSeed = static_cast<uint64_t>(c.pick(1, 1000000));
  const auto ops = sh::genHistory(c, o);
  const int mode = c.ipick(0, 3);  // 0-2 rename one constituent, 3 ResetAliases
  const int target = c.ipick(0, 11), newIndex = c.ipick(5, 40);
  for (size_t i = 0; i < ops.size(); ++i) c.show << (i ? "; " : "") << sh::showOp(ops[i]);
  // rich reference texts (sub-property reference_rename): references whose tag part holds multi-byte characters (a tag
  // typed in the wrong keyboard layout, a no-break space after the comma - unknown tags are skipped by the library as long
  // as one valid tag remains), several references per text, multi-byte text around them, names that are prefixes of others
  struct RichEdit { int target; bool term; std::string text; };
  std::vector<RichEdit> rich;
  if (richRefs) {
    static const std::vector<std::string> names = {"X1", "X2", "D1", "D2", "X11", "S1", "C1"};
    static const std::vector<std::string> tags = {"nomn,sing", "datv,plur", "nomn,\xD0\xBC\xD0\xBD", "nomn,\xC2\xA0sing", "\xD0\xBC\xD0\xBD,gent", "sing,nomn", "ablt", "nomn,sing,\xE2\x84\xAC", "NOMN,sing"};
    static const std::vector<std::string> glue = {"", " ", "\xD0\x9F\xD1\x83\xD1\x81\xD1\x82\xD1\x8C ", " \xE2\x80\x94 ", "\xE2\x84\xAC(", ") and ", "\xF0\x9F\x98\x80", "@", " @{-1|big} "};
    const int k = c.ipick(1, 4);
    for (int i = 0; i < k; ++i) {
      RichEdit e; e.target = c.ipick(0, 11); e.term = c.coin();
      const int refs = c.ipick(1, 3);
      e.text = c.oneof(glue);
      for (int j = 0; j < refs; ++j) e.text += "@{" + c.oneof(names) + "|" + c.oneof(tags) + "}" + c.oneof(glue);
      rich.push_back(e);
    }
  }
  c.show << (mode == 3 ? " THEN ResetAliases" : " THEN rename #" + std::to_string(target) + " to index " + std::to_string(newIndex));
  for (const auto& e : rich) c.show << " [rich " << (e.term ? "term" : "text") << " #" << e.target << " '" << e.text << "']";
  c.exec();
  sh::Executor ex(idSeed);
  for (const auto& op : ops) (void)ex.apply(op);
  auto& f = ex.form;
  const auto l = ex.list();
  if (l.empty()) return pbt::discard("empty-schema");
  for (const auto& e : rich) { const auto uid = l[static_cast<size_t>(e.target) % l.size()]; if (e.term) (void)f.SetTermFor(uid, e.text); else (void)f.SetDefinitionFor(uid, e.text); }
  const auto before = snapshot(f);
  std::map<std::string, std::string> ren;
  if (mode == 3) {
    f.ResetAliases();
    for (auto uid : l) if (before.at(uid).alias != f.GetRS(uid).alias) ren[before.at(uid).alias] = f.GetRS(uid).alias;
  } else {
    // prefer a constituent that is actually mentioned somewhere
    std::vector<EntityUID> mentioned; for (auto u : l) for (auto v : l) if (before.at(v).inputs.count(u)) { mentioned.push_back(u); break; }
    const auto uid = (!mentioned.empty() && target % 4 != 0) ? mentioned[static_cast<size_t>(target) % mentioned.size()] : l[static_cast<size_t>(target) % l.size()];
    const std::string newAlias = std::string(1, sh::kindLetter(f.GetRS(uid).type)) + std::to_string(newIndex);
    const bool taken = f.Core().FindAlias(newAlias).has_value();
    const bool ok = f.SetAliasFor(uid, newAlias, true);
    if (taken) { CHECK(!ok, "rename-onto-taken-alias", "SetAliasFor accepted the taken alias " + newAlias); return pbt::pass(); }
    CHECK(ok, "rename-refused", "SetAliasFor refused the free well-formed alias " + newAlias);
    ren[before.at(uid).alias] = newAlias;
  }
  const auto after = snapshot(f);
  // (1) all and only the mentions are rewritten
  int rewritten = 0; bool multibyteBefore = false, refUnspecified = false, refMultibyte = false;
  for (auto uid : l) {
    const auto& b = before.at(uid); const auto& a = after.at(uid);
    auto it = ren.find(b.alias);
    CHECK(a.alias == (it == ren.end() ? b.alias : it->second), "alias-after-rename", "alias of " + b.alias + " is " + a.alias);
    int n = 0;
    const auto spans = globalSpans(b.def);
    const std::string wantDef = rewrite(b.def, spans, ren, &n); rewritten += n;
    CHECK(a.def == wantDef, "definition-rewrite", "definition of " + b.alias + " '" + b.def + "' became '" + a.def + "' want '" + wantDef + "'");
    if (n) for (unsigned char ch : b.def) if (ch >= 0x80) multibyteBefore = true;
    const std::string wantConv = rewrite(b.conv, globalSpans(b.conv), ren, &n);
    CHECK(a.conv == wantConv, "convention-rewrite", "convention of " + b.alias + " '" + b.conv + "' became '" + a.conv + "' want '" + wantConv + "'");
    for (const auto* pr : {&b.term, &b.text}) {
      const std::string& got = pr == &b.term ? a.term : a.text;
      const auto d = m6::matchSegs(got, expectedSegs(*pr, ren, &refUnspecified));
      if (richRefs && *pr != got) { bool mb = false; for (size_t i = pr->find("@{"); i != std::string::npos && i < pr->size() && (*pr)[i] != '}'; ++i) if (static_cast<unsigned char>((*pr)[i]) >= 0x80) mb = true; if (mb) refMultibyte = true; }
      if (!refUnspecified) CHECK(d.empty(), "reference-rewrite", std::string(pr == &b.term ? "term" : "text definition") + " of " + b.alias + " '" + *pr + "' became '" + got + "': " + d);
    }
  }
  // (2) meaning preserved, provided no new name was already mentioned as an unresolved name
  std::set<std::string> oldAliases; for (auto& [u, s] : before) oldAliases.insert(s.alias);
  bool precondition = true;
  for (auto& [u, s] : before) for (auto& sp : globalSpans(s.def)) { const std::string w = s.def.substr(sp.byte, sp.len); if (!oldAliases.count(w)) for (auto& [from, to] : ren) if (to == w) precondition = false; }
  if (!precondition) { c.count("new-name-was-an-unresolved-mention"); }
  else {
    for (auto uid : l) {
      const auto& b = before.at(uid); const auto& a = after.at(uid);
      CHECK(a.inputs == b.inputs, "dependencies-changed", "dependency edges of " + a.alias + " changed by the renaming");
      CHECK(a.status == b.status, "status-changed", "parse status of " + a.alias + " ('" + a.def + "') changed by the renaming");
      const std::string wantType = rewrite(b.type, globalSpans(b.type), ren);
      CHECK(a.type == wantType, "typification-changed", "typification of " + a.alias + " is " + a.type + ", expected " + wantType + " (was " + b.type + ")");
    }
  }
  c.nontrivial = richRefs ? refMultibyte : (rewritten >= 1 && precondition);
  if (refMultibyte) c.label("rewritten-reference-text-with-multibyte-inside-a-reference");
  if (refUnspecified) c.label("reference-rewrite-unspecified(nested or malformed marker)");
  c.label(mode == 3 ? "reset-aliases" : "set-alias");
  c.label("rewritten:" + std::to_string(std::min(rewritten, 4)));
  if (multibyteBefore) c.label("multibyte-in-rewritten-definition");
  return pbt::pass();
}

Verdict schemaProp(Ctx& c) { return schemaRename(c, false); }
Verdict referenceRenameProp(Ctx& c) { return schemaRename(c, true); }

// ---- every identifier translation leaves the schema consistent with a rebuild from its own content -------------------
// Renaming with substitution, alias reset, duplicate elimination and merging all translate identifiers in formal and
// text parts.  After such an operation - and after one further text edit, which relies on the maintained dependency
// graphs - everything the schema reports (parse results, the three dependency graphs, resolved texts) must equal what a
// schema rebuilt from the same records reports ("the schema is the old one up to the renaming: same dependency structure").
Verdict translationProp(Ctx& c) {
  sh::GenOpts o; o.maxOps = 8; o.merges = true;
  const uint64_t idSeed = static_cast<uint64_t>(c.pick(1, 1000000));
  const auto ops = sh::genHistory(c, o);
  const int trans = c.ipick(0, 3);            // 0 rename with substitution, 1 reset aliases, 2 duplicate + delete duplicates, 3 merge
  const int target = c.ipick(0, 11), follow = c.ipick(0, 11), followKind = c.ipick(0, 2);
  static const char* texts[] = {"renamed", "new @{X1|nomn,sing}", "word @{D1|datv,plur}"};
  std::vector<sh::Rec> mergeRecs; if (trans == 3) { const int r = c.ipick(1, 3); for (int j = 0; j < r; ++j) mergeRecs.push_back(sh::genRec(c)); }
  for (size_t i = 0; i < ops.size(); ++i) c.show << (i ? "; " : "") << sh::showOp(ops[i]);
  static const char* tn[] = {"rename", "ResetAliases", "duplicate+DeleteDuplicates", "MergeWith"};
  c.show << " THEN " << tn[trans] << "(#" << target << ") THEN SetTerm(#" << follow << ",'" << texts[followKind] << "')";
  c.exec();
  sh::Executor ex(idSeed);
  for (const auto& op : ops) (void)ex.apply(op);
  auto& f = ex.form;
  auto l = ex.list();
  if (l.empty()) return pbt::discard("empty-schema");
  const auto uid = l[static_cast<size_t>(target) % l.size()];
  if (trans == 0) { const std::string na = std::string(1, sh::kindLetter(f.GetRS(uid).type)) + std::to_string(30 + target); (void)f.SetAliasFor(uid, na, true); }
  else if (trans == 1) f.ResetAliases();
  else if (trans == 2) {
    // an exact duplicate that is mentioned by the text definition (and, if possible, the formal definition) of other
    // constituents, so that eliminating it has mentions to translate
    auto rec = f.Core().AsRecord(uid); rec.uid = 0x50000000u;
    const auto dup = f.InsertCopy(rec);
    const std::string dupAlias = f.GetRS(dup).alias;
    const auto m1 = l[static_cast<size_t>(follow) % l.size()], m2 = l[static_cast<size_t>(follow + 1) % l.size()];
    (void)f.SetDefinitionFor(m1, "see @{" + dupAlias + "|nomn,sing} here");
    if (followKind != 0) (void)f.SetTermFor(m2, "of @{" + dupAlias + "|gent,sing}");
    if (followKind == 2 && f.GetRS(m2).type == ccl::semantic::CstType::term) (void)f.SetExpressionFor(m2, dupAlias + "\xE2\x88\xAA" + dupAlias);
    (void)f.Ops().DeleteDuplicates();
  }
  else { sh::RSForm other; for (auto& x : mergeRecs) other.InsertCopy(ex.record(x)); (void)f.Ops().MergeWith(other); }
  {
    const bool acyclic = !f.Texts().TermGraph().HasLoop();
    const Verdict v = sh::compareWith(f, sh::rebuilt(f), "Load+UpdateState", tn[trans], acyclic);
    if (v.kind != Verdict::PASS) return v;
  }
  l = ex.list();
  if (!l.empty()) {
    const auto fu = l[static_cast<size_t>(follow) % l.size()];
    (void)f.SetTermFor(fu, texts[followKind]);
    const bool acyclic = !f.Texts().TermGraph().HasLoop();
    const Verdict v = sh::compareWith(f, sh::rebuilt(f), "Load+UpdateState", std::string(tn[trans]) + " then SetTerm", acyclic);
    if (v.kind != Verdict::PASS) return v;
  }
  c.nontrivial = true;
  c.label(std::string("translation:") + tn[trans]);
  return pbt::pass();
}

}  // namespace

int main(int argc, char** argv) {
  std::vector<pbt::Prop> props;
  props.push_back({"translate_strings", stringProp, 8000, 120000, false, false, "TranslateRS / SubstituteGlobals on texts with identifier spans known by construction"});
  props.push_back({"schema_rename", schemaProp, 1500, 25000, false, false, "SetAliasFor with substitution / ResetAliases on schemas reached by histories"});
  props.push_back({"reference_rename", referenceRenameProp, 1500, 20000, false, false, "the same renamings over schemas whose terms / text definitions hold references with multi-byte characters inside the braces, several references per text and multi-byte text around them"});
  props.push_back({"translation_consistency", translationProp, 1000, 20000, false, false, "rename / reset / delete duplicates / merge, then a text edit: schema vs a rebuild from its own records"});
  return pbt::main(argc, argv, "C08", props);
}
