// C04 (deterministic component) - analysis of arbitrary input is total, memory-safe and reports failure faithfully.
// rapidcheck generators feed the same oracle as the libFuzzer targets (harness/fuzz/c04_common.hpp): grammatical texts
// with corner literals, texts damaged by truncation / deletion / splicing, and adversarially deep nesting.
#include "model/rsast.hpp"
#include "fuzz/c04_common.hpp"

using pbt::Ctx;
using pbt::Verdict;
using namespace rs;

namespace {

struct ThrowMode { ThrowMode() { c04::throwOnViolation() = true; } ~ThrowMode() { c04::throwOnViolation() = false; } };

Verdict feed(Ctx& c, const std::string& text, const char* kind) {
  static const char* aliases[] = {"X1", "D1", "S1", "A1", "F1", "P1", "T1", "C1", "", "D99"};
  const int hint = c.ipick(0, 2), ctx = c.ipick(0, 1), kindSel = c.ipick(0, 8);
  const std::string alias = aliases[c.ipick(0, 9)];
  c.show << kind << " hint=" << hint << " ctx=" << ctx << " alias='" << alias << "' kind=" << kindSel << " text='" << pbt::printable(text) << "'";
  c.label(std::string("input:") + kind);
  c.exec();
  c04::resetGlobalState();
  ThrowMode guard;
  try {
    const int stage = c04::runAll(text, hint, ctx, alias, kindSel);
    c.nontrivial = stage >= 1 || stage == -2;
    static const char* stages[] = {"stage:rejected-by-parser", "stage:parsed", "stage:type-correct", "stage:evaluated"};
    c.label(stages[stage < 0 ? 0 : stage]);
  } catch (const c04::OracleViolation& v) {
    return pbt::fail(v.oracle, v.msg);
  }
  return pbt::pass();
}

std::string genText(Ctx& c, bool corners) {
  SynGen g(c);
  const bool ascii = c.chance(1, 3);
  g.greek = !ascii; g.cornerIndices = corners;
  if (corners) g.maxInt = c.chance(1, 3) ? 9223372036854775807LL : 4294967296LL;
  EP e = g.expression(c.ipick(1, 3));
  PrintOpts po; po.syn = ascii ? Syn::ASCII : Syn::MATH; po.rnd = &c; po.whitespace = 10; po.newlines = true;
  return render(e, po);
}

Verdict propGrammatical(Ctx& c) { return feed(c, genText(c, true), "grammatical-with-corner-literals"); }

Verdict propDamaged(Ctx& c) {
  std::string t = genText(c, c.chance(1, 4));
  static const std::vector<std::string> junk = {"(", ")", "{", "}", "[", "]", "|", ",", ";", ":=", ":==", "::=", "\xE2\x88\x88", "\xE2\x88\x80", "\xE2\x84\xAC", "pr0", "Pr0,1", "Fi0", "99999999999999999999", "\xFF", "\xE2\x88", "@", "B", "\\", "R1", "A1", "F1", "P1[", "D{", "R{", "I{", "\n", "\t", "\xF0\x9F\x98\x80"};
  const int n = c.ipick(1, 3);
  for (int i = 0; i < n && !t.empty(); ++i) {
    const int w = c.ipick(0, 3);
    const size_t pos = static_cast<size_t>(c.pick(0, static_cast<int64_t>(t.size()) - 1));
    if (w == 0) t = t.substr(0, pos);                                   // truncate (possibly inside a multi-byte symbol)
    else if (w == 1) t.erase(pos, static_cast<size_t>(c.ipick(1, 3)));  // delete bytes
    else if (w == 2) t.insert(pos, c.oneof(junk));                      // splice a stray token
    else if (pos + 1 < t.size()) std::swap(t[pos], t[pos + 1]);         // transpose
  }
  return feed(c, t, "damaged");
}

// Calls of term / predicate functions whose bodies fail (or succeed) at run time, inside small well-typed contexts.
// Run-time errors raised by nodes of an inlined body are the only reports whose position is not produced from the
// text being analysed, so they get a generator of their own.
Verdict propCalls(Ctx& c) {
  static const std::vector<std::string> sets = {"X1", "X2", "C1", "{D1}", "X1\\X1", "X1\xE2\x88\xAAX1", "Pr1(S1)", "Pr2(S1)", "red(S2)", "{D1,D1}", "\xE2\x88\x85", "{1,2}", "{D2}", "Z"};
  static const std::vector<std::string> elems = {"D1", "D2", "1", "debool(X2)", "debool(X1)", "card(X1)"};
  auto call = [&](int depth, auto&& self) -> std::string {
    const std::string a = depth > 0 && c.chance(1, 3) ? self(depth - 1, self) : c.oneof(sets);
    switch (c.ipick(0, 5)) {
      case 0: return "F2[" + a + "]";
      case 1: return "{F2[" + a + "]}";
      case 2: return "F3[" + a + "]";
      case 3: return "F1[" + a + ", " + c.oneof(sets) + "]";
      case 4: return "F3[F3[" + a + "]]";
      default: return "bool(F2[" + a + "])";
    }
  };
  std::string t;
  switch (c.ipick(0, 7)) {
    case 0: t = call(2, call); break;
    case 1: t = "P2[" + call(1, call) + ", " + c.oneof(elems) + "]"; break;
    case 2: t = "card(" + call(1, call) + ")" + (c.coin() ? "=1" : ""); break;
    case 3: t = "\xE2\x88\x80x\xE2\x88\x88" + c.oneof(sets) + " P2[" + c.oneof(sets) + ", x]"; break;
    case 4: t = "D{x\xE2\x88\x88" + c.oneof(sets) + "|P2[" + call(1, call) + ", x]}"; break;
    case 5: t = c.oneof(sets) + "\xE2\x88\xAA" + call(1, call); break;
    case 6: t = "P1[F2[" + c.oneof(sets) + "]]" + (c.coin() ? " & P2[" + c.oneof(sets) + ", " + c.oneof(elems) + "]" : ""); break;
    default: t = "\xC2\xAC" "P2[" + c.oneof(sets) + ", F2[" + c.oneof(sets) + "]]"; break;
  }
  if (c.chance(1, 4)) t = std::string(static_cast<size_t>(c.ipick(1, 3)), ' ') + t;
  return feed(c, t, "function-calls");
}

Verdict propDeep(Ctx& c) {
  const int depth = c.chance(1, 4) ? c.ipick(200, 2000) : c.ipick(5, 200);
  const int shape = c.ipick(0, 7);
  std::string open, close, core = "X1";
  switch (shape) {
    case 0: open = "("; close = ")"; core = "X1\xE2\x88\xAAX1"; break;
    case 1: open = "\xE2\x84\xAC("; close = ")"; break;
    case 2: open = "{"; close = "}"; break;
    case 3: open = "\xC2\xAC"; close = ""; core = "X1=X1"; break;
    case 4: open = "(X1,"; close = ")"; break;
    case 5: open = "pr1("; close = ")"; break;
    case 6: open = "\xE2\x88\x80" "a\xE2\x88\x88X1 "; close = ""; core = "a=a"; break;
    default: open = "card("; close = ")"; break;
  }
  std::string t;
  for (int i = 0; i < depth; ++i) t += open;
  t += core;
  const int closeN = c.chance(1, 4) ? c.ipick(0, depth) : depth;  // sometimes unbalanced
  for (int i = 0; i < closeN; ++i) t += close;
  return feed(c, t, "deep-nesting");
}

}  // namespace

int main(int argc, char** argv) {
  std::vector<pbt::Prop> props;
  props.push_back({"grammatical", propGrammatical, 1200, 20000, false, false, "grammatical texts with corner literals (indices 0 / 32768 / 70000, integers beyond 32 and 64 bits)"});
  props.push_back({"damaged", propDamaged, 1500, 25000, false, false, "grammatical texts truncated, with bytes deleted / transposed or stray tokens spliced in"});
  props.push_back({"function_calls", propCalls, 600, 10000, false, false, "calls (also nested) of term / predicate functions whose inlined bodies fail or succeed at run time"});
  props.push_back({"deep_nesting", propDeep, 120, 2000, false, false, "nesting depth up to 2000 in eight shapes"});
  return pbt::main(argc, argv, "C04", props);
}
