// C12 - synthesis, merge and equation yield a consistent schema and exact translations.
//
// Sub-properties: synthesis (ops::BinarySynthes), equate (RSForm::Ops().IsEquatable / Equate), duplicates
// (Ops().DeleteDuplicates), merge (Ops().MergeWith).
//
// Oracle = validity predicates computed by the harness over plain snapshots of the operands and of the result with its
// own tokenizer (model/schemagen_ops.hpp): translations total / into existing constituents / one survivor per equated
// pair; every text of the result is the text of (one member of) its pre-image with every resolved mention rewritten to
// the alias of the mention's image and nothing else changed; unique aliases with the right letter; operands unchanged;
// refused operations change nothing; for fully correct operands and like-with-like tables the result is fully correct and
// every image keeps its typification up to the identification of the equated sets.
#include "common/pbt.hpp"
#include "model/schemagen_ops.hpp"

#include "ccl/ops/RSOperations.h"
#include "ccl/tools/EntityGenerator.h"

#include <tuple>

using ccl::EntityTranslation;
using ccl::EntityUID;
using ccl::ops::BinarySynthes;
using ccl::ops::Equation;
using ccl::ops::EquationOptions;
using ccl::semantic::CstType;
using ccl::semantic::ParsingStatus;
using ccl::semantic::RSForm;
using pbt::Ctx;
using pbt::Verdict;
using sgen::Row;
using sgen::Snap;
using sgen::Spec;

namespace {

#define CHECK(cond, oracle, msg) do { if (!(cond)) return pbt::fail(oracle, msg); } while (0)
#define TRY(expr) do { const Verdict v__ = (expr); if (v__.kind != Verdict::PASS) return v__; } while (0)

const char* const kKnownDupChain = "duplicate-chain-translation";
const char* const kKnownSelfMention = "merge-self-mention-retranslated";
const char* const kKnownBaseWithElement = "equate-base-with-non-set";
const char* const kKnownCyclic = "equate-cyclic-identification-hangs";

bool isRSObject(CstType t) { return t == CstType::base || t == CstType::constant || t == CstType::structured || t == CstType::term; }
bool isBaseSet(CstType t) { return t == CstType::base || t == CstType::constant; }
bool isBaseNotion(CstType t) { return isBaseSet(t) || t == CstType::structured; }
const char* kindName(CstType t) {
  switch (t) { case CstType::base: return "base"; case CstType::constant: return "constant"; case CstType::structured: return "structure"; case CstType::term: return "term";
    case CstType::axiom: return "axiom"; case CstType::function: return "function"; default: return "other"; }
}

// ---------------------------------------------------------------------------------------------------------------
// views: an operand snapshot + the image of each of its constituents in the result
struct View {
  const Snap* sn{nullptr};
  std::map<EntityUID, EntityUID> img;
  std::string name;
};
using Member = std::pair<int, EntityUID>;  // (view index, uid in that operand)
struct Groups {  // classes of constituents identified by the equation table
  std::map<Member, int> of;
  std::vector<std::vector<Member>> members;
  std::vector<std::vector<std::string>> newTerms;  // createNew arguments of the equations of the class
  int add(const Member& m) { if (auto it = of.find(m); it != of.end()) return it->second; of[m] = static_cast<int>(members.size()); members.push_back({m}); newTerms.emplace_back(); return of[m]; }
  void join(const Member& a, const Member& b, const std::string* newTerm) {
    int ga = add(a), gb = add(b);
    if (ga != gb) {
      for (auto& m : members[static_cast<size_t>(gb)]) { of[m] = ga; members[static_cast<size_t>(ga)].push_back(m); }
      for (auto& t : newTerms[static_cast<size_t>(gb)]) newTerms[static_cast<size_t>(ga)].push_back(t);
      members[static_cast<size_t>(gb)].clear(); newTerms[static_cast<size_t>(gb)].clear();
    }
    if (newTerm) newTerms[static_cast<size_t>(ga)].push_back(*newTerm);
  }
};

std::string trStr(const EntityTranslation& t) { std::map<EntityUID, EntityUID> m(t.begin(), t.end()); std::string o = "{"; for (auto& [k, v] : m) o += std::to_string(k) + "->" + std::to_string(v) + " "; return o + "}"; }

// The listed finding "duplicate-chain-translation": DeleteDuplicates records copy -> original and may erase that original
// later as a copy of a third constituent, leaving the recorded image dangling.  A dangling image v belongs to that class
// exactly when v is itself a constituent that was translated on (a key of the translation that does not map to itself).
// every text of every operand constituent against its image
// `mergedIn`: index of the view whose constituents were inserted by MergeWith (-1: none) - see the listed finding below
Verdict checkStructure(Ctx& c, const std::vector<View>& views, const Snap& res, const Groups& groups, const std::string& what, int mergedIn = -1) {
  CHECK(!res.aliasClash, what + "-aliases", "two constituents of the result share an alias: " + res.str());
  for (const auto& r : res.rows) CHECK(r.alias.size() >= 2 && r.alias[0] == sgen::letterOf(r.type), what + "-aliases", "alias letter does not match the kind: " + r.str());
  std::set<EntityUID> covered;
  for (size_t vi = 0; vi < views.size(); ++vi) {
    const View& v = views[vi];
    for (const auto& o : v.sn->rows) {
      const Row* r = res.find(v.img.at(o.uid));
      covered.insert(r->uid);
      std::vector<Member> members{{static_cast<int>(vi), o.uid}};
      const std::vector<std::string>* newTerms = nullptr;
      if (auto it = groups.of.find(members[0]); it != groups.of.end()) { members = groups.members[static_cast<size_t>(it->second)]; newTerms = &groups.newTerms[static_cast<size_t>(it->second)]; }
      const std::string at = v.name + " " + o.str() + " -> result " + r->str();
      bool kindOk = false;
      for (const auto& m : members) kindOk = kindOk || views[static_cast<size_t>(m.first)].sn->find(m.second)->type == r->type;
      CHECK(kindOk, what + "-kind", "image has another kind; " + at);
      for (int f = 0; f < 4; ++f) {
        bool ok = false; std::string firstMsg; int wildOfOk = 0;
        for (const auto& m : members) {
          const View& mv = views[static_cast<size_t>(m.first)];
          const Row* mo = mv.sn->find(m.second);
          int wild = 0;
          auto expect = [&](const std::string& a) -> std::optional<std::string> {
            const Row* t = mv.sn->findAlias(a);
            if (t == nullptr) return std::nullopt;
            return res.find(mv.img.at(t->uid))->alias;
          };
          const auto mm = sgen::rewriteMismatch(sgen::splitField(sgen::fieldOf(*mo, f), f), sgen::splitField(sgen::fieldOf(*r, f), f), expect, &wild);
          if (mm.empty()) { ok = true; wildOfOk = wild; break; }
          if (firstMsg.empty() || (m.first == static_cast<int>(vi) && m.second == o.uid)) firstMsg = mm;
        }
        if (!ok && f == sgen::F_TERM && newTerms) for (const auto& t : *newTerms) ok = ok || r->term == t;
        if (!ok && pbt::known(kKnownSelfMention) && mergedIn >= 0) {
          // listed finding: a merged-in constituent that mentions itself gets its own (already renamed) alias translated a
          // second time when aliases of the two schemas collide
          for (const auto& m : members) {
            if (m.first != mergedIn) continue;
            const Row* mo = views[static_cast<size_t>(m.first)].sn->find(m.second);
            bool self = false;
            for (const auto& a : sgen::aliasesOf(sgen::splitField(sgen::fieldOf(*mo, f), f))) self = self || a == mo->alias;
            bool collision = false;  // renaming starts with any alias taken in the target (later copies collide with earlier ones)
            for (size_t w = 0; w < views.size(); ++w) if (static_cast<int>(w) != mergedIn) for (const auto& tr : views[w].sn->rows) collision = collision || views[static_cast<size_t>(mergedIn)].sn->findAlias(tr.alias) != nullptr;
            if (self && collision) return pbt::excluded(kKnownSelfMention);
          }
        }
        CHECK(ok, what + (f == sgen::F_DEF ? "-definition" : f == sgen::F_CONV ? "-convention" : "-texts"),
              std::string(sgen::fieldName(f)) + " of the image is not the rewritten " + sgen::fieldName(f) + " of " + (members.size() > 1 ? "any member of its equated class" : "its pre-image") + ": " + firstMsg + "; " + at);
        if (wildOfOk) c.count("unconstrained:unresolved-mention", wildOfOk);
      }
    }
  }
  for (const auto& r : res.rows) CHECK(covered.count(r.uid), what + "-extra", "result constituent " + r.str() + " is the image of no operand constituent");
  return pbt::pass();
}

// fully correct operands + like-with-like table: the result is fully correct, typifications kept up to identification
Verdict checkTypes(Ctx& c, const std::vector<View>& views, const Snap& res, const std::string& what) {
  for (const auto& r : res.rows) CHECK(r.status == ParsingStatus::VERIFIED, what + "-correctness", "operands fully correct and table like-with-like, but " + r.str() + " of the result is not verified; result: " + res.str());
  for (const auto& v : views)
    for (const auto& o : v.sn->rows) {
      const Row* r = res.find(v.img.at(o.uid));
      const std::string at = v.name + " " + o.str() + " : " + (o.logic ? "LOGIC" : o.typ) + " -> result " + r->str() + " : " + (r->logic ? "LOGIC" : r->typ);
      CHECK(o.typed == r->typed && o.logic == r->logic, what + "-typification", "typed/logic flag of the image differs; " + at);
      auto expect = [&](const std::string& a) -> std::optional<std::string> {
        const Row* t = v.sn->findAlias(a);
        if (t == nullptr) return a + "?";
        return res.find(v.img.at(t->uid))->alias;
      };
      CHECK(sgen::rewriteMismatch(sgen::splitFormal(o.typ), sgen::splitFormal(r->typ), expect).empty(), what + "-typification", "typification not kept up to the identification of sets; " + at);
      CHECK(sgen::rewriteMismatch(sgen::splitFormal(o.args), sgen::splitFormal(r->args), expect).empty(), what + "-typification", "argument types not kept (" + o.args + " vs " + r->args + "); " + at);
      c.count("checked:typification");
    }
  return pbt::pass();
}

// typification of two constituents equal after identifying the equated constituents (tokens resolved to (view, uid))
bool typEqualUnder(const Snap& sa, int va, const Row& a, const Snap& sb, int vb, const Row& b, const std::map<Member, Member>& eq) {
  const auto ta = sgen::splitFormal(a.typ), tb = sgen::splitFormal(b.typ);
  if (ta.size() != tb.size()) return false;
  auto norm = [&](const Snap& sn, int v, const std::string& alias) -> Member {
    const Row* t = sn.findAlias(alias);
    Member m{v, t ? t->uid : 0};
    if (auto it = eq.find(m); it != eq.end()) m = it->second;
    return m;
  };
  for (size_t i = 0; i < ta.size(); ++i) {
    if (ta[i].alias != tb[i].alias) return false;
    if (!ta[i].alias) { if (ta[i].s != tb[i].s) return false; continue; }
    if (norm(sa, va, ta[i].s) != norm(sb, vb, tb[i].s)) return false;
  }
  return true;
}

// ---------------------------------------------------------------------------------------------------------------
// generation of the second operand and of equation tables
struct Eq { int k{0}, v{0}; int mode{1}; std::string arg; int ghost{0}; };  // ghost: 1 unknown key, 2 unknown value

struct Second {
  int mode{0};  // 0 independent, 1 variant of the first, 2 copy of the first object then edited (shared identifiers), 3 the same object
  Spec spec;
  size_t common{0};                 // modes 1,2: items [0, common) exist in the first operand
  std::set<int> changed;            // modes 1,2: indices < common whose content differs
  std::vector<sgen::Move> extraMoves;
};

Second genSecond(Ctx& c, const Spec& first, const sgen::GenOpts& o) {
  Second s;
  s.mode = c.ipick(0, 9);
  s.mode = s.mode < 4 ? 0 : s.mode < 7 ? 1 : s.mode < 9 ? 2 : 3;
  if (s.mode == 0) { s.spec = sgen::genSpec(c, o); return s; }
  s.spec = first; s.common = first.items.size();
  if (s.mode == 3) return s;
  const int nMut = c.ipick(0, 3);
  for (int q = 0; q < nMut; ++q) {
    const int n = static_cast<int>(s.spec.items.size());
    const int kind = c.ipick(0, 2);
    if (kind == 0) {  // redefine a derived constituent
      std::vector<int> rest;
      for (int i = 0; i < n; ++i) if (!isBaseNotion(s.spec.items[static_cast<size_t>(i)].type)) rest.push_back(i);
      if (rest.empty()) continue;
      const int idx = rest[static_cast<size_t>(c.ipick(0, static_cast<int>(rest.size()) - 1))];
      std::vector<std::string> later;
      for (int i : rest) if (i != idx) later.push_back(s.spec.items[static_cast<size_t>(i)].alias);
      sgen::genDefinition(c, s.spec.items[static_cast<size_t>(idx)], sgen::detail::poolOf(s.spec, idx), later, o);
      if (idx < static_cast<int>(s.common)) s.changed.insert(idx);
    } else if (kind == 1) {  // other texts
      const int idx = c.ipick(0, n - 1);
      sgen::genTexts(c, s.spec, static_cast<size_t>(idx));
      if (idx < static_cast<int>(s.common)) s.changed.insert(idx);
    } else {  // append
      sgen::Item it;
      const int k = c.ipick(0, 9);
      it.type = k < 5 ? CstType::term : k < 7 ? CstType::base : k < 8 ? CstType::structured : k < 9 ? CstType::axiom : CstType::function;
      it.alias = sgen::nextAlias(s.spec, it.type);
      if (it.type == CstType::base) { it.sort = 1; it.b1 = it.alias; }
      else if (it.type == CstType::structured) { it.b1 = "X1"; it.def = "ℬ(X1)"; it.sort = 1; }
      else sgen::genDefinition(c, it, sgen::detail::poolOf(s.spec), {}, o);
      s.spec.items.push_back(it);
      sgen::genTexts(c, s.spec, s.spec.items.size() - 1);
    }
  }
  const int nM = c.ipick(0, 2);
  for (int i = 0; i < nM; ++i) { sgen::Move m; m.what = c.ipick(0, static_cast<int>(s.spec.items.size()) - 1); m.where = c.ipick(0, static_cast<int>(s.spec.items.size())); s.extraMoves.push_back(m); }
  return s;
}

// builds the second operand; returns the object to use (may be `first` itself in mode 3)
bool buildSecond(const Second& s, RSForm& first, const std::vector<EntityUID>& uids1, std::unique_ptr<RSForm>& holder, RSForm*& second, std::vector<EntityUID>& uids2) {
  if (s.mode == 3) { second = &first; uids2 = uids1; return true; }
  if (s.mode == 2) {
    holder = std::make_unique<RSForm>(first);
    uids2 = uids1;
    for (int idx : s.changed) {
      const auto& it = s.spec.items[static_cast<size_t>(idx)];
      const auto uid = uids2[static_cast<size_t>(idx)];
      holder->SetExpressionFor(uid, it.def);
      holder->SetConventionFor(uid, it.conv);
      holder->SetTermFor(uid, it.term);
      holder->SetDefinitionFor(uid, it.text);
    }
    for (size_t i = s.common; i < s.spec.items.size(); ++i) {
      const auto& it = s.spec.items[i];
      const auto uid = holder->Emplace(it.type, it.def);
      if (holder->GetRS(uid).alias != it.alias) return false;
      sgen::applyTexts(*holder, uid, it);
      uids2.push_back(uid);
    }
    sgen::applyMoves(*holder, s.extraMoves, uids2);
    holder->UpdateState();
    second = holder.get();
    return true;
  }
  holder = std::make_unique<RSForm>();
  Spec sp = s.spec;
  for (auto& m : s.extraMoves) sp.moves.push_back(m);
  if (!sgen::build(*holder, sp, uids2)) return false;
  second = holder.get();
  return true;
}

// candidate pairs (k in a, v in b) of one kind with matching generator-side sorts; adds the base equations they need
std::vector<Eq> genTable(Ctx& c, const Spec& a, const Spec& b, bool sameSchema, int minEq = 0) {
  std::vector<Eq> table;
  std::map<int, int> used;  // key index -> value index
  auto modeOf = [&](Eq& e) { e.mode = c.ipick(1, 3); if (e.mode == 3) e.arg = "nt" + std::to_string(c.ipick(1, 2)); };
  auto add = [&](int k, int v) { if (used.count(k)) return used[k] == v; if (sameSchema && k == v) return false; Eq e; e.k = k; e.v = v; modeOf(e); table.push_back(e); used[k] = v; return true; };
  const int na = static_cast<int>(a.items.size()), nb = static_cast<int>(b.items.size());
  const int nEq = c.ipick(minEq, 3);
  const bool coherent = c.ipick(0, 9) < 7;
  for (int q = 0; q < nEq; ++q) {
    if (!coherent) {
      Eq e; e.k = c.ipick(0, na - 1); e.v = c.ipick(0, nb - 1); modeOf(e);
      if (sgen::rare(c, 10)) e.ghost = c.ipick(1, 2);
      if (!used.count(e.k)) { used[e.k] = e.v; table.push_back(e); }
      continue;
    }
    const int what = c.ipick(0, 9);  // 0-3 base pair, 4 constant pair, 5-9 derived pair (+ the base pairs it needs)
    auto ofKind = [](const Spec& s, CstType t, int sort) { std::vector<int> r; for (size_t i = 0; i < s.items.size(); ++i) if (s.items[i].type == t && (sort < 0 || s.items[i].sort == sort)) r.push_back(static_cast<int>(i)); return r; };
    auto choose = [&](const std::vector<int>& v) { return v[static_cast<size_t>(c.ipick(0, static_cast<int>(v.size()) - 1))]; };
    if (what < 5) {
      const auto t = what < 4 ? CstType::base : CstType::constant;
      const auto ka = ofKind(a, t, -1), kb = ofKind(b, t, -1);
      if (ka.empty() || kb.empty()) continue;
      add(choose(ka), choose(kb));
      continue;
    }
    const auto t = c.coin() ? CstType::structured : CstType::term;
    std::vector<int> ka;
    for (int s : {1, 2}) for (int i : ofKind(a, t, s)) ka.push_back(i);
    if (ka.empty()) continue;
    const int k = choose(ka);
    const auto kb = ofKind(b, t, a.items[static_cast<size_t>(k)].sort);
    if (kb.empty()) continue;
    const int v = choose(kb);
    const auto& ik = a.items[static_cast<size_t>(k)]; const auto& iv = b.items[static_cast<size_t>(v)];
    bool ok = true;
    for (int side = 0; side < (ik.sort == 2 ? 2 : 1) && ok; ++side) {
      const auto& bk = side == 0 ? ik.b1 : ik.b2; const auto& bv = side == 0 ? iv.b1 : iv.b2;
      const int xk = a.indexOfAlias(bk), xv = b.indexOfAlias(bv);
      if (xk < 0 || xv < 0) { ok = false; break; }
      if (sameSchema && xk == xv) continue;  // same base set: nothing to identify
      if (a.items[static_cast<size_t>(xk)].type != b.items[static_cast<size_t>(xv)].type) { ok = false; break; }
      ok = add(xk, xv);
    }
    if (ok) add(k, v);
  }
  if (static_cast<int>(table.size()) < minEq) {  // the coherent attempts found nothing: any pair
    Eq e; e.k = c.ipick(0, na - 1); e.v = c.ipick(0, nb - 1); modeOf(e);
    if (!used.count(e.k)) table.push_back(e);
  }
  return table;
}

std::string eqStr(const std::vector<Eq>& table, const Spec& a, const Spec& b) {
  std::string o;
  static const char* modes[] = {"?", "keepHier", "keepDel", "createNew"};
  for (const auto& e : table) {
    o += " " + (e.ghost == 1 ? std::string("<unknown>") : a.items[static_cast<size_t>(e.k)].alias) + "~" + (e.ghost == 2 ? std::string("<unknown>") : b.items[static_cast<size_t>(e.v)].alias) + ":" + modes[e.mode];
    if (e.mode == 3) o += "(" + e.arg + ")";
  }
  return o.empty() ? " (empty)" : o;
}

EntityUID ghostUid(const Snap& a, const Snap& b) { EntityUID g = 55; while (a.byUid.count(g) || b.byUid.count(g)) ++g; return g; }

// does some other constituent of the snapshot mention `uid` in any text?
bool hasDependant(const Snap& sn, EntityUID uid) {
  for (const auto& r : sn.rows) if (r.uid != uid && sgen::mentions(sn, r, {sgen::F_DEF, sgen::F_CONV, sgen::F_TERM, sgen::F_TEXT}).count(uid)) return true;
  return false;
}
bool aliasCollision(const Snap& a, const Snap& b) { for (const auto& r : a.rows) if (b.byAlias.count(r.alias)) return true; return false; }

struct TableFacts {
  bool valid{true};        // every key / value exists where it must
  bool rsObjects{true};    // all members are X / C / S / D
  bool like{true};         // every pair joins one kind, S/D pairs typed, equal typification under the table, equal value class
  bool basePairsLike{true};// every pair with a base-set member joins base with base or constant with constant
  bool typeClash{false};   // some same-kind S/D pair of typed constituents has unequal typification (decidable: basePairsLike)
  bool untyped{false};     // some member has no type
  std::map<Member, Member> eq;
};
TableFacts analyse(const std::vector<std::tuple<const Row*, const Row*>>& pairs, const Snap& sa, int va, const Snap& sb, int vb) {
  TableFacts f;
  for (const auto& [k, v] : pairs) {
    if (k == nullptr || v == nullptr) { f.valid = false; continue; }
    f.eq[{va, k->uid}] = {vb, v->uid};
    if (!isRSObject(k->type) || !isRSObject(v->type)) f.rsObjects = false;
    if (!k->typed || !v->typed) f.untyped = true;
    if ((isBaseSet(k->type) || isBaseSet(v->type)) && k->type != v->type) f.basePairsLike = false;
    if (k->type != v->type) f.like = false;
  }
  if (!f.valid || !f.rsObjects) { f.like = false; return f; }
  for (const auto& [k, v] : pairs) {
    if (k->type != v->type || isBaseSet(k->type)) continue;
    if (!k->typed || !v->typed || k->logic || v->logic) { f.like = false; continue; }
    if (!typEqualUnder(sa, va, *k, sb, vb, *v, f.eq)) { f.like = false; if (f.basePairsLike) f.typeClash = true; }
    if (k->vclass != v->vclass) f.like = false;
  }
  return f;
}

// input class of the listed finding "equate-base-with-non-set": a base set is equated with a structure / term whose
// typification is not a set, and another (non-basic) pair has a member whose typification mentions that base set
bool baseWithNonSetClass(const std::vector<std::tuple<const Row*, const Row*>>& pairs, const Snap& sa, const Snap& sb) {
  auto mentionsAlias = [](const Row& r, const std::string& alias) { for (const auto& a : sgen::aliasesOf(sgen::splitFormal(r.typ))) if (a == alias) return true; return false; };
  for (const auto& [k, v] : pairs) {
    if (!k || !v) continue;
    for (int side = 0; side < 2; ++side) {
      const Row* b = side == 0 ? k : v; const Row* o = side == 0 ? v : k;
      const Snap* bs = side == 0 ? &sa : &sb;
      if (!isBaseSet(b->type) || isBaseSet(o->type) || !o->typed || o->logic || o->typ.rfind("ℬ", 0) == 0) continue;
      for (const auto& [k2, v2] : pairs) {
        if (!k2 || !v2 || k2 == k || isBaseSet(k2->type) || isBaseSet(v2->type)) continue;
        if ((&sa == bs && k2->typed && mentionsAlias(*k2, b->alias)) || (&sb == bs && v2->typed && mentionsAlias(*v2, b->alias))) return true;
      }
    }
  }
  return false;
}

// BinarySynthes turns a pair round when the key is derived and the value basic (documented by upstream's
// EquationFlippingTransitions); inside one schema pairs are taken as given
bool swappedBySynthesis(const Row& k, const Row& v) { return k.type != v.type && !isBaseSet(k.type) && isBaseNotion(v.type); }

// pairs that replace a base set by a derived constituent: the only ones whose substitution can feed itself
bool hasBaseToDerivedPair(const std::vector<std::tuple<const Row*, const Row*>>& pairs, bool synthesis) {
  bool cross = false, nonBasic = false;
  for (const auto& [k, v] : pairs) {
    if (!k || !v) continue;
    const bool sw = synthesis && swappedBySynthesis(*k, *v);
    const Row* a = sw ? v : k; const Row* b = sw ? k : v;
    if (isBaseSet(a->type) && !isBaseSet(b->type)) cross = true;
    if (!isBaseSet(a->type) && !isBaseSet(b->type)) nonBasic = true;
  }
  return cross && nonBasic;
}
// input class of the listed finding "equate-cyclic-identification-hangs": following  base set -> base sets in the
// typification of the constituent it is equated with  leads round in a circle, and some non-basic pair has to be type-checked
bool cyclicIdentificationClass(const std::vector<std::tuple<const Row*, const Row*>>& pairs, const Snap& sa, int va, const Snap& sb, int vb, bool synthesis) {
  if (!hasBaseToDerivedPair(pairs, synthesis)) return false;
  std::map<Member, std::set<Member>> edges;
  for (const auto& [k, v] : pairs) {
    if (!k || !v) continue;
    const bool sw = synthesis && swappedBySynthesis(*k, *v);
    const Row* a = sw ? v : k; const Row* b = sw ? k : v;
    const Snap& bsn = sw ? sa : sb; const int av = sw ? vb : va, bv = sw ? va : vb;
    if (!isBaseSet(a->type) || !b->typed || b->logic) continue;
    for (const auto& t : sgen::aliasesOf(sgen::splitFormal(b->typ))) if (const Row* r = bsn.findAlias(t); r != nullptr) edges[{av, a->uid}].insert({bv, r->uid});
  }
  for (const auto& [start, unused] : edges) {
    std::set<Member> seen; std::vector<Member> todo{start};
    while (!todo.empty()) {
      const auto m = todo.back(); todo.pop_back();
      if (auto it = edges.find(m); it != edges.end()) for (const auto& n : it->second) { if (n == start) return true; if (seen.insert(n).second) todo.push_back(n); }
    }
  }
  return false;
}

// ---------------------------------------------------------------------------------------------------------------
// synthesis
Verdict propSynthesis(Ctx& c) {
  const uint64_t idSeed = static_cast<uint64_t>(c.pick(0, 9999));
  sgen::GenOpts o;
  const Spec sp1 = sgen::genSpec(c, o);
  const Second sec = genSecond(c, sp1, o);
  const auto table = genTable(c, sp1, sec.spec, false);
  static const char* modeNames[] = {"independent", "variant", "copy-shared-uids", "same-object"};
  c.show << "synthesis ids=" << idSeed << "\n operand1:\n" << sp1.str("   ") << " operand2 (" << modeNames[sec.mode] << "):\n" << sec.spec.str("   ");
  if (!sec.extraMoves.empty()) { c.show << "   extra moves:"; for (auto& m : sec.extraMoves) c.show << " " << m.what << "<" << m.where; c.show << "\n"; }
  c.show << " table:" << eqStr(table, sp1, sec.spec);
  sgen::debugShow(c);
  c.exec();
  ccl::tools::EntityGenerator::VerifSeed(idSeed * 7919ULL + 29ULL);

  RSForm s1; std::vector<EntityUID> uids1, uids2;
  if (!sgen::build(s1, sp1, uids1)) return pbt::discard("alias prediction failed");
  std::unique_ptr<RSForm> holder; RSForm* s2 = nullptr;
  if (!buildSecond(sec, s1, uids1, holder, s2, uids2)) return pbt::discard("alias prediction failed");
  const Snap b1 = sgen::snapshot(s1), b2 = sgen::snapshot(*s2);

  EquationOptions opts;
  std::vector<std::tuple<const Row*, const Row*>> pairs;
  std::vector<const Eq*> eqOf;
  const EntityUID ghost = ghostUid(b1, b2);
  bool valueAlsoKey = false, manyToOne = false;
  { std::set<EntityUID> keys, vals; for (const auto& e : table) { keys.insert(uids1[static_cast<size_t>(e.k)]); if (!vals.insert(uids2[static_cast<size_t>(e.v)]).second) manyToOne = true; } for (auto v : vals) valueAlsoKey = valueAlsoKey || keys.count(v); }
  for (const auto& e : table) {
    const EntityUID k = e.ghost == 1 ? ghost : uids1[static_cast<size_t>(e.k)], v = e.ghost == 2 ? ghost : uids2[static_cast<size_t>(e.v)];
    if (opts.ContainsKey(k)) continue;
    opts.Insert(k, v, Equation{static_cast<Equation::Mode>(e.mode), e.arg});
    pairs.emplace_back(b1.find(k), b2.find(v)); eqOf.push_back(&e);
  }
  const TableFacts facts = analyse(pairs, b1, 0, b2, 1);
  const bool unresolvedAny = sgen::hasUnresolved(b1) || sgen::hasUnresolved(b2);  // a missing name of one operand may be captured by the other

  if (pbt::known(kKnownBaseWithElement) && baseWithNonSetClass(pairs, b1, b2)) return pbt::excluded(kKnownBaseWithElement);
  if (pbt::known(kKnownCyclic) && cyclicIdentificationClass(pairs, b1, 0, b2, 1, true)) return pbt::excluded(kKnownCyclic);
  if (hasBaseToDerivedPair(pairs, true)) {  // termination guard: a table that replaces base sets by derived constituents is probed in a child first
    const auto probe = pbt::inChild([&] { BinarySynthes trial(s1, *s2, opts); return pbt::pass(); }, 4);
    if (probe.status == pbt::ChildResult::STARVED) return pbt::discard("termination probe starved of CPU");
    if (probe.status == pbt::ChildResult::TIMEOUT) return pbt::fail("admissibility-check-hangs", "the BinarySynthes constructor (IsEquatable) did not return within 4 s of CPU time");
    c.count("checked:termination-probe");
  }

  BinarySynthes op(s1, *s2, opts);
  const bool defined = op.IsCorrectlyDefined();
  auto result = op.Execute();
  CHECK(sgen::snapshot(s1).json == b1.json, "operand-changed", "operand 1 changed");
  CHECK(sgen::snapshot(*s2).json == b2.json, "operand-changed", "operand 2 changed");
  if (!defined) CHECK(result == nullptr, "refused-result", "IsCorrectlyDefined()==false but Execute() returned a schema");
  else CHECK(result != nullptr, "accepted-null", "IsCorrectlyDefined()==true but Execute() returned nullptr");

  const bool bothCorrect = b1.fullyCorrect() && b2.fullyCorrect();
  const bool collision = aliasCollision(b1, b2);
  bool dependant = false;
  for (const auto& [k, v] : pairs) { if (k) dependant = dependant || hasDependant(b1, k->uid); if (v) dependant = dependant || hasDependant(b2, v->uid); }
  c.nontrivial = (!pairs.empty() && dependant) || collision;
  c.label(std::string("synthesis:operand2:") + modeNames[sec.mode]);
  c.label(bothCorrect ? "synthesis:operands-fully-correct" : "synthesis:operands-partially-incorrect");
  c.label(pairs.empty() ? "synthesis:table-empty" : defined ? "synthesis:table-accepted" : "synthesis:table-refused");
  if (collision) c.label("synthesis:alias-collision");
  if (valueAlsoKey) c.label("synthesis:table-value-is-also-a-key");
  if (manyToOne) c.label("synthesis:table-many-to-one");
  for (const auto& [k, v] : pairs) if (k && v) c.label(std::string("synthesis:pair:") + kindName(k->type) + "~" + kindName(v->type) + (defined ? ":accepted" : ":refused"));
  for (const auto& e : table) c.label(std::string("synthesis:text-mode:") + (e.mode == 1 ? "keepHier" : e.mode == 2 ? "keepDel" : "createNew"));

  // admissibility, as far as upstream's tests document it
  if (!pairs.empty()) {
    if (!facts.valid || !facts.rsObjects || (facts.untyped && !unresolvedAny) || facts.typeClash)
      CHECK(!defined, "admissibility", std::string("inadmissible table accepted: ") + (!facts.valid ? "unknown identifier" : !facts.rsObjects ? "axiom / function member" : facts.typeClash ? "typifications differ" : "untyped member"));
    else if (bothCorrect && facts.like && !unresolvedAny)
      CHECK(defined, "admissibility", "like-with-like table over fully correct operands refused");
    else if (!defined) c.count("unconstrained:refusal-not-decided-by-the-model");
  } else CHECK(defined, "admissibility", "empty table (plain merge) refused");
  if (!defined) return pbt::pass();

  const Snap res = sgen::snapshot(*result);
  const auto& trs = op.Translations();
  CHECK(trs.size() == 2, "translations", "Translations() has " + std::to_string(trs.size()) + " entries");
  std::vector<View> views{{&b1, {}, "operand1"}, {&b2, {}, "operand2"}};
  for (int vi = 0; vi < 2; ++vi) {
    const auto& tr = trs[static_cast<size_t>(vi)]; View& v = views[static_cast<size_t>(vi)];
    for (const auto& r : v.sn->rows) {
      CHECK(tr.ContainsKey(r.uid), "translation-total", v.name + " constituent " + r.str() + " has no image in translation " + trStr(tr));
      const auto img = tr(r.uid);
      if (res.find(img) == nullptr) {
        bool chain = false;  // v is (the unchanged identifier of) an operand constituent that was itself translated on
        for (int vj = 0; vj < 2; ++vj) { const auto& tj = trs[static_cast<size_t>(vj)]; if (views[static_cast<size_t>(vj)].sn->find(img) != nullptr && tj.ContainsKey(img) && tj(img) != img) chain = true; }
        // operand-2 copies get fresh identifiers when the operands share identifiers: the chain cannot be observed then
        const bool unobservable = sec.mode >= 2 && b1.find(img) == nullptr && b2.find(img) == nullptr && res.rows.size() < b1.rows.size() + b2.rows.size() - pairs.size();
        if (pbt::known(kKnownDupChain) && (chain || unobservable)) return pbt::excluded(kKnownDupChain);
        return pbt::fail("translation-dangling", v.name + " constituent " + r.str() + " is mapped to " + std::to_string(img) + " which is not in the result " + res.str());
      }
      v.img[r.uid] = img;
    }
    CHECK(tr.size() == v.sn->rows.size(), "translation-total", v.name + " translation has " + std::to_string(tr.size()) + " entries for " + std::to_string(v.sn->rows.size()) + " constituents");
  }
  Groups groups;
  for (size_t i = 0; i < pairs.size(); ++i) {
    const auto& [k, v] = pairs[i];
    CHECK(views[0].img.at(k->uid) == views[1].img.at(v->uid), "one-survivor", "equated " + k->str() + " ~ " + v->str() + " map to different constituents");
    groups.join({0, k->uid}, {1, v->uid}, eqOf[i]->mode == 3 ? &eqOf[i]->arg : nullptr);
  }
  TRY(checkStructure(c, views, res, groups, "synthesis", 1));
  if (res.rows.size() < b1.rows.size() + (sec.mode == 3 ? 0 : b2.rows.size()) - pairs.size()) c.label("synthesis:duplicates-removed");
  if (bothCorrect && (pairs.empty() || facts.like)) { c.label("synthesis:typification-checked"); TRY(checkTypes(c, views, res, "synthesis")); }
  else c.count("unconstrained:correctness-of-result(operands incorrect or table not like-with-like)");
  return pbt::pass();
}

// ---------------------------------------------------------------------------------------------------------------
// equation inside one schema
Spec withDuplicates(Ctx& c, Spec sp, int maxDup, bool& triple) {
  const int nDup = c.ipick(0, maxDup);
  const int nOrig = static_cast<int>(sp.items.size());
  std::map<int, int> times;
  for (int q = 0; q < nDup; ++q) {
    int src = c.ipick(0, nOrig - 1);
    if (times.count(src) && !sgen::rare(c, 4)) { for (int t = 0; t < nOrig && times.count(src); ++t) src = (src + 1) % nOrig; }  // mostly distinct sources; three mutual duplicates stay possible
    sgen::Item it = sp.items[static_cast<size_t>(src)];
    if (it.def.empty() && it.conv.empty() && it.term.empty() && it.text.empty()) { it.term = "t1"; sp.items[static_cast<size_t>(src)].term = "t1"; }
    it.alias = sgen::nextAlias(sp, it.type);
    sp.items.push_back(it);
    if (++times[src] >= 2) triple = true;
    // a dependant of the copy: its mentions must be rewritten when the copy is removed
    const int dep = c.ipick(0, 3);
    if (dep == 1 && it.sort == 1) { sgen::Item d; d.type = CstType::term; d.alias = sgen::nextAlias(sp, d.type); d.def = it.alias + (c.coin() ? "∪" + sp.items[static_cast<size_t>(src)].alias : std::string()); d.sort = 1; d.b1 = it.b1; sp.items.push_back(d); }
    else if (dep == 2) { sgen::Item d; d.type = CstType::term; d.alias = sgen::nextAlias(sp, d.type); d.def = "X1"; d.conv = "see " + it.alias; d.text = "about " + sgen::genRefTo(it.alias); d.sort = 1; d.b1 = "X1"; sp.items.push_back(d); }
  }
  return sp;
}

// one Equate of `table` (resolved identifiers) on the schema object `s`, which may have been through earlier equations
struct REq { EntityUID k{}, v{}; int mode{1}; std::string arg; };
Verdict equateRound(Ctx& c, RSForm& s, const std::vector<REq>& table) {
  const Snap before = sgen::snapshot(s);
  EquationOptions opts;
  std::vector<std::tuple<const Row*, const Row*>> pairs;
  std::vector<const REq*> eqOf;
  for (const auto& e : table) {
    if (opts.ContainsKey(e.k)) continue;
    opts.Insert(e.k, e.v, Equation{static_cast<Equation::Mode>(e.mode), e.arg});
    pairs.emplace_back(before.find(e.k), before.find(e.v)); eqOf.push_back(&e);
  }
  const TableFacts facts = analyse(pairs, before, 0, before, 0);
  // model-side facts about dependencies
  bool sameMember = false, chain = false, valueDependsOnKeyByDef = false, valueDependsOnKeyAnyText = false;
  {
    std::set<EntityUID> keys; for (const auto& [k, v] : pairs) if (k) keys.insert(k->uid);
    auto closure = [&](EntityUID from, std::initializer_list<int> fields) { std::set<EntityUID> r{from}; std::vector<EntityUID> todo{from}; while (!todo.empty()) { const auto u = todo.back(); todo.pop_back(); for (auto m : sgen::mentions(before, *before.find(u), fields)) if (r.insert(m).second) todo.push_back(m); } r.erase(from); return r; };
    for (const auto& [k, v] : pairs) {
      if (!k || !v) continue;
      if (k->uid == v->uid) sameMember = true;
      if (keys.count(v->uid)) chain = true;
      if (closure(v->uid, {sgen::F_DEF}).count(k->uid)) valueDependsOnKeyByDef = true;
      if (closure(v->uid, {sgen::F_DEF, sgen::F_CONV, sgen::F_TERM, sgen::F_TEXT}).count(k->uid)) valueDependsOnKeyAnyText = true;
    }
  }
  bool wrongDirection = false;  // derived key with base value, term key with structure value: documented as refused
  for (const auto& [k, v] : pairs) if (k && v && ((!isBaseSet(k->type) && isBaseSet(v->type)) || (!isBaseNotion(k->type) && isBaseNotion(v->type)))) wrongDirection = true;

  if (pbt::known(kKnownBaseWithElement) && baseWithNonSetClass(pairs, before, before)) return pbt::excluded(kKnownBaseWithElement);
  if (pbt::known(kKnownCyclic) && cyclicIdentificationClass(pairs, before, 0, before, 0, false)) return pbt::excluded(kKnownCyclic);
  if (hasBaseToDerivedPair(pairs, false)) {
    const auto probe = pbt::inChild([&] { (void)s.Ops().IsEquatable(opts); return pbt::pass(); }, 4);
    if (probe.status == pbt::ChildResult::STARVED) return pbt::discard("termination probe starved of CPU");
    if (probe.status == pbt::ChildResult::TIMEOUT) return pbt::fail("admissibility-check-hangs", "IsEquatable did not return within 4 s of CPU time");
    c.count("checked:termination-probe");
  }

  const bool equatable = s.Ops().IsEquatable(opts);
  CHECK(sgen::snapshot(s).json == before.json, "refused-changes", "IsEquatable changed the schema");
  const auto tr = s.Ops().Equate(opts);
  CHECK(tr.has_value() == equatable, "equatable-vs-equate", std::string("IsEquatable=") + (equatable ? "true" : "false") + " but Equate " + (tr.has_value() ? "succeeded" : "was refused"));
  const Snap res = sgen::snapshot(s);
  bool dependant = false;
  for (const auto& [k, v] : pairs) if (k) dependant = dependant || hasDependant(before, k->uid);
  c.nontrivial = !pairs.empty() && dependant;
  c.label(pairs.empty() ? "equate:table-empty" : equatable ? "equate:accepted" : "equate:refused");
  c.label(before.fullyCorrect() ? "equate:schema-fully-correct" : "equate:schema-partially-incorrect");
  for (const auto& [k, v] : pairs) if (k && v) c.label(std::string("equate:pair:") + kindName(k->type) + "~" + kindName(v->type) + (equatable ? ":accepted" : ":refused"));
  if (chain) c.label("equate:table-value-is-also-a-key");
  if (valueDependsOnKeyAnyText) c.label("equate:pair-connected-through-dependencies");

  const bool inadmissible = pairs.empty() || !facts.valid || !facts.rsObjects || facts.untyped || sameMember || chain || wrongDirection || valueDependsOnKeyByDef || facts.typeClash;
  if (inadmissible) CHECK(!equatable, "admissibility", std::string("inadmissible table accepted: ") + (pairs.empty() ? "empty" : !facts.valid ? "unknown identifier" : !facts.rsObjects ? "axiom / function member" : facts.untyped ? "untyped member" : sameMember ? "constituent with itself" : chain ? "value is also a key" : wrongDirection ? "derived key with basic value" : valueDependsOnKeyByDef ? "value depends on key" : "typifications differ"));
  else if (before.fullyCorrect() && facts.like && !valueDependsOnKeyAnyText && !sgen::hasUnresolved(before)) CHECK(equatable, "admissibility", "like-with-like table over a fully correct schema refused");
  else if (!equatable) c.count("unconstrained:refusal-not-decided-by-the-model");
  if (!equatable) { CHECK(res.json == before.json, "refused-changes", "refused Equate changed the schema"); return pbt::pass(); }

  View view{&before, {}, "schema"};
  for (const auto& r : before.rows) {
    const EntityUID img = tr->ContainsKey(r.uid) ? (*tr)(r.uid) : r.uid;
    if (res.find(img) == nullptr) {
      if (pbt::known(kKnownDupChain) && before.find(img) != nullptr && tr->ContainsKey(img)) return pbt::excluded(kKnownDupChain);
      return pbt::fail("translation-dangling", "constituent " + r.str() + " is mapped to " + std::to_string(img) + " which is not in the result " + res.str() + "; translation " + trStr(*tr));
    }
    view.img[r.uid] = img;
  }
  for (const auto& [k, v] : *tr) CHECK(before.find(k) != nullptr && res.find(k) == nullptr, "translation-keys", "translation key " + std::to_string(k) + " is not a removed constituent of the schema; " + trStr(*tr));
  Groups groups;
  for (size_t i = 0; i < pairs.size(); ++i) {
    const auto& [k, v] = pairs[i];
    CHECK(view.img.at(k->uid) == view.img.at(v->uid), "one-survivor", "equated " + k->str() + " ~ " + v->str() + " map to different constituents");
    CHECK(res.find(k->uid) == nullptr, "one-survivor", "equated key " + k->str() + " is still present");
    groups.join({0, k->uid}, {0, v->uid}, eqOf[i]->mode == 3 ? &eqOf[i]->arg : nullptr);
  }
  std::vector<View> views{view};
  TRY(checkStructure(c, views, res, groups, "equate"));
  // text modes as documented by upstream's ExecuteSubstituteTerm / ExecuteReverseSubstituteTerm / ExecuteNewTerm (single equation)
  if (pairs.size() == 1) {
    const auto& [k, v] = pairs[0]; const REq& e = *eqOf[0];
    const Row* r = res.find(view.img.at(v->uid));
    auto rewritten = [&](const Row& o, int f) {
      auto expect = [&](const std::string& a) -> std::optional<std::string> { const Row* t = before.findAlias(a); if (!t) return std::nullopt; return res.find(view.img.at(t->uid))->alias; };
      return sgen::rewriteMismatch(sgen::splitField(sgen::fieldOf(o, f), f), sgen::splitField(sgen::fieldOf(*r, f), f), expect).empty();
    };
    const bool termOk = e.mode == 1 ? rewritten(*v, sgen::F_TERM) : e.mode == 2 ? rewritten(*k, sgen::F_TERM) : r->term == e.arg;
    const bool textOk = e.mode == 2 ? rewritten(*k, sgen::F_TEXT) : rewritten(*v, sgen::F_TEXT);
    CHECK(termOk && textOk, "text-mode", std::string("mode ") + (e.mode == 1 ? "keepHier" : e.mode == 2 ? "keepDel" : "createNew") + ": survivor " + r->str() + " from key " + k->str() + " value " + v->str());
    c.count("checked:text-mode");
  }
  if (before.fullyCorrect() && facts.like) { c.label("equate:typification-checked"); TRY(checkTypes(c, views, res, "equate")); }
  else c.count("unconstrained:correctness-of-result(schema incorrect or table not like-with-like)");
  return pbt::pass();
}

Verdict propEquate(Ctx& c) {
  const uint64_t idSeed = static_cast<uint64_t>(c.pick(0, 9999));
  sgen::GenOpts o; o.maxRest = 5;
  bool triple = false;
  const Spec sp = withDuplicates(c, sgen::genSpec(c, o), 2, triple);
  const auto table = genTable(c, sp, sp, true, sgen::rare(c, 12) ? 0 : 1);
  c.show << "equate ids=" << idSeed << "\n" << sp.str("   ") << " table:" << eqStr(table, sp, sp);
  sgen::debugShow(c);
  c.exec();
  ccl::tools::EntityGenerator::VerifSeed(idSeed * 7919ULL + 31ULL);
  RSForm s; std::vector<EntityUID> uids;
  if (!sgen::build(s, sp, uids)) return pbt::discard("alias prediction failed");
  const Snap before0 = sgen::snapshot(s);
  const EntityUID ghost = ghostUid(before0, before0);
  std::vector<REq> resolved;
  for (const auto& e : table) resolved.push_back({e.ghost == 1 ? ghost : uids[static_cast<size_t>(e.k)], e.ghost == 2 ? ghost : uids[static_cast<size_t>(e.v)], e.mode, e.arg});
  return equateRound(c, s, resolved);
}

// Successive equations on ONE schema object: the object owns its equation processor, and every round must behave as
// it would on a fresh copy of the schema (translation of this call only, no identifiers of earlier rounds).
std::vector<REq> genSnapTable(Ctx& c, const Snap& sn) {
  std::vector<REq> t;
  if (sn.rows.size() < 2) return t;
  const int n = c.chance(1, 4) ? 2 : 1;
  for (int i = 0; i < n; ++i) {
    std::vector<const Row*> paired;  // rows that have a like partner listed before them (the usual direction: later ~ earlier)
    for (size_t a = 1; a < sn.rows.size(); ++a) for (size_t b = 0; b < a; ++b) if (sn.rows[a].type == sn.rows[b].type && sn.rows[a].typ == sn.rows[b].typ && sn.rows[a].typed) { paired.push_back(&sn.rows[a]); break; }
    const Row& k = !paired.empty() && !c.chance(1, 6) ? *paired[static_cast<size_t>(c.ipick(0, static_cast<int>(paired.size()) - 1))] : sn.rows[static_cast<size_t>(c.ipick(0, static_cast<int>(sn.rows.size()) - 1))];
    std::vector<const Row*> like;
    for (const auto& r : sn.rows) { if (r.uid == k.uid) break; if (r.type == k.type && r.typ == k.typ) like.push_back(&r); }
    const Row* v = !like.empty() && !c.chance(1, 5) ? like[static_cast<size_t>(c.ipick(0, static_cast<int>(like.size()) - 1))] : &sn.rows[static_cast<size_t>(c.ipick(0, static_cast<int>(sn.rows.size()) - 1))];
    const int mode = c.ipick(1, 3);
    t.push_back({k.uid, v->uid, mode, mode == 3 ? "new term" : ""});
  }
  return t;
}

Verdict propEquateSequence(Ctx& c) {
  const uint64_t idSeed = static_cast<uint64_t>(c.pick(0, 9999));
  sgen::GenOpts o; o.maxRest = 6;
  bool triple = false;
  const Spec sp = withDuplicates(c, sgen::genSpec(c, o), 2, triple);
  c.show << "equate sequence ids=" << idSeed << "\n" << sp.str("   ");
  sgen::debugShow(c);
  c.exec();
  ccl::tools::EntityGenerator::VerifSeed(idSeed * 7919ULL + 31ULL);
  RSForm s; std::vector<EntityUID> uids;
  if (!sgen::build(s, sp, uids)) return pbt::discard("alias prediction failed");
  const int rounds = c.ipick(2, 5);
  int accepted = 0;
  for (int r = 0; r < rounds; ++r) {
    const Snap now = sgen::snapshot(s);
    const auto table = genSnapTable(c, now);
    if (table.empty()) break;
    c.show << "\n round " << r << ":";
    for (const auto& e : table) c.show << " " << now.find(e.k)->alias << "#" << e.k << "~" << now.find(e.v)->alias << "#" << e.v << "/" << e.mode;
    const size_t sizeBefore = now.rows.size();
    TRY(equateRound(c, s, table));
    if (s.List().size() < sizeBefore) { ++accepted; c.label("sequence:accepted-round-" + std::to_string(accepted)); }
  }
  c.nontrivial = accepted >= 2;
  return pbt::pass();
}

// ---------------------------------------------------------------------------------------------------------------
// duplicates
Verdict propDuplicates(Ctx& c) {
  const uint64_t idSeed = static_cast<uint64_t>(c.pick(0, 9999));
  sgen::GenOpts o; o.maxRest = 4;
  bool triple = false;
  const Spec sp = withDuplicates(c, sgen::genSpec(c, o), 3, triple);
  c.show << "duplicates ids=" << idSeed << "\n" << sp.str("   ");
  sgen::debugShow(c);
  c.exec();
  ccl::tools::EntityGenerator::VerifSeed(idSeed * 7919ULL + 37ULL);
  RSForm s; std::vector<EntityUID> uids;
  if (!sgen::build(s, sp, uids)) return pbt::discard("alias prediction failed");
  const Snap before = sgen::snapshot(s);
  const auto tr = s.Ops().DeleteDuplicates();
  const Snap res = sgen::snapshot(s);
  bool dependant = false;
  for (const auto& [k, v] : tr) dependant = dependant || (before.find(k) && hasDependant(before, k));
  c.nontrivial = !tr.empty() && dependant;
  c.label(tr.empty() ? "duplicates:none-removed" : "duplicates:removed:" + std::to_string(std::min<size_t>(tr.size(), 4)));
  if (triple) c.label("duplicates:three-or-more-mutual");
  if (tr.empty()) { CHECK(res.json == before.json, "refused-changes", "DeleteDuplicates removed nothing but changed the schema"); }
  View view{&before, {}, "schema"};
  for (const auto& r : before.rows) {
    const EntityUID img = tr.ContainsKey(r.uid) ? tr(r.uid) : r.uid;
    if (res.find(img) == nullptr) {
      if (pbt::known(kKnownDupChain) && before.find(img) != nullptr && tr.ContainsKey(img)) return pbt::excluded(kKnownDupChain);
      return pbt::fail("translation-dangling", "constituent " + r.str() + " is mapped to " + std::to_string(img) + " which is not in the result " + res.str() + "; translation " + trStr(tr));
    }
    view.img[r.uid] = img;
  }
  for (const auto& [k, v] : tr) CHECK(before.find(k) != nullptr && res.find(k) == nullptr, "translation-keys", "translation key " + std::to_string(k) + " is not a removed constituent; " + trStr(tr));
  std::vector<View> views{view};
  TRY(checkStructure(c, views, res, Groups{}, "duplicates"));
  if (before.fullyCorrect()) { c.label("duplicates:typification-checked"); TRY(checkTypes(c, views, res, "duplicates")); }
  { std::map<std::string, int> left; int remaining = 0; for (const auto& r : res.rows) { if (r.def.empty() && r.conv.empty() && r.term.empty() && r.text.empty()) continue; if (++left[std::to_string(static_cast<int>(r.type)) + "\x1f" + r.def + "\x1f" + r.conv + "\x1f" + r.term + "\x1f" + r.text] == 2) ++remaining; } if (remaining) c.count("unconstrained:identical-constituents-left", remaining); }
  return pbt::pass();
}

// ---------------------------------------------------------------------------------------------------------------
// merge
Verdict propMerge(Ctx& c) {
  const uint64_t idSeed = static_cast<uint64_t>(c.pick(0, 9999));
  sgen::GenOpts o;
  const Spec sp1 = sgen::genSpec(c, o);
  const Second sec = genSecond(c, sp1, o);
  static const char* modeNames[] = {"independent", "variant", "copy-shared-uids", "same-object"};
  c.show << "merge ids=" << idSeed << "\n target:\n" << sp1.str("   ") << " merged-in (" << modeNames[sec.mode] << "):\n" << sec.spec.str("   ");
  sgen::debugShow(c);
  c.exec();
  ccl::tools::EntityGenerator::VerifSeed(idSeed * 7919ULL + 41ULL);
  RSForm s1; std::vector<EntityUID> uids1, uids2;
  if (!sgen::build(s1, sp1, uids1)) return pbt::discard("alias prediction failed");
  std::unique_ptr<RSForm> holder; RSForm* s2 = nullptr;
  if (!buildSecond(sec, s1, uids1, holder, s2, uids2)) return pbt::discard("alias prediction failed");
  const Snap b1 = sgen::snapshot(s1), b2 = sgen::snapshot(*s2);
  const auto tr = s1.Ops().MergeWith(*s2);
  const Snap res = sgen::snapshot(s1);
  if (s2 != &s1) CHECK(sgen::snapshot(*s2).json == b2.json, "operand-changed", "the merged-in schema changed");
  const bool collision = aliasCollision(b1, b2);
  c.nontrivial = collision;
  c.label(std::string("merge:operand2:") + modeNames[sec.mode]);
  if (collision) c.label("merge:alias-collision");
  std::vector<View> views{{&b1, {}, "target"}, {&b2, {}, "merged-in"}};
  for (const auto& r : b1.rows) { CHECK(res.find(r.uid) != nullptr, "merge-target-lost", "target constituent " + r.str() + " disappeared"); views[0].img[r.uid] = r.uid; }
  std::set<EntityUID> images;
  for (const auto& r : b2.rows) {
    CHECK(tr.ContainsKey(r.uid), "translation-total", "merged-in constituent " + r.str() + " has no image in " + trStr(tr));
    CHECK(res.find(tr(r.uid)) != nullptr, "translation-dangling", "merged-in constituent " + r.str() + " is mapped to " + std::to_string(tr(r.uid)) + " which does not exist");
    CHECK(b1.find(tr(r.uid)) == nullptr && images.insert(tr(r.uid)).second, "merge-copies", "image of " + r.str() + " is not a fresh copy of its own");
    views[1].img[r.uid] = tr(r.uid);
  }
  CHECK(tr.size() == b2.rows.size(), "translation-total", "translation has " + std::to_string(tr.size()) + " entries for " + std::to_string(b2.rows.size()) + " constituents");
  TRY(checkStructure(c, views, res, Groups{}, "merge", 1));
  if (b1.fullyCorrect() && b2.fullyCorrect()) { c.label("merge:typification-checked"); TRY(checkTypes(c, views, res, "merge")); }
  else c.label("merge:operands-partially-incorrect");
  return pbt::pass();
}

}  // namespace

int main(int argc, char** argv) {
  std::vector<pbt::Prop> props;
  props.push_back({"synthesis", propSynthesis, 750, 12000, false, false, "pairs of schemas + equation tables through ops::BinarySynthes"});
  props.push_back({"equate", propEquate, 1000, 12000, false, false, "one schema + equation table through Ops().IsEquatable / Equate"});
  props.push_back({"equate_sequence", propEquateSequence, 400, 6000, false, false, "2-4 successive equation tables through Ops().Equate on one schema object; non-trivial = at least two accepted rounds"});
  props.push_back({"duplicates", propDuplicates, 500, 6000, false, false, "schemas with duplicated constituents through Ops().DeleteDuplicates"});
  props.push_back({"merge", propMerge, 450, 6000, false, false, "pairs of schemas through Ops().MergeWith"});
  return pbt::main(argc, argv, "C12", props);
}
