// C20 - UTF-8 string utilities and interval algebra agree with their definitions.
// Oracles: straightforward reference code over explicit code-point vectors (strings) and end-point
// definitions / point sets (ranges).  Exhaustive over short strings / a window of ranges, random beyond.
#include "common/pbt.hpp"

#include "ccl/Strings.hpp"

#include <optional>

using ccl::StrRange;
using pbt::Ctx;
using pbt::Verdict;

namespace {

const std::vector<std::string> kAlphabet = {"a", " ", ",", "-", "1", "\xCE\xB1", "\xE2\x84\xAC", "\xF0\xA0\x9C\x8E"};
const std::vector<std::string> kWide = {"a", "b", "Z", " ", "\t", "\n", ",", "-", "0", "1", "9", "|", "@", "{", "}", "\xCE\xB1", "\xD0\xB5", "\xE2\x84\xAC",
                                        "\xE2\x88\x80", "\xF0\xA0\x9C\x8E", "\xF0\x9F\x98\x80", "\x7F", "\xC2\x80", "\xEF\xBF\xBF",
                                        "\xDF\xBF", "\xE0\xA0\x80", "\xE0\xA4\x95", "\xE0\xBF\xBF", "\xE1\x80\x80", "\xED\x9F\xBF", "\xEE\x80\x80", "\xF0\x90\x80\x80", "\xF4\x8F\xBF\xBF"};

// two code points (first and last) for every possible lead byte of well-formed UTF-8: 0xC2..0xDF, 0xE0..0xEF (0xED without
// the surrogates), 0xF0..0xF4 - the size of a symbol is decided from its lead byte, so every lead byte is its own case
const std::vector<std::string>& leadAlphabet() {
  static const std::vector<std::string> v = [] {
    std::vector<std::string> r{"a"};
    auto add = [&](std::initializer_list<int> b) { std::string s; for (int x : b) s.push_back(static_cast<char>(x)); r.push_back(s); };
    for (int l = 0xC2; l <= 0xDF; ++l) { add({l, 0x80}); add({l, 0xBF}); }
    for (int l = 0xE0; l <= 0xEF; ++l) { add({l, l == 0xE0 ? 0xA0 : 0x80, 0x80}); add({l, l == 0xED ? 0x9F : 0xBF, 0xBF}); }
    for (int l = 0xF0; l <= 0xF4; ++l) { add({l, l == 0xF0 ? 0x90 : 0x80, 0x80, 0x80}); add({l, l == 0xF4 ? 0x8F : 0xBF, 0xBF, 0xBF}); }
    return r;
  }();
  return v;
}

struct Text {
  std::vector<std::string> cps;
  std::string str() const { std::string s; for (auto& c : cps) s += c; return s; }
};

Text genText(Ctx& c, bool small) {
  Text t;
  const int n = small ? c.ipick(0, 4) : c.ipick(0, 64);
  const auto& alpha = small ? kAlphabet : kWide;
  for (int i = 0; i < n; ++i) t.cps.push_back(c.oneof(alpha));
  return t;
}

bool refIsSpace(char ch) { return ch == ' ' || ch == '\t' || ch == '\n' || ch == '\v' || ch == '\f' || ch == '\r'; }

#define CHECK(cond, oracle, msg) do { if (!(cond)) return pbt::fail(oracle, msg); } while (0)

Verdict checkText(Ctx& c, const Text& t) {
  const std::string s = t.str();
  const int n = static_cast<int>(t.cps.size());
  bool multibyte = false;
  for (auto& cp : t.cps) multibyte |= cp.size() > 1;
  c.show << "text=" << pbt::printable(s) << " cps=" << n;
  c.nontrivial = multibyte;
  c.label(multibyte ? "multibyte" : "ascii-only");
  c.label("len:" + std::to_string(std::min(n, 8)));
  c.exec();

  // iteration
  {
    auto it = ccl::UTF8Begin(s);
    const auto end = ccl::UTF8End(s);
    size_t byte = 0;
    for (int i = 0; i < n; ++i) {
      CHECK(it != end, "utf8-iteration", "iterator ended early at code point " + std::to_string(i));
      CHECK(it.Position() == i, "utf8-iteration", "Position()!=" + std::to_string(i));
      CHECK(it.BytePosition() == byte, "utf8-iteration", "BytePosition at cp " + std::to_string(i));
      CHECK(it.SymbolSize() == t.cps[i].size(), "utf8-iteration", "SymbolSize at cp " + std::to_string(i));
      CHECK(*it == t.cps[i][0], "utf8-iteration", "operator* at cp " + std::to_string(i));
      byte += t.cps[i].size();
      ++it;
    }
    CHECK(it == end, "utf8-iteration", "iterator does not end after the last code point");
    // random access construction
    for (int i = 0; i <= n + 1; ++i) {
      ccl::UTF8Iterator at(s, i);
      if (i < n) {
        size_t b = 0; for (int k = 0; k < i; ++k) b += t.cps[k].size();
        CHECK(at != end && at.Position() == i && at.BytePosition() == b, "utf8-goto", "UTF8Iterator(s," + std::to_string(i) + ")");
      } else {
        CHECK(at == end, "utf8-goto", "UTF8Iterator past the end is not end: " + std::to_string(i));
      }
    }
  }
  CHECK(ccl::SizeInCodePoints(s) == n, "utf8-size", "SizeInCodePoints=" + std::to_string(ccl::SizeInCodePoints(s)));
  for (auto& cp : t.cps) CHECK(ccl::UTF8CharSize(static_cast<unsigned char>(cp[0])) == static_cast<int>(cp.size()), "utf8-charsize", pbt::printable(cp));

  // Substr for every range start in [0,n+1], finish in [start, n+2]
  for (int st = 0; st <= n + 1; ++st) {
    for (int fi = st; fi <= n + 2; ++fi) {
      std::string want;
      if (st < fi && fi <= n) for (int k = st; k < fi; ++k) want += t.cps[k];
      const auto got = ccl::Substr(s, StrRange{st, fi});
      CHECK(std::string(got) == want, "substr", "Substr [" + std::to_string(st) + "," + std::to_string(fi) + ") = '" + pbt::printable(std::string(got)) + "' want '" + pbt::printable(want) + "'");
      if (!want.empty()) {
        size_t b = 0; for (int k = 0; k < st; ++k) b += t.cps[k].size();
        CHECK(got.data() == s.data() + b, "substr", "Substr view does not point into the source");
      }
    }
  }

  // SplitBySymbol for ',' '-' ' ' delimiters
  for (char delim : {',', '-', ' ', 'a'}) {
    std::vector<std::string> want(1);
    for (char ch : s) { if (ch == delim) want.emplace_back(); else want.back() += ch; }
    const auto got = ccl::SplitBySymbol(s, delim);
    CHECK(got.size() == want.size(), "split", std::string("SplitBySymbol count for delim '") + delim + "'");
    for (size_t i = 0; i < got.size(); ++i) CHECK(std::string(got[i]) == want[i], "split", "SplitBySymbol item " + std::to_string(i));
  }

  // TrimWhitespace
  {
    size_t a = 0, b = s.size();
    while (a < b && refIsSpace(s[a])) ++a;
    while (b > a && refIsSpace(s[b - 1])) --b;
    const auto got = ccl::TrimWhitespace(s);
    CHECK(std::string(got) == s.substr(a, b - a), "trim", "TrimWhitespace = '" + pbt::printable(std::string(got)) + "'");
  }
  // IsInteger
  {
    size_t i = 0;
    if (!s.empty() && s[0] == '-') i = 1;
    bool want = i < s.size();
    for (size_t k = i; k < s.size(); ++k) want = want && s[k] >= '0' && s[k] <= '9';
    CHECK(ccl::IsInteger(s) == want, "isinteger", std::string("IsInteger = ") + (want ? "false" : "true"));
  }
  return pbt::pass();
}

Verdict propUtf8Small(Ctx& c) { return checkText(c, genText(c, true)); }
Verdict propUtf8Random(Ctx& c) { return checkText(c, genText(c, false)); }
Verdict propUtf8Lead(Ctx& c) {  // every lead byte, alone, doubled, and next to every other one
  Text t; const int n = c.ipick(0, 2);
  for (int i = 0; i < n; ++i) t.cps.push_back(c.oneof(leadAlphabet()));
  return checkText(c, t);
}

// ------------------------------------------------------------------------------------------------
// interval algebra
Verdict checkPair(Ctx& c, StrRange a, StrRange b) {
  c.show << "a=[" << a.start << "," << a.finish << ") b=[" << b.start << "," << b.finish << ")";
  const bool far = a.finish + 1 < b.start || b.finish + 1 < a.start;
  c.nontrivial = !far;
  c.label(far ? "disjoint-far" : (a.empty() || b.empty()) ? "near-with-empty" : "near");
  c.exec();
  const auto as = a.start, af = a.finish, bs = b.start, bf = b.finish;
  CHECK(a.IsBefore(b) == (af < bs), "rel-before", "IsBefore");
  CHECK(a.IsAfter(b) == (as > bf), "rel-after", "IsAfter");
  CHECK(a.IsBefore(b) == b.IsAfter(a), "rel-dual", "IsBefore/IsAfter duality");
  CHECK(a.Meets(b) == (af == bs), "rel-meets", "Meets");
  CHECK(a.SharesBorder(b) == (af == bs || bf == as), "rel-border", "SharesBorder");
  CHECK(a.SharesBorder(b) == b.SharesBorder(a), "rel-border", "SharesBorder symmetry");
  CHECK(a.Starts(b) == (as == bs && af < bf), "rel-starts", "Starts");
  CHECK(a.Finishes(b) == (af == bf && as > bs), "rel-finishes", "Finishes");
  CHECK(a.IsDuring(b) == (as > bs && af < bf), "rel-during", "IsDuring");
  CHECK((a == b) == (as == bs && af == bf), "rel-equal", "operator==");
  CHECK((a != b) == !(a == b), "rel-equal", "operator!=");
  CHECK(a.Overlaps(b) == b.Overlaps(a), "rel-overlaps", "Overlaps symmetry");
  if (!a.empty() && !b.empty()) {
    CHECK(a.Overlaps(b) == (std::max(as, bs) < std::min(af, bf)), "rel-overlaps", "Overlaps");
    CHECK(a.Contains(b) == (as <= bs && af >= bf), "rel-contains", "Contains(range)");
  } else if (!b.empty()) {
    CHECK(a.Contains(b) == false, "rel-contains", "empty range contains a non-empty one");
  } else {  // b empty at point p: inside => true, strictly outside => false, p == a.finish unconstrained (undocumented)
    if (as <= bf && bf < af) CHECK(a.Contains(b), "rel-contains", "Contains(empty inside)");
    if (bf < as || bf > af) CHECK(!a.Contains(b), "rel-contains", "Contains(empty outside)");
  }
  for (int p = std::min(as, bs) - 1; p <= std::max(af, bf) + 1; ++p) {
    CHECK(a.Contains(p) == (as <= p && p < af), "rel-contains-pos", "Contains(pos) " + std::to_string(p));
    if (p - std::min(as, bs) > 40) break;
  }
  // intersection: present => same point set as the intersection of the half-open intervals; absent => disjoint
  const auto inter = a.Intersect(b);
  const int lo = std::max(as, bs), hi = std::min(af, bf);
  if (inter.has_value()) {
    CHECK(inter->start <= inter->finish, "intersect", "Intersect returned an inverted range");
    if (lo < hi) CHECK(inter->start == lo && inter->finish == hi, "intersect", "Intersect != point-set intersection");
    else CHECK(inter->empty(), "intersect", "Intersect non-empty for disjoint ranges");
  } else {
    CHECK(!(lo < hi), "intersect", "Intersect absent for overlapping ranges");
  }
  CHECK(inter.has_value() == !(af < bs || as > bf), "intersect", "Intersect presence differs from !before && !after");
  const auto ib = b.Intersect(a);
  CHECK(inter.has_value() == ib.has_value() && (!inter.has_value() || *inter == *ib), "intersect", "Intersect not commutative");
  // merge = hull
  const auto m = StrRange::Merge({a, b});
  CHECK(m.start == std::min(as, bs) && m.finish == std::max(af, bf), "merge", "Merge != hull");
  CHECK(StrRange::Merge({b, a}) == m, "merge", "Merge order dependent");
  CHECK(StrRange::Merge({a}) == a, "merge", "Merge of one range");
  CHECK(StrRange::Merge({}) == StrRange{}, "merge", "Merge of nothing");
  // accessors / mutators
  CHECK(a.length() == af - as && a.empty() == (as == af), "accessors", "length/empty");
  CHECK(StrRange::FromLength(as, af - as) == a, "accessors", "FromLength");
  { StrRange x = a; x.Shift(bs); CHECK(x.start == as + bs && x.finish == af + bs, "mutators", "Shift"); }
  { StrRange x = a; x.SetLength(b.length()); CHECK(x.start == as && x.finish == as + b.length(), "mutators", "SetLength"); }
  { StrRange x = a; x.CollapseEnd(); CHECK(x.start == af && x.finish == af, "mutators", "CollapseEnd"); }
  { StrRange x = a; x.CollapseStart(); CHECK(x.start == as && x.finish == as, "mutators", "CollapseStart"); }
  return pbt::pass();
}

Verdict propRangeSmall(Ctx& c) {
  const int as = c.ipick(-1, 6), af = c.ipick(as, 6), bs = c.ipick(-1, 6), bf = c.ipick(bs, 6);
  return checkPair(c, StrRange{as, af}, StrRange{bs, bf});
}
Verdict propRangeRandom(Ctx& c) {
  const int W = c.coin() ? 12 : 1000;
  const int as = c.ipick(-W, W), af = c.ipick(as, c.coin() ? std::min(W, as + 6) : W);
  int bs, bf;
  if (c.chance(3, 4)) {  // keep b near a so that border cases dominate
    bs = std::max(-W, std::min(W, as + c.ipick(-4, 8)));
    bf = std::max(bs, std::min(W, af + c.ipick(-4, 4)));
  } else {
    bs = c.ipick(-W, W); bf = c.ipick(bs, W);
  }
  return checkPair(c, StrRange{as, af}, StrRange{bs, bf});
}

// Merge over longer lists of ranges
Verdict propMergeList(Ctx& c) {
  const int n = c.ipick(1, 8);
  std::vector<StrRange> v;
  int lo = 0, hi = 0;
  for (int i = 0; i < n; ++i) {
    const int s = c.ipick(-50, 50), f = c.ipick(s, 60);
    v.emplace_back(s, f);
    c.show << "[" << s << "," << f << ") ";
    if (i == 0) { lo = s; hi = f; } else { lo = std::min(lo, s); hi = std::max(hi, f); }
  }
  c.nontrivial = n >= 3;
  c.label("merge-list");
  c.exec();
  const auto m = StrRange::Merge(v);
  CHECK(m.start == lo && m.finish == hi, "merge", "Merge(list) != hull");
  return pbt::pass();
}

}  // namespace

int main(int argc, char** argv) {
  std::vector<pbt::Prop> props;
  props.push_back({"utf8_exhaustive", propUtf8Small, 0, 0, true, false, "all strings of <=4 code points over {a,space,comma,-,1,U+03B1,U+212C,U+2070E}; non-trivial = contains a multi-byte code point"});
  props.push_back({"utf8_lead_bytes", propUtf8Lead, 0, 0, true, false, "all strings of <=2 code points over the first and last code point of every UTF-8 lead byte (0xC2..0xF4) and 'a'"});
  props.push_back({"range_exhaustive", propRangeSmall, 0, 0, true, false, "all pairs of ranges with start<=finish and ends in [-1,6]; non-trivial = not disjoint-and-far"});
  props.push_back({"utf8_random", propUtf8Random, 8000, 200000, false, false, "random strings of <=64 code points over 24 symbols (1-4 bytes)"});
  props.push_back({"range_random", propRangeRandom, 30000, 1000000, false, false, "random range pairs in windows of +-12 and +-1000"});
  props.push_back({"merge_list", propMergeList, 5000, 200000, false, false, "Merge over 1-8 ranges"});
  return pbt::main(argc, argv, "C20", props);
}
