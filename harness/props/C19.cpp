// C19 - Operation schema stays sound and never shows outdated synthesis as current.
//
// Environment: an in-memory SourceManager written for this harness (documents hold an RSForm, a dirty flag set by
// observing the schema, open/closed state; SaveState flushes a dirty document by announcing the change - the contract
// upstream's test double documents).  It is installed with Environment::SetSourceManager for one case and replaced
// by a default manager afterwards.
//
// Oracles (independent of the code under test):
//   * a structural model of the pictogram graph (list of pictograms with ordered parent pairs) kept by the harness;
//   * the harness' own run of ops::BinarySynthes on the parents' current schemas (differential for Execute);
//   * an event log written by the source manager (announcements / result writes) from which the obligations
//     "child with a stored result must not report done" are derived;
//   * before/after JSON comparison for refused operations and for save/load.
#include "common/pbt.hpp"

#include "ccl/env/cclEnvironment.h"
#include "ccl/ops/RSOperations.h"
#include "ccl/oss/OSSchema.h"
#include "ccl/semantic/RSForm.h"
#include "ccl/tools/EntityGenerator.h"
#include "ccl/tools/JSON.h"

#include <list>
#include <map>
#include <memory>
#include <set>
#include <tuple>

using ccl::EntityUID;
using ccl::ops::BinarySynthes;
using ccl::ops::Equation;
using ccl::ops::EquationOptions;
using ccl::oss::OSSchema;
using ccl::oss::PictID;
using ccl::semantic::CstType;
using ccl::semantic::RSForm;
using pbt::Ctx;
using pbt::Verdict;
using JSON = nlohmann::ordered_json;

namespace {

const char* const kKnownOwn = "reexecution-leaves-children-done";        // the re-executed operation's own result changed
const char* const kKnownCoparent = "save-window-drops-coparent-change";  // another parent's pending change was flushed while the result was being saved

// ---------------------------------------------------------------------------------------------------------------
// small helpers over RSForm
std::string fingerprint(const RSForm& s) {  // formal content: multiset of (alias, formal definition)
  std::vector<std::string> v;
  for (const auto uid : s.List()) { const auto& c = s.GetRS(uid); v.push_back(c.alias + "\x1f" + c.definition); }
  std::sort(v.begin(), v.end());
  std::string o;
  for (auto& x : v) { o += x; o += '\x1e'; }
  return o;
}

struct CstRow {
  EntityUID uid{};
  std::string alias; int kind{}; std::string def, conv, term, text;
  auto key() const { return std::tie(alias, kind, def, conv, term, text); }
  bool operator==(const CstRow& r) const { return key() == r.key(); }
  std::string str() const { return alias + ":" + std::to_string(kind) + "[" + def + "|" + conv + "|" + term + "|" + text + "]"; }
};
CstRow rowOf(const RSForm& s, EntityUID uid) {
  const auto& rs = s.GetRS(uid); const auto& tx = s.GetText(uid);
  return CstRow{uid, rs.alias, static_cast<int>(rs.type), rs.definition, rs.convention, tx.term.Text().Raw(), tx.definition.Raw()};
}
std::vector<CstRow> rowsOf(const RSForm& s, int tracked /* -1 all, 0 untracked, 1 tracked */) {
  std::vector<CstRow> r;
  for (const auto uid : s.List()) {
    if (tracked >= 0 && s.Mods().IsTracking(uid) != (tracked == 1)) continue;
    r.push_back(rowOf(s, uid));
  }
  return r;
}
std::string rowsStr(const std::vector<CstRow>& r) { std::string o; for (auto& x : r) o += x.str() + " "; return o; }

bool isAliasStart(char ch) { return ch == 'X' || ch == 'C' || ch == 'S' || ch == 'A' || ch == 'D' || ch == 'F' || ch == 'P' || ch == 'T'; }
bool isWord(char ch) { return (ch >= '0' && ch <= '9') || (ch >= 'a' && ch <= 'z') || (ch >= 'A' && ch <= 'Z') || ch == '_'; }
// simultaneous substitution of global identifiers; `used` collects the identifiers met
std::string substGlobals(const std::string& s, const std::map<std::string, std::string>& m, std::set<std::string>* used = nullptr) {
  std::string o;
  size_t i = 0;
  while (i < s.size()) {
    if (isAliasStart(s[i]) && (i == 0 || !isWord(s[i - 1])) && i + 1 < s.size() && s[i + 1] >= '0' && s[i + 1] <= '9') {
      size_t j = i + 1;
      while (j < s.size() && s[j] >= '0' && s[j] <= '9') ++j;
      if (j == s.size() || !isWord(s[j])) {
        const auto id = s.substr(i, j - i);
        if (used) used->insert(id);
        const auto it = m.find(id);
        o += it == m.end() ? id : it->second;
        i = j;
        continue;
      }
    }
    o += s[i++];
  }
  return o;
}

// ---------------------------------------------------------------------------------------------------------------
// in-memory documents and source manager
struct World;
class MemMgr;

struct MemDoc final : ccl::src::Source, ccl::types::Observer {
  RSForm schema{};
  std::u8string name{};
  bool open{true};
  bool saved{true};
  MemMgr* mgr;

  explicit MemDoc(MemMgr* m) : mgr{m} { schema.AddObserver(*this); }
  ~MemDoc() override { schema.RemoveObserver(*this); }
  MemDoc(const MemDoc&) = delete;
  MemDoc& operator=(const MemDoc&) = delete;

  void OnObserve(const ccl::types::Message&) override { saved = false; }

  [[nodiscard]] ccl::change::Hash CoreHash() const override { return schema.CoreHash(); }
  [[nodiscard]] ccl::change::Hash FullHash() const override { return schema.FullHash(); }
  [[nodiscard]] ccl::src::SrcType Type() const noexcept override { return ccl::src::SrcType::rsDoc; }
  bool WriteData(ccl::meta::UniqueCPPtr<ccl::src::DataStream> data) override;
  [[nodiscard]] const ccl::src::DataStream* ReadData() const override { return &schema; }
  [[nodiscard]] ccl::src::DataStream* AccessData() override { return &schema; }

  void triggerOpen();
  void triggerClose();
  void triggerSave();
};

class MemMgr final : public ccl::SourceManager {
  using Descriptor = ccl::src::Descriptor;
  using Source = ccl::src::Source;
  using SrcType = ccl::src::SrcType;

public:
  World* world;
  std::list<MemDoc> docs{};
  mutable int localCounter{0};

  explicit MemMgr(World* w) : world{w} {}

  MemDoc* byName(const std::u8string& n) { for (auto& d : docs) if (d.name == n) return &d; return nullptr; }
  MemDoc* cast(Source* s) { return dynamic_cast<MemDoc*>(s); }
  MemDoc& createDoc(const std::u8string& n) { docs.emplace_back(this); docs.back().name = n; return docs.back(); }

  void announceChange(MemDoc& d);
  void announceOpen(MemDoc& d) { OnSourceOpen(d); }
  void announceClose(MemDoc& d) { OnSourceClose(d); }

  [[nodiscard]] bool TestDomain(const Descriptor& global, const std::u8string& domain) const override {
    return std::empty(domain) || global.name.find(domain) == 0;
  }
  [[nodiscard]] Descriptor Convert2Local(const Descriptor& global, const std::u8string& domain) const override {
    auto local = global;
    if (!std::empty(domain)) local.name.erase(0, domain.length());
    return local;
  }
  [[nodiscard]] Descriptor Convert2Global(const Descriptor& local, const std::u8string& domain) const override {
    return Descriptor{local.type, domain + local.name};
  }
  [[nodiscard]] Descriptor CreateLocalDesc(SrcType type, std::u8string localName) const override {
    if (type != SrcType::rsDoc) return SourceManager::CreateLocalDesc(type, localName);
    if (std::empty(localName)) localName = u8"local" + ccl::to_u8string(++localCounter);
    localName += u8".trs";
    return Descriptor{type, localName};
  }
  [[nodiscard]] Source* Find(const Descriptor& desc) override {
    if (desc.type != SrcType::rsDoc) return nullptr;
    for (auto& d : docs) if (d.name == desc.name && d.open) return &d;
    return nullptr;
  }
  [[nodiscard]] Descriptor GetDescriptor(const Source& src) const override {
    if (const auto* d = dynamic_cast<const MemDoc*>(&src); d != nullptr) return Descriptor{SrcType::rsDoc, d->name};
    return Descriptor{};
  }
  bool ChangeDescriptor(const Descriptor&, const Descriptor&) override { return false; }
  [[nodiscard]] Source* CreateNew(const Descriptor& desc) override {
    if (desc.type != SrcType::rsDoc) return nullptr;
    if (byName(desc.name) != nullptr) return nullptr;  // a document of that name exists (open or closed)
    return &createDoc(desc.name);
  }
  [[nodiscard]] Source* Open(const Descriptor& desc) override {
    if (desc.type != SrcType::rsDoc) return nullptr;
    if (auto* d = byName(desc.name); d != nullptr) { d->triggerOpen(); return d; }
    return nullptr;
  }
  void Close(Source& src) override {
    auto& d = dynamic_cast<MemDoc&>(src);
    announceChange(d);
    announceClose(d);
    d.triggerSave();
    d.triggerClose();
  }
  bool SaveState(Source& src) override {
    auto& d = dynamic_cast<MemDoc&>(src);
    if (!d.open) return false;
    d.triggerSave();
    return true;
  }
  void Discard(const Descriptor& desc) override {
    if (auto* src = Open(desc); src != nullptr) {
      src->ReleaseClaim();
      Close(*src);
    }
  }
};

void MemDoc::triggerOpen() { open = true; mgr->announceOpen(*this); }
void MemDoc::triggerClose() { mgr->announceClose(*this); open = false; saved = true; }
void MemDoc::triggerSave() { if (!saved) { saved = true; mgr->announceChange(*this); } }

// ---------------------------------------------------------------------------------------------------------------
// the world: library objects + harness model + event log
struct MP { PictID id{}; bool isOp{false}; PictID p[2]{0, 0}; };

struct World final : ccl::types::Observer {
  MemMgr* mgr{nullptr};
  std::unique_ptr<OSSchema> oss{};
  bool recording{false};
  bool inWindow{false};  // between a result write and the next OSS notification: OSS holds its do-not-disturb guard
  const MemDoc* windowDoc{nullptr};  // the result document written in the current window
  uint64_t clock{0};

  std::map<const MemDoc*, std::string> lastSeen{};  // formal content at the last publication of the document
  struct Obl { uint64_t ts; bool window; bool own; std::string why; };
  std::map<PictID, std::vector<Obl>> pend{};
  struct Wr { uint64_t ts; MemDoc* doc; };
  std::vector<Wr> writes{};
  uint64_t announcements{0}, alteringAnnouncements{0}, windowAnnouncements{0};

  std::vector<MP> picts{};  // the structural model, in creation order

  void OnObserve(const ccl::types::Message&) override { inWindow = false; }

  const MP* find(PictID id) const { for (auto& p : picts) if (p.id == id) return &p; return nullptr; }
  std::vector<PictID> childrenOf(PictID id) const {
    std::vector<PictID> r;
    for (auto& p : picts) if (p.isOp && (p.p[0] == id || p.p[1] == id)) r.push_back(p.id);
    return r;
  }

  void newOss() { oss = std::make_unique<OSSchema>(); oss->AddObserver(*this); recording = true; inWindow = false; }
  void dropOss() { recording = false; auto tmp = std::move(oss); tmp.reset(); inWindow = false; }

  void onAnnounce(MemDoc& d) {
    ++clock; ++announcements;
    const auto fp = fingerprint(d.schema);
    auto it = lastSeen.find(&d);
    const bool altered = it == lastSeen.end() || it->second != fp;
    lastSeen[&d] = fp;
    if (!altered || !recording || !oss) return;
    const auto pid = oss->Src().Src2PID(d);
    if (!pid.has_value()) return;
    ++alteringAnnouncements;
    if (inWindow) ++windowAnnouncements;
    for (const auto c : childrenOf(pid.value())) {
      const auto* h = oss->Src()(c);
      if (h != nullptr && !h->empty()) pend[c].push_back(Obl{clock, inWindow, inWindow && &d == windowDoc, "parent " + std::to_string(pid.value())});
    }
  }
  void onWrite(MemDoc& d) {
    ++clock;
    writes.push_back(Wr{clock, &d});
    if (recording) { inWindow = true; windowDoc = &d; }
  }
};

bool MemDoc::WriteData(ccl::meta::UniqueCPPtr<ccl::src::DataStream> data) {
  const auto* rs = dynamic_cast<const RSForm*>(data.get());
  if (rs == nullptr) return false;
  schema = *rs;
  mgr->world->onWrite(*this);
  return true;
}
void MemMgr::announceChange(MemDoc& d) { world->onAnnounce(d); OnSourceChange(d); }

struct Env {
  World w{};
  Env() {
    auto m = std::make_unique<MemMgr>(&w);
    w.mgr = m.get();
    ccl::Environment::Instance().SetSourceManager(std::move(m));
    w.newOss();
  }
  ~Env() {
    w.dropOss();
    w.mgr = nullptr;
    ccl::Environment::Instance().SetSourceManager(std::make_unique<ccl::SourceManager>());
    ccl::tools::EntityGenerator::VerifUnseed();
  }
};

// ---------------------------------------------------------------------------------------------------------------
// case description
const std::vector<std::string> kStructDefs = {"ℬ(X1)", "ℬ(X1×X2)", "ℬ(X1×X1)", "ℬ(ℬ(X1))", "ℬ(X2)", "ℬ(X9)"};
const std::vector<std::string> kTermDefs = {"X1∪X1", "X1\\X2", "Pr1(S1)", "X1∩X2", "D1∪X1", "X1\\X1", "Pr2(S1)", "S1∪S1", "X1∪", "X7\\X1", "X1∪S1", "", "X3∪X4", "X4\\X2", "X5∪X3", "X2∩X4", "X6∪X5"};
const std::vector<std::string> kTerms = {"", "alpha", "beta"};
const std::vector<std::string> kTexts = {"", "some text"};

struct SchemaSpec {
  int nX{1};
  std::vector<int> sDefs, dDefs;
  std::vector<int> terms;  // per constituent in emplace order: index into kTerms
  std::string str() const {
    std::string o = "{X*" + std::to_string(nX);
    for (auto i : sDefs) o += " S:=" + kStructDefs[i];
    for (auto i : dDefs) o += " D:=" + kTermDefs[i];
    o += " terms";
    for (auto t : terms) o += std::to_string(t);
    return o + "}";
  }
};
struct EqSpec { int kind, i1, i2, mode, arg; };

enum Kind { NEW_BASE, NEW_OP, ERASE, ATTACH, EDIT, ANNOUNCE, INIT, EXEC, EXEC_ALL, SAVE_LOAD, CLOSE_DOC, OPEN_DOC, PROBE };
struct Op {
  Kind kind{NEW_BASE};
  int a{0}, b{0};
  bool withSchema{false};
  SchemaSpec schema{};
  int editKind{0}, e1{0}, e2{0};
  bool announce{false};
  int opType{0};
  std::vector<EqSpec> eqs{};
  std::vector<int> perm{};
  int openMask{0};
  int probe{0};
};

SchemaSpec genSchema(Ctx& c) {
  SchemaSpec s;
  s.nX = c.ipick(1, 3);
  const int nS = c.ipick(0, 2), nD = c.ipick(0, 3);
  for (int i = 0; i < nS; ++i) s.sDefs.push_back(c.ipick(0, static_cast<int>(kStructDefs.size()) - 1));
  for (int i = 0; i < nD; ++i) s.dDefs.push_back(c.ipick(0, static_cast<int>(kTermDefs.size()) - 1));
  for (int i = 0; i < s.nX + nS + nD; ++i) s.terms.push_back(c.chance(1, 3) ? c.ipick(1, static_cast<int>(kTerms.size()) - 1) : 0);
  return s;
}

struct AP { bool isOp; int serial; int p1, p2; bool execd{false}; };  // abstract pictogram (generation-time mirror of the model)
struct Gen {
  Ctx& c;
  std::vector<AP> ps;
  int serial{0};
  std::vector<Op> ops;
  size_t budget;
  explicit Gen(Ctx& c, size_t budget) : c{c}, budget{budget} {}

  int n() const { return static_cast<int>(ps.size()); }
  std::vector<int> idxOps() const { std::vector<int> r; for (int i = 0; i < n(); ++i) if (ps[i].isOp) r.push_back(i); return r; }
  std::vector<int> idxBases() const { std::vector<int> r; for (int i = 0; i < n(); ++i) if (!ps[i].isOp) r.push_back(i); return r; }
  bool leaf(int i) const { for (auto& p : ps) if (p.isOp && (p.p1 == ps[i].serial || p.p2 == ps[i].serial)) return false; return true; }
  bool room() const { return ops.size() < budget; }

  void newBase(bool forceSchema) {
    Op o; o.kind = NEW_BASE;
    o.withSchema = forceSchema || c.chance(6, 7);
    if (o.withSchema) o.schema = genSchema(c);
    ops.push_back(o);
    ps.push_back(AP{false, serial++, -1, -1});
  }
  void newOp(int a, int b) {
    Op o; o.kind = NEW_OP; o.a = a; o.b = b;
    ops.push_back(o);
    if (a != b && a < n() && b < n()) ps.push_back(AP{true, serial++, ps[a].serial, ps[b].serial});
  }
  void init(int target) {
    Op o; o.kind = INIT; o.a = target;
    const int t = c.ipick(0, 19);
    o.opType = t < 8 ? 0 : t < 9 ? 1 : t < 18 ? 2 : t < 19 ? 3 : 4;  // merge / merge+empty table / synthesis / reset / synthesis without table
    if (o.opType == 2) {
      const int k = c.ipick(0, 3);
      for (int i = 0; i < k; ++i) {
        EqSpec e;
        const int kk = c.ipick(0, 9);
        e.kind = kk < 6 ? 0 : kk < 7 ? 1 : kk < 8 ? 2 : kk < 9 ? 3 : 4;  // X~X, S~S, D~D, X~D, anything
        e.i1 = c.ipick(0, 3); e.i2 = c.ipick(0, 3);
        e.mode = c.ipick(1, 3); e.arg = c.ipick(0, 2);
        o.eqs.push_back(e);
      }
    }
    ops.push_back(o);
  }
  void initMerge(int target) { Op o; o.kind = INIT; o.a = target; o.opType = 0; ops.push_back(o); }
  void cleanBase(int nX) {  // a base schema without incorrect members: nX base sets, one structure, two terms
    Op o; o.kind = NEW_BASE; o.withSchema = true;
    o.schema.nX = nX; o.schema.sDefs = {nX >= 2 ? 1 : 0}; o.schema.dDefs = {0, 5};
    for (int i = 0; i < nX + 3; ++i) o.schema.terms.push_back(0);
    ops.push_back(o);
    ps.push_back(AP{false, serial++, -1, -1});
  }
  void exec(int target) { Op o; o.kind = EXEC; o.a = target; ops.push_back(o); if (target < n()) ps[static_cast<size_t>(target)].execd = true; }
  void edit(int target, bool formal = false) {
    Op o; o.kind = EDIT; o.a = target;
    const int k = c.ipick(0, formal ? 4 : (target < n() && ps[static_cast<size_t>(target)].isOp) ? 7 : 11);
    o.editKind = k < 4 ? 0 : k < 5 ? 1 : k < 8 ? 2 : k < 9 ? 3 : k < 11 ? 4 : 5;  // emplace term / emplace base / set expression / erase / set term / set convention
    o.e1 = c.ipick(0, 5);
    o.e2 = c.ipick(0, static_cast<int>(kTermDefs.size()) - 1);
    o.announce = c.chance(2, 3);
    ops.push_back(o);
  }

  int pickOpTarget() {  // mostly an operation, rarely any pictogram
    const auto io = idxOps();
    if (io.empty() || c.chance(1, 12)) return c.ipick(0, std::max(0, n() - 1));
    return io[static_cast<size_t>(c.ipick(0, static_cast<int>(io.size()) - 1))];
  }

  void step(bool boosted) {
    if (n() < 2) { newBase(false); return; }
    int k = c.ipick(0, 99);
    if (boosted && k < 22) k = c.coin() ? 40 : 60;  // fewer structural changes after a scripted prefix
    if (k < 8) { newBase(false); return; }
    if (k < 22) {
      int a = c.chance(1, 2) ? n() - 1 : c.ipick(0, n() - 1);
      int b = c.ipick(0, n() - 2);
      if (b >= a) ++b;
      if (c.chance(1, 2)) std::swap(a, b);
      newOp(a, b);
      if (room() && c.chance(3, 4)) { init(n() - 1); if (room() && c.chance(1, 2)) exec(n() - 1); }
      return;
    }
    if (k < 34) { init(pickOpTarget()); return; }
    if (k < 56) { exec(pickOpTarget()); return; }
    if (k < 78) {
      const auto ib = idxBases(); const auto io = idxOps();
      int t;
      std::vector<int> ie; for (auto i : io) if (ps[static_cast<size_t>(i)].execd) ie.push_back(i);
      if (!ie.empty() && c.chance(1, 3)) t = ie[static_cast<size_t>(c.ipick(0, static_cast<int>(ie.size()) - 1))];
      else if (!io.empty() && c.chance(1, 8)) t = io[static_cast<size_t>(c.ipick(0, static_cast<int>(io.size()) - 1))];
      else t = ib.empty() ? 0 : ib[static_cast<size_t>(c.ipick(0, static_cast<int>(ib.size()) - 1))];
      edit(t);
      return;
    }
    if (k < 82) { Op o; o.kind = ANNOUNCE; o.a = c.ipick(0, n() - 1); ops.push_back(o); return; }
    if (k < 86) { Op o; o.kind = EXEC_ALL; ops.push_back(o); for (auto& p : ps) p.execd = p.execd || p.isOp; return; }
    if (k < 90) {
      Op o; o.kind = ERASE; o.a = c.ipick(0, n() - 1);
      ops.push_back(o);
      if (leaf(o.a)) ps.erase(ps.begin() + o.a);
      return;
    }
    if (k < 93) {
      Op o; o.kind = SAVE_LOAD;
      std::vector<int> pool; for (int i = 0; i < n(); ++i) pool.push_back(i);
      while (!pool.empty()) { const int j = c.ipick(0, static_cast<int>(pool.size()) - 1); o.perm.push_back(pool[static_cast<size_t>(j)]); pool.erase(pool.begin() + j); }
      o.openMask = c.ipick(0, 255);
      ops.push_back(o);
      return;
    }
    if (k < 95) { Op o; o.kind = CLOSE_DOC; o.a = c.ipick(0, n() - 1); ops.push_back(o); return; }
    if (k < 97) { Op o; o.kind = OPEN_DOC; o.a = c.ipick(0, n() - 1); ops.push_back(o); return; }
    if (k < 98) {
      const auto ib = idxBases();
      Op o; o.kind = ATTACH; o.a = ib.empty() ? 0 : ib[static_cast<size_t>(c.ipick(0, static_cast<int>(ib.size()) - 1))];
      o.schema = genSchema(c);
      ops.push_back(o);
      return;
    }
    { Op o; o.kind = PROBE; o.probe = c.ipick(0, 4); o.a = c.ipick(0, n() - 1); ops.push_back(o); }
  }
};

std::string showOp(const Op& o) {
  std::ostringstream s;
  switch (o.kind) {
    case NEW_BASE: s << "NewBase" << (o.withSchema ? o.schema.str() : std::string("(no source)")); break;
    case NEW_OP: s << "NewOp(#" << o.a << ",#" << o.b << ")"; break;
    case ERASE: s << "Erase(#" << o.a << ")"; break;
    case ATTACH: s << "Attach(#" << o.a << "," << o.schema.str() << ")"; break;
    case EDIT: {
      static const char* names[] = {"EmplaceTerm", "EmplaceBase", "SetExpr", "EraseCst", "SetTerm", "SetConvention"};
      s << "Edit(#" << o.a << "," << names[o.editKind] << "," << o.e1 << "," << (o.editKind == 0 || o.editKind == 2 ? kTermDefs[static_cast<size_t>(o.e2)] : std::to_string(o.e2))
        << (o.announce ? ",announced" : ",silent") << ")";
      break;
    }
    case ANNOUNCE: s << "Announce(#" << o.a << ")"; break;
    case INIT: {
      static const char* names[] = {"merge", "merge+emptyTable", "synthesis", "reset", "synthesis-noTable"};
      s << "Init(#" << o.a << "," << names[o.opType];
      for (auto& e : o.eqs) s << " eq" << e.kind << ":" << e.i1 << "~" << e.i2 << "/m" << e.mode << "a" << e.arg;
      s << ")";
      break;
    }
    case EXEC: s << "Execute(#" << o.a << ")"; break;
    case EXEC_ALL: s << "ExecuteAll"; break;
    case SAVE_LOAD: s << "SaveLoad(perm"; for (auto i : o.perm) s << " " << i; s << ",open=" << o.openMask << ")"; break;
    case CLOSE_DOC: s << "CloseDoc(#" << o.a << ")"; break;
    case OPEN_DOC: s << "OpenDoc(#" << o.a << ")"; break;
    case PROBE: s << "Probe(" << o.probe << ",#" << o.a << ")"; break;
  }
  return s.str();
}

// ---------------------------------------------------------------------------------------------------------------
// JSON canonical form of an OSS document (independent of container iteration order)
JSON sortedArray(const JSON& arr) {
  std::vector<std::pair<std::string, JSON>> v;
  for (const auto& e : arr) v.emplace_back(e.dump(), e);
  std::sort(v.begin(), v.end(), [](const auto& x, const auto& y) { return x.first < y.first; });
  JSON o = JSON::array();
  for (auto& e : v) o += e.second;
  return o;
}
std::string canon(const JSON& doc) {
  JSON d = doc;
  JSON items = JSON::array();
  for (auto item : d.at("items")) {
    if (item.contains("attachedOperation")) {
      auto& op = item["attachedOperation"];
      if (op.contains("options")) op["options"]["data"] = sortedArray(op["options"]["data"]);
      if (op.contains("translations")) { JSON t = JSON::array(); for (const auto& tr : op["translations"]) t += sortedArray(tr); op["translations"] = t; }
    }
    items += item;
  }
  d["items"] = sortedArray(items);
  d["layout"] = sortedArray(d.at("layout"));
  std::map<uint64_t, std::vector<uint64_t>> parents;  // child -> ordered parents
  for (const auto& e : d.at("connections")) parents[e.at(0).get<uint64_t>()].push_back(e.at(1).get<uint64_t>());
  JSON conn = JSON::object();
  for (auto& [ch, ps] : parents) conn[std::to_string(ch)] = ps;
  d["connections"] = conn;
  return d.dump();
}

// ---------------------------------------------------------------------------------------------------------------
#define CHECK(cond, oracle, msg) do { if (!(cond)) return pbt::fail(oracle, msg); } while (0)
#define TRY(expr) do { const Verdict v__ = (expr); if (v__.kind != Verdict::PASS) return v__; } while (0)

struct Runner {
  Ctx& c;
  World& w;
  int docSerial{0};
  int markerSerial{0};
  std::string toleratedKnown{};
  // statistics for labels / the non-trivial rule
  struct Ev { int kind; PictID pid; };  // 0 = formal edit on pid's document, 1 = successful execution of pid
  std::vector<Ev> events;
  bool permutedLoad{false}, diamondExecuted{false};
  std::set<std::string> labels;

  OSSchema& oss() { return *w.oss; }
  std::string dump() { return JSON(oss()).dump(); }

  MemDoc* docOf(PictID pid) {
    const auto* h = oss().Src()(pid);
    if (h == nullptr) return nullptr;
    if (h->src != nullptr) return w.mgr->cast(h->src);
    if (h->desc.name.empty()) return nullptr;
    return w.mgr->byName(h->desc.name);
  }
  MemDoc* editableDocOf(PictID pid) {  // attached and open
    const auto* h = oss().Src()(pid);
    if (h == nullptr || h->src == nullptr) return nullptr;
    auto* d = w.mgr->cast(h->src);
    return d != nullptr && d->open ? d : nullptr;
  }
  PictID bogusId() { PictID x = 1; while (w.find(x) != nullptr || oss().Contains(x)) ++x; return x; }

  // ---- invariants -------------------------------------------------------------------------------------------
  // the user-defined equations of every operation: the library may drop an equation whose constituent vanished and
  // re-key the rest when a parent is executed again, but the mode and the term argument the user chose never change
  std::map<PictID, std::multiset<std::pair<int, std::string>>> userEquations;
  std::set<PictID> equationsJustSet;
  Verdict equationsKept(const std::string& at) {
    for (auto& p : w.picts) {
      if (!p.isOp) continue;
      const auto* oh = oss().Ops()(p.id);
      const auto* eq = oh == nullptr ? nullptr : dynamic_cast<const EquationOptions*>(oh->options.get());
      std::multiset<std::pair<int, std::string>> cur;
      if (eq != nullptr) for (const auto& [key, value] : *eq) { const auto& pr = eq->PropsFor(key); cur.insert({static_cast<int>(pr.mode), pr.arg}); }
      auto it = userEquations.find(p.id);
      if (it == userEquations.end() || equationsJustSet.count(p.id)) { userEquations[p.id] = cur; continue; }
      auto rest = it->second;
      for (const auto& e : cur) {
        auto f = rest.find(e);
        CHECK(f != rest.end(), "equation-properties-changed", "operation " + std::to_string(p.id) + " now holds an equation with mode " + std::to_string(e.first) + " / term '" + e.second + "' that the user never defined" + at);
        rest.erase(f);
      }
      if (cur.size() != it->second.size()) c.count("observed:equations-dropped-with-their-constituents");
      else if (!cur.empty()) c.count("checked:equation-properties-kept");
      it->second = cur;
    }
    equationsJustSet.clear();
    return pbt::pass();
  }

  Verdict invariants(const std::string& after) {
    const std::string at = " (after " + after + ")";
    TRY(equationsKept(at));
    CHECK(oss().size() == w.picts.size(), "picts-count", "size=" + std::to_string(oss().size()) + " model " + std::to_string(w.picts.size()) + at);
    std::set<PictID> iterated;
    for (const auto& p : oss()) { CHECK(iterated.insert(p.uid).second, "picts-iteration", "pictogram iterated twice" + at); }
    std::set<PictID> ids;
    for (auto& p : w.picts) ids.insert(p.id);
    CHECK(iterated == ids, "picts-iteration", "iteration does not yield the model's pictograms" + at);
    std::set<std::pair<int, int>> cells;
    std::set<const void*> attached;
    std::multiset<std::pair<PictID, PictID>> wantEdges{};
    for (auto& p : w.picts) {
      const auto ps = std::to_string(p.id);
      CHECK(oss().Contains(p.id) && oss()(p.id) != nullptr && oss()(p.id)->uid == p.id, "pict-lookup", "pictogram " + ps + " not found" + at);
      // grid: exactly one cell
      const auto pos = oss().Grid()(p.id);
      CHECK(pos.has_value(), "grid-cell", "pictogram " + ps + " has no grid cell" + at);
      const auto back = oss().Grid()(pos.value());
      CHECK(back.has_value() && back.value() == p.id, "grid-cell", "grid cell of " + ps + " maps to another pictogram" + at);
      size_t ncell = 0;
      for (const auto& [gp, gid] : oss().Grid().data()) if (gid == p.id) ++ncell;
      CHECK(ncell == 1, "grid-cell", "pictogram " + ps + " occupies " + std::to_string(ncell) + " cells" + at);
      CHECK(cells.insert({pos->row, pos->column}).second, "grid-cell", "two pictograms share a cell" + at);
      // source handle
      const auto* h = oss().Src()(p.id);
      CHECK(h != nullptr, "source-handle", "pictogram " + ps + " has no source handle" + at);
      if (h->src != nullptr) {
        CHECK(attached.insert(h->src).second, "source-handle", "one source attached to two pictograms" + at);
        auto* d = w.mgr->cast(h->src);
        bool inMgr = false;
        for (auto& x : w.mgr->docs) inMgr = inMgr || &x == d;
        CHECK(d != nullptr && inMgr, "source-handle", "handle of " + ps + " points to an unknown source" + at);
        CHECK(d->open, "source-handle", "handle of " + ps + " points to a closed document" + at);
        CHECK(d->IsClaimed(), "source-handle", "attached document of " + ps + " is not claimed" + at);
        CHECK(h->desc.name == d->name, "source-handle", "descriptor of " + ps + " differs from the attached document's name" + at);
        const auto rev = oss().Src().Src2PID(*d);
        CHECK(rev.has_value() && rev.value() == p.id, "source-handle", "Src2PID disagrees for " + ps + at);
      }
      // operation handle
      const auto* oh = oss().Ops()(p.id);
      CHECK((oh != nullptr) == p.isOp, "operation-handle", "pictogram " + ps + (p.isOp ? " lacks" : " has") + " an operation handle" + at);
      // graph
      const auto parents = oss().Graph().ParentsOf(p.id);
      if (p.isOp) {
        CHECK(parents.size() == 2 && parents[0] == p.p[0] && parents[1] == p.p[1], "parents", "ParentsOf(" + ps + ") has " + std::to_string(parents.size()) + " entries or differs from the operands it was created with" + at);
        CHECK(parents[0] != parents[1], "parents", "operation " + ps + " has the same parent twice" + at);
        CHECK(oss().Contains(parents[0]) && oss().Contains(parents[1]), "parents", "operation " + ps + " has a missing parent" + at);
        for (size_t i = 0; i < 2; ++i) {
          const auto idx = oss().Graph().ParentIndex(p.p[i], p.id);
          CHECK(idx.has_value() && idx.value() == i, "parents", "ParentIndex disagrees for " + ps + at);
          wantEdges.insert({p.id, p.p[i]});
        }
      } else {
        CHECK(parents.empty(), "parents", "base pictogram " + ps + " has parents" + at);
      }
      const auto ch = oss().Graph().ChildrenOf(p.id);
      const auto wantCh = w.childrenOf(p.id);
      CHECK(std::multiset<PictID>(ch.begin(), ch.end()) == std::multiset<PictID>(wantCh.begin(), wantCh.end()), "children", "ChildrenOf(" + ps + ") differs from the model" + at);
    }
    CHECK(oss().Grid().data().size() == w.picts.size(), "grid-cell", "grid has " + std::to_string(oss().Grid().data().size()) + " cells for " + std::to_string(w.picts.size()) + " pictograms" + at);
    {
      const auto el = oss().Graph().EdgeList();
      using EdgeSet = std::multiset<std::pair<PictID, PictID>>;
      const EdgeSet gotEdges(el.begin(), el.end());
      CHECK(gotEdges == wantEdges, "edges", "EdgeList differs from the model" + at);
      // acyclic (on the library's own edge list): repeatedly strip pictograms without parents
      std::map<PictID, std::set<PictID>> par;
      for (auto& e : el) par[e.first].insert(e.second);
      std::set<PictID> done;
      bool progress = true;
      while (progress) {
        progress = false;
        for (auto id : ids) {
          if (done.count(id)) continue;
          bool ready = true;
          for (auto q : par[id]) ready = ready && done.count(q) > 0;
          if (ready) { done.insert(id); progress = true; }
        }
      }
      CHECK(done.size() == ids.size(), "acyclic", "parent relation has a cycle" + at);
      const auto order = oss().Graph().ExecuteOrder();
      std::set<PictID> opsIds;
      for (auto& p : w.picts) if (p.isOp) opsIds.insert(p.id);
      CHECK(std::set<PictID>(order.begin(), order.end()) == opsIds && order.size() == opsIds.size(), "execute-order", "ExecuteOrder is not exactly the operations" + at);
    }
    {
      const JSON j = JSON(oss());
      CHECK(j.at("items").size() == w.picts.size() && j.at("layout").size() == w.picts.size(), "facets-json", "serialised items/layout count differs from pictogram count" + at);
      size_t nops = 0;
      for (auto& p : w.picts) nops += p.isOp ? 1 : 0;
      CHECK(j.at("connections").size() == 2 * nops, "facets-json", "serialised connections count differs" + at);
      for (const auto& item : j.at("items")) {
        const auto id = item.at("pictUID").get<PictID>();
        const auto* mp = w.find(id);
        CHECK(mp != nullptr && item.contains("attachedSource") && item.contains("attachedOperation") == mp->isOp, "facets-json", "serialised item " + std::to_string(id) + " disagrees with the facets" + at);
      }
    }
    // statuses and freshness obligations
    for (auto& p : w.picts) {
      if (!p.isOp) continue;
      const auto st = oss().Ops().StatusOf(p.id);
      const auto* h = oss().Src()(p.id);
      labels.insert(st == ccl::ops::Status::done ? "status:done" : st == ccl::ops::Status::outdated ? "status:outdated" : st == ccl::ops::Status::broken ? "status:broken"
                    : st == ccl::ops::Status::defined ? "status:defined" : "status:undefined");
      if (h->empty()) { w.pend.erase(p.id); continue; }
      const auto it = w.pend.find(p.id);
      if (it == w.pend.end() || it->second.empty()) continue;
      if (st != ccl::ops::Status::done) { c.count("checked:freshness-obligation-honoured"); continue; }
      bool outside = false; std::string why;
      for (auto& o : it->second) { if (!o.window) { outside = true; why = o.why; } }
      if (outside) {
        return pbt::fail("stale-shown-done", "operation " + std::to_string(p.id) + " has a stored result, an announced change altered the formal content of " + why
                         + " after its last execution, and it reports done" + at);
      }
      bool own = false, coparent = false; std::string whyOwn, whyCo;
      for (auto& o : it->second) { if (o.own) { own = true; whyOwn = o.why; } else { coparent = true; whyCo = o.why; } }
      if (own && !pbt::known(kKnownOwn))
        return pbt::fail("stale-child-after-reexecution", "operation " + std::to_string(p.id) + " has a stored result; " + whyOwn
                         + " was re-executed, its source manager announced the changed result, and the child still reports done" + at);
      if (coparent && !pbt::known(kKnownCoparent))
        return pbt::fail("stale-child-after-coparent-flush", "operation " + std::to_string(p.id) + " has a stored result; a pending change of " + whyCo
                         + " was announced while another operation's result was being saved, and it still reports done" + at);
      if (toleratedKnown.empty()) toleratedKnown = own ? kKnownOwn : kKnownCoparent;
      c.count(own ? "known-tolerated:reexecution-leaves-children-done" : "known-tolerated:save-window-drops-coparent-change");
      continue;
    }
    return pbt::pass();
  }

  // ---- processing of result writes --------------------------------------------------------------------------
  struct Executed { PictID pid; uint64_t ts; };
  std::vector<Executed> takeWrites() {
    std::vector<Executed> r;
    for (auto& wr : w.writes) {
      const auto pid = oss().Src().Src2PID(*wr.doc);
      if (!pid.has_value()) { c.count("write-to-unattached-document"); continue; }
      r.push_back({pid.value(), wr.ts});
      // re-execution discharges the obligations raised before it
      auto it = w.pend.find(pid.value());
      if (it != w.pend.end()) {
        auto& v = it->second;
        v.erase(std::remove_if(v.begin(), v.end(), [&](const World::Obl& o) { return o.ts < wr.ts; }), v.end());
      }
      events.push_back({1, pid.value()});
    }
    w.writes.clear();
    w.inWindow = false;
    return r;
  }

  // result of pid == synthesis of its parents' current schemas (tracked part)
  Verdict checkResult(PictID pid, const std::string& after) {
    const auto* mp = w.find(pid);
    CHECK(mp != nullptr && mp->isOp, "exec-target", "result written for a pictogram that is not an operation" + after);
    auto* d1 = docOf(mp->p[0]); auto* d2 = docOf(mp->p[1]); auto* dr = docOf(pid);
    CHECK(d1 != nullptr && d2 != nullptr && dr != nullptr, "exec-sources", "executed operation " + std::to_string(pid) + " lacks a parent or result document" + after);
    const auto* oh = oss().Ops()(pid);
    const auto* eq = dynamic_cast<const EquationOptions*>(oh->options.get());
    BinarySynthes synth(d1->schema, d2->schema, eq == nullptr ? EquationOptions{} : *eq);
    auto expect = synth.Execute();
    CHECK(expect != nullptr, "exec-undefined", "operation " + std::to_string(pid) + " executed although the synthesis of its parents is not correctly defined" + after);
    const auto want = rowsOf(*expect, -1);
    const auto got = rowsOf(dr->schema, 1);
    c.count("checked:exec-result");
    if (eq != nullptr && !eq->empty()) c.count("checked:exec-result-with-equation-table");
    if (want.size() < d1->schema.Core().size() + d2->schema.Core().size()) c.count("checked:exec-result-with-identified-constituents");
    CHECK(got == want, "exec-result", "tracked part of the result of " + std::to_string(pid) + " = " + rowsStr(got) + " but synthesis of the parents' current schemas = " + rowsStr(want) + after);
    return pbt::pass();
  }

  struct OldResult {
    bool present{false};
    std::vector<CstRow> untracked;
    std::map<EntityUID, std::string> aliasOfTracked;
    ccl::ops::TranslationData translations;
    bool hasTranslations{false};
  };
  OldResult snapshotResult(PictID pid) {
    OldResult r;
    auto* d = docOf(pid);
    if (d == nullptr) return r;
    r.present = true;
    r.untracked = rowsOf(d->schema, 0);
    for (auto& row : rowsOf(d->schema, 1)) r.aliasOfTracked[row.uid] = row.alias;
    if (const auto* oh = oss().Ops()(pid); oh != nullptr && oh->translations != nullptr) { r.translations = *oh->translations; r.hasTranslations = true; }
    return r;
  }
  Verdict checkCarryOver(PictID pid, const OldResult& old, bool parentsReexecuted, const std::string& after) {
    if (!old.present || old.untracked.empty()) return pbt::pass();
    auto* dr = docOf(pid);
    c.count("checked:carry-over");
    const auto now = rowsOf(dr->schema, 0);
    // pair by the unique convention marker the harness gave every addition
    std::map<std::string, std::string> sigma;           // old alias -> new alias
    std::set<std::string> ambiguous;
    std::vector<std::pair<const CstRow*, const CstRow*>> pairs;
    for (auto& o : old.untracked) {
      const CstRow* match = nullptr; int n = 0;
      for (auto& x : now) if (x.conv == o.conv) { match = &x; ++n; }
      CHECK(n == 1, "carry-over", "user addition " + o.str() + " of the previous result of " + std::to_string(pid) + " occurs " + std::to_string(n) + " times in the new result: " + rowsStr(now) + after);
      CHECK(match->kind == o.kind && match->term == o.term && match->text == o.text, "carry-over", "user addition " + o.str() + " changed kind or texts: " + match->str() + after);
      sigma[o.alias] = match->alias;
      pairs.emplace_back(&o, match);
    }
    CHECK(now.size() == old.untracked.size(), "carry-over-extra", "new result has untracked constituents the user never added: " + rowsStr(now) + after);
    bool sigmaComplete = old.hasTranslations && !parentsReexecuted;
    if (sigmaComplete) {
      const auto* oh = oss().Ops()(pid);
      if (oh->translations == nullptr || oh->translations->size() != old.translations.size()) sigmaComplete = false;
      else {
        std::map<EntityUID, std::string> newAlias;
        for (auto& row : rowsOf(dr->schema, 1)) newAlias[row.uid] = row.alias;
        for (size_t i = 0; i < old.translations.size(); ++i) {
          for (const auto& [key, oldVal] : old.translations[i]) {
            if (!oh->translations->at(i).ContainsKey(key)) continue;
            const auto newVal = oh->translations->at(i)(key);
            const auto ia = old.aliasOfTracked.find(oldVal); const auto ib = newAlias.find(newVal);
            if (ia == old.aliasOfTracked.end() || ib == newAlias.end()) continue;
            const auto ins = sigma.emplace(ia->second, ib->second);
            if (!ins.second && ins.first->second != ib->second) ambiguous.insert(ia->second);
          }
        }
      }
    }
    for (auto& [o, n] : pairs) {
      std::set<std::string> used;
      const auto want = substGlobals(o->def, sigma, &used);
      bool decidable = sigmaComplete && o->def.find("_ERROR") == std::string::npos;
      for (auto& id : used) if (ambiguous.count(id)) decidable = false;
      if (!decidable) { c.count("unconstrained:carried-definition-translation"); continue; }
      // references without an image: upstream documents the "_ERROR" marking (testRSAggregator UpdateExprDangling); both spellings are accepted
      auto sigmaMarked = sigma;
      for (auto& id : used) if (!sigma.count(id)) sigmaMarked[id] = id + "_ERROR";
      const auto wantMarked = substGlobals(o->def, sigmaMarked);
      c.count("checked:carried-definition");
      CHECK(n->def == want || n->def == wantMarked, "carry-over-definition", "user addition " + o->str() + " arrived as " + n->str() + ", expected definition " + want + " or " + wantMarked + after);
    }
    return pbt::pass();
  }

  // ---- operations -------------------------------------------------------------------------------------------
  void fillSchema(RSForm& s, const SchemaSpec& spec) {
    std::vector<EntityUID> made;
    for (int i = 0; i < spec.nX; ++i) made.push_back(s.Emplace(CstType::base));
    for (auto i : spec.sDefs) made.push_back(s.Emplace(CstType::structured, kStructDefs[static_cast<size_t>(i)]));
    for (auto i : spec.dDefs) made.push_back(s.Emplace(CstType::term, kTermDefs[static_cast<size_t>(i)]));
    for (size_t i = 0; i < made.size() && i < spec.terms.size(); ++i) if (spec.terms[i] != 0) s.SetTermFor(made[i], kTerms[static_cast<size_t>(spec.terms[i])]);
  }
  Verdict attach(PictID pid, const SchemaSpec& spec) {
    auto& d = w.mgr->createDoc(ccl::to_u8string("b" + std::to_string(++docSerial) + ".trs"));
    fillSchema(d.schema, spec);
    d.schema.alias = "B" + std::to_string(docSerial);
    if (!oss().Src().ConnectPict2Src(pid, d)) c.count("unconstrained:attach-refused");
    return pbt::pass();
  }

  std::vector<EntityUID> cstsOfKind(const RSForm& s, int kind) {
    std::vector<EntityUID> r;
    for (const auto uid : s.List()) {
      const auto t = s.GetRS(uid).type;
      if (kind == 4 || (kind == 0 && t == CstType::base) || (kind == 1 && t == CstType::structured) || (kind == 2 && t == CstType::term)) r.push_back(uid);
    }
    return r;
  }

  Verdict stepNewOp(const Op& o, const std::string& name) {
    const int n = static_cast<int>(w.picts.size());
    if (o.a >= n || o.b >= n) return pbt::pass();
    const auto p1 = w.picts[static_cast<size_t>(o.a)].id, p2 = w.picts[static_cast<size_t>(o.b)].id;
    const auto before = dump();
    const auto* pict = oss().InsertOperation(p1, p2);
    if (p1 == p2) {
      CHECK(pict == nullptr, "insert-same-parent", "InsertOperation accepted the same pictogram twice");
      CHECK(dump() == before, "refused-changes", "refused InsertOperation changed the schema");
      return pbt::pass();
    }
    CHECK(pict != nullptr, "insert-operation", "InsertOperation of two distinct existing pictograms returned nullptr (" + name + ")");
    CHECK(w.find(pict->uid) == nullptr, "insert-operation", "InsertOperation reused a live identifier");
    w.picts.push_back(MP{pict->uid, true, {p1, p2}});
    return pbt::pass();
  }

  Verdict stepEdit(const Op& o) {
    if (o.a >= static_cast<int>(w.picts.size())) return pbt::pass();
    const auto& mp = w.picts[static_cast<size_t>(o.a)];
    if (auto* closed = docOf(mp.id); closed != nullptr && !closed->open) { closed->triggerOpen(); labels.insert("doc-reopened"); }  // the user opens the document first
    auto* d = editableDocOf(mp.id);
    if (d == nullptr) { c.count("skipped:edit-without-open-document"); return pbt::pass(); }
    auto& s = d->schema;
    const auto fpBefore = fingerprint(s);
    std::vector<EntityUID> list;
    for (const auto uid : s.List()) list.push_back(uid);
    const auto target = list.empty() ? EntityUID{0} : list[static_cast<size_t>(o.e1) % list.size()];
    const auto& def = kTermDefs[static_cast<size_t>(o.e2)];
    switch (o.editKind) {
      case 0: {
        const auto uid = s.Emplace(CstType::term, def);
        if (mp.isOp) {  // the user's own addition to a result: marked so that it can be recognised later
          s.SetConventionFor(uid, "u#" + std::to_string(++markerSerial));
          if (o.e1 % 2 == 1) s.SetTermFor(uid, "own term " + std::to_string(markerSerial));
          if (o.e1 % 3 == 1) s.SetDefinitionFor(uid, kTexts[1]);
          labels.insert("user-addition");
        }
        break;
      }
      case 1: {
        const auto uid = s.Emplace(CstType::base);
        if (mp.isOp) { s.SetConventionFor(uid, "u#" + std::to_string(++markerSerial)); labels.insert("user-addition"); }
        break;
      }
      case 2: if (!list.empty()) s.SetExpressionFor(target, def); break;
      case 3: if (!list.empty()) s.Erase(target); break;
      case 4: if (!list.empty()) s.SetTermFor(target, kTerms[static_cast<size_t>(o.e2) % kTerms.size()]); break;
      case 5:
        if (!list.empty() && s.GetRS(target).convention.rfind("u#", 0) != 0 && !mp.isOp) s.SetConventionFor(target, "conv" + std::to_string(o.e2 % 2));
        break;
    }
    if (fingerprint(s) != fpBefore) { events.push_back({0, mp.id}); labels.insert(o.announce ? "formal-edit-announced" : "formal-edit-silent"); }
    else labels.insert("non-formal-edit");
    if (o.announce) d->triggerSave();
    return pbt::pass();
  }

  Verdict stepInit(const Op& o) {
    if (o.a >= static_cast<int>(w.picts.size())) return pbt::pass();
    const auto& mp = w.picts[static_cast<size_t>(o.a)];
    std::unique_ptr<ccl::ops::Options> opts;
    auto type = ccl::ops::Type::rsMerge;
    switch (o.opType) {
      case 0: break;
      case 1: opts = std::make_unique<EquationOptions>(); break;
      case 2: case 4: type = ccl::ops::Type::rsSynt; break;
      case 3: type = ccl::ops::Type::tba; break;
    }
    if (o.opType == 2) {
      auto table = std::make_unique<EquationOptions>();
      if (mp.isOp) {
        auto* d1 = docOf(mp.p[0]); auto* d2 = docOf(mp.p[1]);
        if (d1 != nullptr && d2 != nullptr) {
          for (auto& e : o.eqs) {
            const auto k1 = cstsOfKind(d1->schema, e.kind == 3 ? 0 : e.kind), k2 = cstsOfKind(d2->schema, e.kind == 3 ? 2 : e.kind);
            if (k1.empty() || k2.empty()) continue;
            const auto key = k1[static_cast<size_t>(e.i1) % k1.size()], val = k2[static_cast<size_t>(e.i2) % k2.size()];
            if (table->ContainsKey(key)) continue;
            table->Insert(key, val, Equation{static_cast<Equation::Mode>(e.mode), e.mode == 3 ? "new term " + std::to_string(e.arg) : std::string{}});
          }
        }
        labels.insert(table->empty() ? "init:synthesis-empty-table" : "init:synthesis-table");
      }
      opts = std::move(table);
    } else if (mp.isOp) {
      labels.insert(o.opType == 3 ? "init:reset" : o.opType == 4 ? "init:refused-no-table" : "init:merge");
    }
    const auto before = dump();
    const bool ok = oss().Ops().InitFor(mp.id, type, std::move(opts));
    if (ok) equationsJustSet.insert(mp.id);
    if (!mp.isOp) CHECK(!ok, "init-base", "InitFor accepted a base pictogram");
    if (o.opType == 4) CHECK(!ok, "init-no-table", "InitFor accepted a synthesis without an equation table");
    if (!ok) CHECK(dump() == before, "refused-changes", "refused InitFor changed the schema");
    return pbt::pass();
  }

  Verdict afterExecution(const std::vector<Executed>& ex, const std::string& name) {
    for (size_t i = 0; i < ex.size(); ++i) {
      const auto* mp = w.find(ex[i].pid);
      if (mp == nullptr) continue;
      bool parentLater = false;
      for (size_t j = 0; j < ex.size(); ++j) if (ex[j].ts > ex[i].ts && (ex[j].pid == mp->p[0] || ex[j].pid == mp->p[1])) parentLater = true;
      bool again = false;
      for (size_t j = i + 1; j < ex.size(); ++j) again = again || ex[j].pid == ex[i].pid;
      if (again) continue;
      if (parentLater) { c.count("unconstrained:parent-executed-after-child"); continue; }
      TRY(checkResult(ex[i].pid, " (after " + name + ")"));
      if (w.childrenOf(mp->p[0]).size() >= 2 || w.childrenOf(mp->p[1]).size() >= 2) {
        for (int k = 0; k < 2; ++k) { const auto* pp = w.find(mp->p[k]); if (pp != nullptr && pp->isOp && w.childrenOf(pp->id).size() >= 2) diamondExecuted = true; }
      }
    }
    return pbt::pass();
  }

  Verdict stepExec(const Op& o, const std::string& name) {
    if (o.a >= static_cast<int>(w.picts.size())) return pbt::pass();
    const auto mp = w.picts[static_cast<size_t>(o.a)];
    const auto old = mp.isOp ? snapshotResult(mp.id) : OldResult{};
    const auto before = dump();
    w.writes.clear();
    const bool ok = oss().Ops().Execute(mp.id);
    const auto ex = takeWrites();
    if (!mp.isOp) {
      CHECK(!ok, "exec-base", "Execute succeeded on a base pictogram");
      CHECK(dump() == before, "refused-changes", "Execute on a base pictogram changed the schema");
      return pbt::pass();
    }
    labels.insert(ok ? "exec:ok" : "exec:refused");
    if (ok) {
      bool self = false;
      for (auto& e : ex) self = self || e.pid == mp.id;
      CHECK(self, "exec-no-write", "Execute returned true but no result was written to the source of " + std::to_string(mp.id));
      if (ex.size() > 1) labels.insert("exec:parents-reexecuted");
    } else {
      c.count("unconstrained:refused-execute");
    }
    TRY(afterExecution(ex, name));
    if (ok) {
      if (old.present) labels.insert("exec:re-execution");
      TRY(checkCarryOver(mp.id, old, ex.size() > 1, " (after " + name + ")"));
    }
    return pbt::pass();
  }

  Verdict stepSaveLoad(const Op& o) {
    const JSON saved = JSON(oss());
    const auto want = canon(saved);
    JSON permuted = saved;
    {
      JSON items = JSON::array();
      const auto& src = saved.at("items");
      std::vector<bool> taken(src.size(), false);
      for (auto i : o.perm) if (i >= 0 && static_cast<size_t>(i) < src.size() && !taken[static_cast<size_t>(i)]) { items += src.at(static_cast<size_t>(i)); taken[static_cast<size_t>(i)] = true; }
      for (size_t i = 0; i < src.size(); ++i) if (!taken[i]) items += src.at(i);
      permuted["items"] = items;
      if (items != src) permutedLoad = true;
    }
    {  // the (child, parent) pairs of different operations interleaved; the two pairs of one operation keep their order
      const auto& src = saved.at("connections");
      std::vector<size_t> idx(src.size());
      for (size_t i = 0; i < idx.size(); ++i) idx[i] = i;
      auto key = [&](size_t i) { return o.perm.empty() ? static_cast<int>(i) : (o.perm[i % o.perm.size()] * 5 + static_cast<int>(i % 3)) % 11; };
      std::stable_sort(idx.begin(), idx.end(), [&](size_t a, size_t b) { return key(a) < key(b); });
      std::map<uint64_t, std::vector<JSON>> byChild; std::map<uint64_t, size_t> next;
      for (const auto& e : src) byChild[e.at(0).get<uint64_t>()].push_back(e);
      JSON conns = JSON::array();
      for (auto i : idx) { const auto ch = src.at(i).at(0).get<uint64_t>(); conns += byChild[ch][next[ch]++]; }
      permuted["connections"] = conns;
      if (conns != src) labels.insert("load:connections-interleaved");
    }
    w.dropOss();
    w.newOss();
    permuted.get_to(oss());
    CHECK(canon(JSON(oss())) == want, "load-roundtrip", "schema loaded from permuted items differs from the saved one: " + canon(JSON(oss())) + " vs " + want);
    // the user re-opens some documents
    int bit = 0;
    for (auto& p : w.picts) {
      const bool openIt = ((o.openMask >> (bit++ % 8)) & 1) != 0;
      if (!openIt) continue;
      auto* d = docOf(p.id);
      if (d != nullptr && !d->open) d->triggerOpen();
    }
    labels.insert("load");
    return pbt::pass();
  }

  Verdict stepProbe(const Op& o) {
    const auto before = dump();
    const auto bogus = bogusId();
    const PictID some = w.picts.empty() ? bogus : w.picts[static_cast<size_t>(o.a) % w.picts.size()].id;
    switch (o.probe) {
      case 0: CHECK(oss().InsertOperation(some, some) == nullptr, "insert-same-parent", "InsertOperation accepted the same pictogram twice"); break;
      case 1: CHECK(oss().InsertOperation(some, bogus) == nullptr && oss().InsertOperation(bogus, some) == nullptr, "insert-missing-parent", "InsertOperation accepted a missing parent"); break;
      case 2: CHECK(!oss().Erase(bogus), "erase-missing", "Erase of a missing pictogram succeeded"); break;
      case 3: CHECK(!oss().Ops().InitFor(bogus, ccl::ops::Type::rsMerge), "init-missing", "InitFor of a missing pictogram succeeded"); break;
      case 4: CHECK(!oss().Ops().Execute(bogus), "exec-missing", "Execute of a missing pictogram succeeded"); break;
    }
    CHECK(dump() == before, "refused-changes", "a refused operation changed the schema");
    return pbt::pass();
  }

  Verdict step(const Op& o, const std::string& name) {
    const int n = static_cast<int>(w.picts.size());
    switch (o.kind) {
      case NEW_BASE: {
        const auto* pict = oss().InsertBase();
        CHECK(pict != nullptr && w.find(pict->uid) == nullptr, "insert-base", "InsertBase failed or reused a live identifier");
        w.picts.push_back(MP{pict->uid, false, {0, 0}});
        if (o.withSchema) TRY(attach(pict->uid, o.schema));
        break;
      }
      case NEW_OP: TRY(stepNewOp(o, name)); break;
      case ERASE: {
        if (o.a >= n) break;
        const auto id = w.picts[static_cast<size_t>(o.a)].id;
        const bool leaf = w.childrenOf(id).empty();
        const auto before = dump();
        const bool ok = oss().Erase(id);
        if (!leaf) {
          CHECK(!ok, "erase-non-leaf", "Erase removed pictogram " + std::to_string(id) + " which is a parent of an operation");
          CHECK(dump() == before, "refused-changes", "refused Erase changed the schema");
          labels.insert("erase:refused");
        } else if (ok) {
          CHECK(!oss().Contains(id), "erase-leaf", "erased pictogram is still contained");
          w.picts.erase(w.picts.begin() + o.a);
          w.pend.erase(id);
          labels.insert("erase:leaf");
        } else {
          c.count("unconstrained:leaf-erase-refused");
        }
        break;
      }
      case ATTACH: {
        if (o.a >= n || w.picts[static_cast<size_t>(o.a)].isOp) break;
        TRY(attach(w.picts[static_cast<size_t>(o.a)].id, o.schema));
        labels.insert("re-attach");
        break;
      }
      case EDIT: TRY(stepEdit(o)); break;
      case ANNOUNCE: {
        if (o.a >= n) break;
        if (auto* d = editableDocOf(w.picts[static_cast<size_t>(o.a)].id); d != nullptr) d->triggerSave();
        break;
      }
      case INIT: TRY(stepInit(o)); break;
      case EXEC: TRY(stepExec(o, name)); break;
      case EXEC_ALL: {
        w.writes.clear();
        oss().Ops().ExecuteAll();
        const auto ex = takeWrites();
        TRY(afterExecution(ex, name));
        c.count("unconstrained:carry-over-under-ExecuteAll");
        labels.insert("execute-all");
        break;
      }
      case SAVE_LOAD: TRY(stepSaveLoad(o)); break;
      case CLOSE_DOC: {
        if (o.a >= n) break;
        if (auto* d = editableDocOf(w.picts[static_cast<size_t>(o.a)].id); d != nullptr) { d->triggerSave(); d->triggerClose(); labels.insert("doc-closed"); }
        break;
      }
      case OPEN_DOC: {
        if (o.a >= n) break;
        if (auto* d = docOf(w.picts[static_cast<size_t>(o.a)].id); d != nullptr && !d->open) { d->triggerOpen(); labels.insert("doc-reopened"); }
        break;
      }
      case PROBE: TRY(stepProbe(o)); break;
    }
    w.inWindow = false;
    w.writes.clear();
    return invariants(name);
  }

  bool chainPattern() const {  // edit P -> execute child C of P -> edit P again -> execute child G of C
    for (size_t i = 0; i < events.size(); ++i) {
      if (events[i].kind != 0) continue;
      const auto P = events[i].pid;
      for (size_t j = i + 1; j < events.size(); ++j) {
        if (events[j].kind != 1) continue;
        const auto C = events[j].pid;
        const auto* mc = w.find(C);
        if (mc == nullptr || (mc->p[0] != P && mc->p[1] != P)) continue;
        for (size_t k = j + 1; k < events.size(); ++k) {
          if (events[k].kind != 0 || events[k].pid != P) continue;
          for (size_t l = k + 1; l < events.size(); ++l) {
            if (events[l].kind != 1) continue;
            const auto* mg = w.find(events[l].pid);
            if (mg != nullptr && (mg->p[0] == C || mg->p[1] == C)) return true;
          }
        }
      }
    }
    return false;
  }
};

Verdict runHistory(Ctx& c, bool deepDiamond) {
  const uint64_t idSeed = static_cast<uint64_t>(c.pick(0, 1000));
  const int mode = deepDiamond ? 3 : c.ipick(0, 2);  // 0 free, 1 chain prefix, 2 diamond prefix, 3 scripted: grandchild under a diamond
  const size_t nOps = static_cast<size_t>(c.ipick(3, 25));
  Gen g(c, nOps);
  if (mode == 1 || mode == 2) {
    g.newBase(true); g.newBase(true); g.newBase(true);
    g.newOp(0, 1); g.init(3);
    if (mode == 1) { if (c.coin()) g.newOp(3, 2); else g.newOp(2, 3); g.init(4); }
    else { g.newOp(3, 2); g.init(4); g.newOp(c.coin() ? 0 : 2, 3); g.init(5); }
    g.budget = std::max(g.budget, g.ops.size() + 4);
  }
  if (mode == 1) {  // edit P -> execute its child -> edit P again -> execute the grandchild, with random operations in between
    const int P = c.ipick(0, 1);
    g.budget = std::max(g.budget, g.ops.size() + 6);
    for (int stage = 0; stage < 4 && g.n() >= 5; ++stage) {
      if (c.chance(1, 3)) g.step(true);
      if (g.n() < 5 || !g.ps[3].isOp || !g.ps[4].isOp) break;  // a random step erased part of the chain
      if (stage % 2 == 0) g.edit(P, true); else g.exec(stage == 1 ? 3 : 4);
    }
  }
  if (mode == 3) {
    // two operations over one shared base schema, their merge T (every constituent of the shared schema arrives twice; the
    // second copy gets a fresh identifier on every execution of T), a child G of T with the user's own additions, then T and G
    // executed again after a change below
    g.budget = std::max<size_t>(g.budget, 28);
    g.cleanBase(c.ipick(1, 2)); g.cleanBase(c.ipick(1, 2)); g.cleanBase(1); g.cleanBase(1);
    g.newOp(0, 1); g.initMerge(4);
    g.newOp(0, 2); g.initMerge(5);
    g.newOp(4, 5); g.initMerge(6);
    g.newOp(6, 3); g.initMerge(7);
    g.exec(4); g.exec(5); g.exec(6); g.exec(7);
    const int additions = c.ipick(1, 3);
    for (int i = 0; i < additions; ++i) g.edit(7, true);
    if (c.coin()) g.step(true);
    g.edit(c.ipick(0, 2), true);
    if (c.coin()) g.exec(6);
    g.exec(7);
    if (c.coin()) { g.edit(c.ipick(0, 2), true); g.exec(7); }
  }
  while (g.room()) g.step(mode != 0);
  c.show << "idseed=" << idSeed << " mode=" << mode << " ops:";
  for (size_t i = 0; i < g.ops.size(); ++i) c.show << "\n  " << i << ": " << showOp(g.ops[i]);
  c.exec();

  ccl::tools::EntityGenerator::VerifSeed(idSeed * 7919ULL + 17ULL);
  Env env;
  Runner r{c, env.w};
  for (size_t i = 0; i < g.ops.size(); ++i) {
    const Verdict v = r.step(g.ops[i], "op " + std::to_string(i) + " " + showOp(g.ops[i]));
    if (v.kind != Verdict::PASS) return v;
  }
  const bool chain = r.chainPattern();
  c.nontrivial = chain || r.permutedLoad || r.diamondExecuted;
  if (chain) c.label("chain:edit-exec-child-edit-exec-grandchild");
  if (r.permutedLoad) c.label("load-permuted-items");
  if (r.diamondExecuted) c.label("diamond-executed");
  for (auto& l : r.labels) c.label(l);
  c.label("mode:" + std::to_string(mode));
  c.label("ops:" + std::to_string(g.ops.size() / 5 * 5));
  c.count("announcements", static_cast<int64_t>(env.w.announcements));
  c.count("announcements-altering-attached", static_cast<int64_t>(env.w.alteringAnnouncements));
  c.count("announcements-in-save-window", static_cast<int64_t>(env.w.windowAnnouncements));
  if (!r.toleratedKnown.empty()) return pbt::excluded(r.toleratedKnown);
  return pbt::pass();
}

Verdict propHistory(Ctx& c) { return runHistory(c, false); }
Verdict propDeepDiamond(Ctx& c) { return runHistory(c, true); }

}  // namespace

int main(int argc, char** argv) {
  std::vector<pbt::Prop> props;
  props.push_back({"history", propHistory, 1500, 8000, false, false,
                   "histories of 3-25 OSS operations; non-trivial = edit/execute child/edit again/execute grandchild, or load with permuted items, or an executed diamond"});
  props.push_back({"deep_diamond", propDeepDiamond, 400, 3000, false, false,
                   "scripted prefix: a grandchild with user additions under a diamond over one shared base schema, the diamond and the grandchild executed again after a change below; then random operations"});
  return pbt::main(argc, argv, "C19", props);
}
