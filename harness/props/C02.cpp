// C02 - type soundness: whatever the checker accepts evaluates safely to the reported type.
// No reference semantics is needed: the oracle is "accepted => no fault, no unknownError, value has the structure of the
// reported typification (deep), truth value iff LOGIC".  Inputs: well-typed generated expressions and near-miss mutants.
#include "model/libenv.hpp"
#include "model/rsmutate.hpp"

using pbt::Ctx;
using pbt::Verdict;
using namespace rs;

namespace {

#define CHECK(cond, oracle, msg) do { if (!(cond)) return pbt::fail(oracle, msg); } while (0)

Gamma emptied(const Gamma& G) {
  Gamma r = G;
  for (auto& g : r.globals) if (g.type.isSet()) { g.value = Val::Empty(); g.construction = 0; }
  return r;
}

Verdict evalAccepted(Ctx& c, const Gamma& G, const std::string& text, rl::Syntax syn, bool lazy, const Ty& reported, const rl::ExpressionType& libType, const char* tag) {
  LibEnv env(G, lazy);
  if (!env.buildError.empty()) return pbt::discard("function-text");
  rl::Interpreter interp(env, env.astContext(), env.dataContext());
  const auto res = interp.Evaluate(text, syn);
  std::string errText; bool unknown = false, sem = false;
  for (auto& e : interp.Errors().All()) { char b[32]; snprintf(b, sizeof b, " %04X@%d", e.eid, e.position); errText += b; unknown |= e.eid == 0x8A00; sem |= (e.eid >= 0x8800 && e.eid < 0x8900) || (e.eid >= 0x8400 && e.eid < 0x8500); }
  const std::string where = std::string("[") + tag + "] '" + text + "' : " + reported.str();
  if (!res.has_value()) {
    CHECK(!interp.Errors().All().empty() && interp.Errors().HasCriticalErrors(), "failure-without-error", where + " evaluation failed without a critical error");
    CHECK(!sem, "auditor-interpreter-disagree", where + " accepted by Auditor::CheckType but rejected inside Interpreter::Evaluate:" + errText);
    CHECK(!unknown, "unknown-error", where + " evaluation failed with unknownError:" + errText);
    c.label("eval:documented-failure");
    return pbt::pass();
  }
  if (reported.k == Ty::LOGIC) {
    CHECK(std::holds_alternative<bool>(*res), "kind-mismatch", where + " reported LOGIC but evaluation returned data");
  } else {
    CHECK(std::holds_alternative<ob::StructuredData>(*res), "kind-mismatch", where + " reported a typification but evaluation returned a truth value");
    const auto& d = std::get<ob::StructuredData>(*res);
    long budget = 300000; Val v;
    try { v = fromLibData(d, &budget); } catch (const Budget&) { c.count("readback-budget"); return pbt::pass(); }
    // the any-type R0 is the element type of the empty set literal: nothing can sit at a position typed R0
    std::function<bool(const Val&, const Ty&)> inhabitsAny = [&](const Val& x, const Ty& t) -> bool {
      if (t.isAny()) return true;
      if (t.k == Ty::TUPLE && x.k == Val::TUPLE && x.items.size() == t.comps.size()) { for (size_t i = 0; i < x.items.size(); ++i) if (inhabitsAny(x.items[i], t.comps[i])) return true; return false; }
      if (t.k == Ty::SET && x.k == Val::SET) { for (auto& e : x.items) if (inhabitsAny(e, t.elem())) return true; return false; }
      return false;
    };
    CHECK(!inhabitsAny(v, reported), "any-type-inhabited", where + " evaluated to " + v.str() + " although the reported type " + reported.str() + " says that position holds an element of the empty set");
    CHECK(hasTypeDeep(v, reported), "structure-mismatch", where + " evaluated to " + v.str() + " which does not have the reported structure");
    CHECK(ob::CheckCompatible(d, std::get<rl::Typification>(libType)) || reported.mentions("R0"), "check-compatible", where + " CheckCompatible(value, reported type) is false for " + v.str());
  }
  c.label("eval:value");
  return pbt::pass();
}

Verdict soundWith(Ctx& c, bool scoping, bool templates = false) {
  TypedGen g(c);
  g.optReuseNames = scoping;  // binders re-declare names of ended scopes at any depth
  g.optRichTemplates = templates;
  g.makeContext();
  EP e;
  if (templates) e = g.makeCall(c.oneof(g.G.funcs), {}, c.ipick(1, 3));
  else {
    const int rootKind = c.ipick(0, 9);
    const Ty target = rootKind < 4 ? Ty::Logic() : rootKind < 8 ? Ty::Set(g.randType(2)) : g.randType(2);
    e = target.k == Ty::LOGIC ? g.genLogic(c.ipick(1, 3)) : g.genTerm(target, c.ipick(1, 3));
  }
  std::string opName;
  const bool doMutate = c.chance(3, 4);
  if (doMutate) { e = mutate(c, e, g.G, opName, !scoping ? -1 : [&] { const int w = c.ipick(0, 5); return w <= 2 ? 5 : w == 3 ? 10 : -1; }()); if (c.chance(1, 4)) { std::string op2; e = mutate(c, e, g.G, op2); if (!op2.empty()) opName += "+" + op2; } }
  if (c.chance(1, 10)) e = mk(TID::PUNC_DEFINE, {mkName(TID::ID_GLOBAL, "D99"), e});
  const bool ascii = c.chance(1, 4);
  PrintOpts po; po.syn = ascii ? Syn::ASCII : Syn::MATH;
  const std::string text = render(e, po);
  const rl::Syntax syn = ascii ? rl::Syntax::ASCII : rl::Syntax::MATH;
  c.show << showGamma(g.G) << "\n  " << (doMutate ? "mutant(" + opName + ") " : "generated ") << text;
  c.exec();

  LibEnv env(g.G, false);
  if (!env.buildError.empty()) return pbt::discard("function-text");
  rl::Auditor audit(env, env.valueContext(), env.astContext());
  const bool accepted = audit.CheckType(text, syn);
  if (!accepted) {
    CHECK(audit.Errors().HasCriticalErrors(), "reject-without-error", "'" + text + "' rejected without a critical error");
    c.label(doMutate ? "mutant:rejected" : "generated:rejected");
    if (doMutate) c.label("rejected-by:" + opName);
    return pbt::pass();
  }
  const rl::ExpressionType libType = audit.GetType();
  const Ty reported = fromLibExprType(libType);
  c.label(doMutate ? "mutant:accepted" : "generated:accepted");
  if (doMutate) c.label("accepted-after:" + opName);
  c.nontrivial = doMutate || g.binders > 0 || g.features[0];
  // value-class audit must not fault either
  (void)audit.CheckValue();

  bool hasLazy = false; for (auto& gl : g.G.globals) hasLazy |= gl.construction != 0;
  // Accepted mutants can be astronomically expensive (power sets of power sets): evaluate in a child under a CPU limit.
  // A timeout is inconclusive; a crash of the child is a failure attributed to this case.
  struct V { const Gamma G; bool lazy; const char* tag; };
  std::vector<V> variants;
  variants.push_back({g.G, false, "data"});
  if (hasLazy) variants.push_back({g.G, true, "lazy-data"});
  variants.push_back({emptied(g.G), false, "empty-data"});
  for (auto& var : variants) {
    const auto res = pbt::inChild([&] { return evalAccepted(c, var.G, text, syn, var.lazy, reported, libType, var.tag); }, 4);
    if (res.status == pbt::ChildResult::TIMEOUT || res.status == pbt::ChildResult::STARVED) { c.count("inconclusive-timeout"); continue; }
    if (res.status == pbt::ChildResult::CRASH) return pbt::fail("crash", std::string("[") + var.tag + "] evaluation of accepted '" + text + "' crashed: " + res.crashInfo);
    if (res.verdict.kind != Verdict::PASS) return res.verdict;
  }
  return pbt::pass();
}

// ---- binder confusion: the type a binder gives a variable must be the type of the value it is bound to at run time ----
// A binder over a set of tuples declares its variables through every pattern form (plain, tuple pattern, nested pattern,
// enumerated declaration mixing patterns and plain names, in every order); the body is generated well-typed and then some
// variable uses are swapped.  Whatever the checker still accepts must evaluate safely to the reported type.
Verdict soundProp(Ctx& c) { return soundWith(c, false); }
Verdict soundScopingProp(Ctx& c) { return soundWith(c, true); }
Verdict soundTemplateProp(Ctx& c) { return soundWith(c, false, true); }

// The empty set has the "any" type, on which checkers and evaluators take shortcuts.  A small family of expressions puts the
// empty set (or something typed like it) into every operand position of the structure-sensitive operators, next to operands
// of every other shape; whatever the checker accepts must evaluate safely.  Enumerated exhaustively.
Verdict anyTypeWith(Ctx& c, const std::vector<std::string>& forms) {
  static const Gamma G = [] {
    Gamma g;
    { Global x; x.name = "X1"; x.isBase = true; x.type = Ty::Set(Ty::Base("X1")); x.value = Val::Set({Val::Int(1), Val::Int(2)}); g.globals.push_back(x); }
    { Global d; d.name = "D1"; d.type = Ty::Base("X1"); d.value = Val::Int(1); g.globals.push_back(d); }
    { Global s; s.name = "S1"; s.type = Ty::Set(Ty::Tuple({Ty::Base("X1"), Ty::Base("X1")})); s.value = Val::Set({Val::Tuple({Val::Int(1), Val::Int(2)})}); g.globals.push_back(s); }
    return g;
  }();
  static const std::vector<std::string> empties = {"\xE2\x88\x85", "Pr1(\xE2\x88\x85\xC3\x97X1)", "red(\xE2\x88\x85)", "\xE2\x88\x85\\X1", "X1\\X1", "{\xE2\x88\x85}"};
  static const std::vector<std::string> others = {"1", "(1,2)", "D1", "X1", "{X1}", "S1", "card(X1)", "\xE2\x88\x85", "(D1,\xE2\x88\x85)"};
  const std::string E = c.oneof(empties), A = c.oneof(others), B = c.oneof(others);
  std::string text = c.oneof(forms);
  auto subst = [&](const std::string& key, const std::string& val) { for (size_t p = text.find(key); p != std::string::npos; p = text.find(key, p + val.size())) { const bool idStart = p > 0 && (std::isalnum(static_cast<unsigned char>(text[p - 1])) != 0); const bool idEnd = p + 1 < text.size() && (std::isalnum(static_cast<unsigned char>(text[p + 1])) != 0); if (idStart || idEnd) { p += 1 - val.size(); continue; } text.replace(p, 1, val); } };
  subst("E", E); subst("A", A); subst("B", B);
  c.show << "any-type family: " << text;
  c.exec();
  LibEnv env(G, false);
  rl::Auditor audit(env, env.valueContext(), env.astContext());
  const bool accepted = audit.CheckType(text, rl::Syntax::MATH);
  c.label(accepted ? "any-type:accepted" : "any-type:rejected");
  if (!accepted) { CHECK(audit.Errors().HasCriticalErrors(), "reject-without-error", "'" + text + "' rejected without a critical error"); return pbt::pass(); }
  c.nontrivial = true;
  const rl::ExpressionType libType = audit.GetType();
  const Ty reported = fromLibExprType(libType);
  const auto res = pbt::inChild([&] { return evalAccepted(c, G, text, rl::Syntax::MATH, false, reported, libType, "data"); }, 4);
  if (res.status == pbt::ChildResult::TIMEOUT || res.status == pbt::ChildResult::STARVED) { c.count("inconclusive-timeout"); return pbt::pass(); }
  if (res.status == pbt::ChildResult::CRASH) return pbt::fail("crash", "evaluation of accepted '" + text + "' crashed: " + res.crashInfo);
  return res.verdict;
}
Verdict anyTypeProp(Ctx& c) {
  static const std::vector<std::string> forms = {
    "Fi1[A](E)", "Fi1,2[A,B](E)", "Fi1,2[A](E)", "Fi2,1[A](E)", "Fi1[E](S1)", "Fi1[E](E)",
    "Pr1(E)", "Pr2,1(E)", "pr1(debool(E))", "red(E)", "card(E)", "debool(E)", "bool(E)", "\xE2\x84\xAC(E)",
    "E\xC3\x97" "A", "A\xC3\x97" "E", "E\xE2\x88\xAA" "A", "A\\E", "A\xE2\x88\x88" "E", "E\xE2\x88\x88" "A", "E\xE2\x8A\x86" "A", "A=E",
    "\xE2\x88\x80x\xE2\x88\x88" "E x=A", "D{x\xE2\x88\x88" "E|x=A}", "R{x:=E|x\xE2\x88\xAA" "A}", "R{x:=A|1=2|E}", "I{(x,A)|x:\xE2\x88\x88" "E}", "card(debool(R{x:=S1|1=2|E}))",
    "{A,E}", "(A,E)", "pr2((A,E))", "debool({E})\xE2\x88\xAA" "A"};
  return anyTypeWith(c, forms);
}
// Enumerations of three elements: the element types are merged pairwise, so an empty-typed element in any position must not
// let two mutually incompatible siblings through (a merge against the first element only, or against the previous one only,
// would).  The enumeration is also consumed by operators that look inside its members.  Exhaustive.
Verdict anyTypeEnumProp(Ctx& c) {
  static const std::vector<std::string> forms = {
    "{E,A,B}", "{A,E,B}", "{A,B,E}", "Pr1(red({E,A,B}))", "red({A,E,B})\xE2\x8A\x86X1", "card(red({A,B,E}))", "{E,A}\xE2\x88\xAA{B}", "{{E,A},{B}}"};
  return anyTypeWith(c, forms);
}

// Two tuple-typed operands that differ in exactly one component (first, middle or last), meeting in every operation that
// demands compatible operands.  The checker must reject them; if it accepts one, the evaluation must still be safe.  Exhaustive.
Verdict tupleMismatchProp(Ctx& c) {
  static const Gamma G = [] {
    Gamma g;
    { Global x; x.name = "X1"; x.isBase = true; x.type = Ty::Set(Ty::Base("X1")); x.value = Val::Set({Val::Int(1), Val::Int(2)}); g.globals.push_back(x); }
    { Global d; d.name = "D1"; d.type = Ty::Base("X1"); d.value = Val::Int(1); g.globals.push_back(d); }
    return g;
  }();
  const int arity = c.ipick(2, 3), pos = c.ipick(0, arity - 1), how = c.ipick(0, 1);
  auto tuple = [&](bool mismatch, bool asSet) {  // a tuple term, or the product set of its component types
    std::string t = asSet ? "" : "(";
    for (int i = 0; i < arity; ++i) {
      const bool odd = mismatch && i == pos;
      if (asSet) t += std::string(i ? "\xC3\x97" : "") + (odd ? (how ? "\xE2\x84\xAC(X1)" : "(X1\xC3\x97X1)") : "X1");
      else t += std::string(i ? "," : "") + (odd ? (how ? "{D1}" : "(D1,D1)") : "D1");
    }
    return t + (asSet ? "" : ")");
  };
  const std::string L = tuple(false, false), R = tuple(true, false), SL = tuple(false, true), SR = tuple(true, true);
  static const int kForms = 12;
  std::string text;
  switch (c.ipick(0, kForms - 1)) {
    case 0: text = L + "=" + R; break;
    case 1: text = L + "\xE2\x89\xA0" + R; break;
    case 2: text = L + "\xE2\x88\x88" + SR; break;
    case 3: text = L + "\xE2\x88\x89{" + R + "}"; break;
    case 4: text = "{" + L + "}\xE2\x8A\x86" + SR; break;
    case 5: text = SL + "\xE2\x8A\x82" + SR; break;
    case 6: text = "card({" + L + "}\xE2\x88\xAA{" + R + "})"; break;
    case 7: text = "{" + L + "," + R + "}"; break;
    case 8: text = "Fi1,2[" + SR + "]({" + L + "})"; break;
    case 9: text = "R{t:=" + L + "|1=1|" + R + "}"; break;
    case 10: text = "D{t\xE2\x88\x88" + SL + "|t=" + R + "}"; break;
    default: text = "\xE2\x88\x80t\xE2\x88\x88{" + L + "} t\xE2\x88\x88" + SR; break;
  }
  c.show << "tuple mismatch at component " << pos + 1 << " of " << arity << ": " << text;
  c.exec();
  LibEnv env(G, false);
  rl::Auditor audit(env, env.valueContext(), env.astContext());
  const bool accepted = audit.CheckType(text, rl::Syntax::MATH);
  c.label(accepted ? "tuple-mismatch:accepted" : "tuple-mismatch:rejected");
  c.nontrivial = true;
  if (!accepted) { CHECK(audit.Errors().HasCriticalErrors(), "reject-without-error", "'" + text + "' rejected without a critical error"); return pbt::pass(); }
  const rl::ExpressionType libType = audit.GetType();
  const Ty reported = fromLibExprType(libType);
  const auto res = pbt::inChild([&] { return evalAccepted(c, G, text, rl::Syntax::MATH, false, reported, libType, "data"); }, 4);
  if (res.status == pbt::ChildResult::TIMEOUT || res.status == pbt::ChildResult::STARVED) { c.count("inconclusive-timeout"); return pbt::pass(); }
  if (res.status == pbt::ChildResult::CRASH) return pbt::fail("crash", "evaluation of accepted '" + text + "' crashed: " + res.crashInfo);
  return res.verdict;
}

Verdict binderProp(Ctx& c) {
  TypedGen g(c);
  g.makeContext();
  // element type: a tuple of 2-3 components of different shapes
  std::vector<Ty> comps; const int nc = c.ipick(2, 3);
  for (int i = 0; i < nc; ++i) comps.push_back(i == 0 ? g.randBase() : g.randType(1 + (i % 2)));
  const Ty et = Ty::Tuple(comps);
  const auto saved = g.scope;
  EP dom = g.genTerm(Ty::Set(et), 1);
  // declaration: 1-3 declarators, each a plain name or a (possibly nested) tuple pattern
  const int form = c.ipick(0, 4);  // 0 forall, 1 exists, 2 declarative, 3 imperative iterate, 4 recursion
  std::vector<EP> decls; const int nd = (form <= 1) ? c.ipick(1, 3) : 1;
  for (int i = 0; i < nd; ++i) decls.push_back(g.declare(et, true));
  EP decl = decls.size() == 1 ? decls[0] : mk(TID::NT_ENUM_DECL, decls);
  EP body = g.genLogic(c.ipick(1, 2));
  EP e;
  if (form <= 1) e = mk(form == 0 ? TID::FORALL : TID::EXISTS, {decl, dom, body});
  else if (form == 2) e = mk(TID::NT_DECLARATIVE_EXPR, {decl, dom, body});
  else if (form == 3) { const Ty vt = g.scope.back().type; EP value = g.genTerm(vt, 1); e = mk(TID::NT_IMPERATIVE_EXPR, {value, mk(TID::ITERATE, {decl, dom}), body}); }
  else {
    EP init = g.genTerm(et, 1); g.scope = saved; EP var = g.declare(et, true); EP step = g.genTerm(et, 1);
    // the condition mentions a variable of the pattern in an operation that depends on its structure (projection / arithmetic)
    EP cond = g.genLogic(1);
    if (g.scope.size() > saved.size() && c.chance(3, 4)) {
      const auto& v = g.scope[saved.size() + static_cast<size_t>(c.ipick(0, static_cast<int>(g.scope.size() - saved.size()) - 1))];
      EP use = mkName(TID::ID_LOCAL, v.name);
      EP self = v.type.isTuple() ? mk(TID::EQUAL, {mkIdx(TID::SMALLPR, {1}, {use}), mkIdx(TID::SMALLPR, {1}, {mkName(TID::ID_LOCAL, v.name)})})
              : g.integral(v.type) || (v.type.isBase() && v.type.base == "Z") ? mk(TID::GREATER_OR_EQ, {mk(TID::PLUS, {use, mkInt(1)}), mkName(TID::ID_LOCAL, v.name)})
              : mk(TID::EQUAL, {use, mkName(TID::ID_LOCAL, v.name)});
      cond = mk(c.coin() ? TID::AND : TID::OR, {self, cond});
    }
    e = mk(TID::NT_RECURSIVE_FULL, {var, init, cond, step});
  }
  g.scope = saved;
  int applied = 0;
  const int swaps = c.ipick(0, 3);
  if (swaps) e = confuseLocals(c, e, swaps, &applied);
  const std::string text = render(e);
  c.show << showGamma(g.G) << "\n  binder(" << applied << " uses swapped) " << text;
  c.exec();
  LibEnv env(g.G, false);
  if (!env.buildError.empty()) return pbt::discard("function-text");
  rl::Auditor audit(env, env.valueContext(), env.astContext());
  const bool accepted = audit.CheckType(text, rl::Syntax::MATH);
  c.label(std::string("binder:") + (applied ? "confused" : "as-generated") + (accepted ? ":accepted" : ":rejected"));
  static const char* forms[] = {"forall", "exists", "declarative", "imperative", "recursion"};
  c.label(std::string("binder-form:") + forms[form] + (nd > 1 ? "-enumerated" : ""));
  if (!accepted) { CHECK(audit.Errors().HasCriticalErrors(), "reject-without-error", "'" + text + "' rejected without a critical error"); return pbt::pass(); }
  const rl::ExpressionType libType = audit.GetType();
  const Ty reported = fromLibExprType(libType);
  c.nontrivial = true;
  for (const bool emptyData : {false, true}) {
    const Gamma G2 = emptyData ? emptied(g.G) : g.G;
    const auto res = pbt::inChild([&] { return evalAccepted(c, G2, text, rl::Syntax::MATH, false, reported, libType, emptyData ? "empty-data" : "data"); }, 4);
    if (res.status == pbt::ChildResult::TIMEOUT || res.status == pbt::ChildResult::STARVED) { c.count("inconclusive-timeout"); continue; }
    if (res.status == pbt::ChildResult::CRASH) return pbt::fail("crash", std::string("evaluation of accepted '") + text + "' crashed: " + res.crashInfo);
    if (res.verdict.kind != Verdict::PASS) return res.verdict;
  }
  return pbt::pass();
}

}  // namespace

int main(int argc, char** argv) {
  std::vector<pbt::Prop> props;
  props.push_back({"accepted_evaluates_safely", soundProp, 2000, 14000, false, false, "generated expressions and near-miss mutants; accepted ones evaluated under 2-3 data contexts"});
  props.push_back({"accepted_with_name_reuse", soundScopingProp, 800, 6000, false, false, "the same with binders re-declaring names of ended scopes (any depth) and one occurrence of a local renamed to another local of the tree; accepted ones evaluated"});
  props.push_back({"template_calls", soundTemplateProp, 800, 6000, false, false, "calls of functions whose parameter types are tuples / sets of tuples / nested sets over shared radicals, three quarters mutated; accepted ones evaluated"});
  props.push_back({"any_type_operands", anyTypeProp, 0, 0, true, false, "exhaustive: 32 operator forms x 6 spellings of an empty-typed operand x 9x9 sibling operands of every shape; accepted ones evaluated"});
  props.push_back({"any_type_enumerations", anyTypeEnumProp, 0, 0, true, false, "exhaustive: 8 forms around a three-element enumeration x 6 spellings of an empty-typed element (each position) x 9x9 siblings of every shape; accepted ones evaluated"});
  props.push_back({"tuple_component_mismatch", tupleMismatchProp, 0, 0, true, false, "exhaustive: tuples of arity 2-3 that differ in one component (each position, two kinds of difference) in 12 operations that demand compatible operands"});
  props.push_back({"binder_confusion", binderProp, 1000, 8000, false, false, "binders of every pattern form over sets of tuples; variable uses swapped; accepted ones evaluated"});
  return pbt::main(argc, argv, "C02", props);
}
