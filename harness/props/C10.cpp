// C10 - saving and loading a schema or model through JSON is lossless and stable.
// Oracle: round trip.  j1 = JSON(obj); obj2 = load(j1); j2 = JSON(obj2): j1 == j2 as documents (term "forms" arrays as
// multisets: they are emitted from an unordered map) and the observable content of obj2 equals obj.
#include "model/schemahist.hpp"

#include "ccl/semantic/RSModel.h"

#include <pyconcept.h>

using pbt::Ctx;
using pbt::Verdict;
using namespace sh;
using JSON = nlohmann::ordered_json;

namespace {

#define CHECK(cond, oracle, msg) do { if (!(cond)) return pbt::fail(oracle, msg); } while (0)

// canonical form of a document: every "forms" array sorted (its order has no meaning)
void canon(JSON& j) {
  if (j.is_object()) {
    for (auto it = j.begin(); it != j.end(); ++it) {
      if (it.key() == "forms" && it.value().is_array()) { std::vector<JSON> v(it.value().begin(), it.value().end()); std::sort(v.begin(), v.end(), [](const JSON& a, const JSON& b) { return a.dump() < b.dump(); }); it.value() = v; }
      else canon(it.value());
    }
  } else if (j.is_array()) for (auto& x : j) canon(x);
}
// resolved texts are derived data; with cyclic term references their value depends on the number of updates performed
// (C07 states the same carve-out), so they are blanked for the comparison in that case only
void blankResolved(JSON& j) {
  if (j.is_object()) { for (auto it = j.begin(); it != j.end(); ++it) { if (it.key() == "resolved") it.value() = ""; else blankResolved(it.value()); } }
  else if (j.is_array()) for (auto& x : j) blankResolved(x);
}
std::string canonDump(JSON j, bool keepResolved = true) { canon(j); if (!keepResolved) blankResolved(j); return j.dump(1, ' ', false, JSON::error_handler_t::replace); }
std::string firstDiff(const std::string& a, const std::string& b) {
  size_t i = 0; while (i < a.size() && i < b.size() && a[i] == b[i]) ++i;
  const size_t from = i > 60 ? i - 60 : 0;
  return "...'" + a.substr(from, 140) + "' vs '" + b.substr(from, 140) + "'";
}

std::string formsOf(const ccl::lang::LexicalTerm& t) { std::vector<std::string> v; for (auto& [m, s] : t.GetAllManual()) v.push_back(m.ToString() + "=" + s); std::sort(v.begin(), v.end()); std::string o; for (auto& x : v) o += x + ";"; return o; }

template <class A, class B>
Verdict sameCore(const A& a, const B& b, const std::string& what) {
  std::vector<EntityUID> la, lb; for (auto u : a.List()) la.push_back(u); for (auto u : b.List()) lb.push_back(u);
  CHECK(la == lb, "lost-order", what + ": identifiers / order differ after reload (" + std::to_string(la.size()) + " vs " + std::to_string(lb.size()) + ")");
  for (auto uid : la) {
    const auto& r1 = a.GetRS(uid); const auto& r2 = b.GetRS(uid);
    CHECK(r1.alias == r2.alias && r1.type == r2.type, "lost-identity", what + ": alias/kind of " + r1.alias + " changed to " + r2.alias);
    CHECK(r1.definition == r2.definition, "lost-definition", what + ": formal definition of " + r1.alias + " '" + r1.definition + "' became '" + r2.definition + "'");
    CHECK(r1.convention == r2.convention, "lost-convention", what + ": convention of " + r1.alias);
    const auto& t1 = a.GetText(uid); const auto& t2 = b.GetText(uid);
    CHECK(t1.term.Text().Raw() == t2.term.Text().Raw(), "lost-term", what + ": raw term of " + r1.alias + " '" + t1.term.Text().Raw() + "' became '" + t2.term.Text().Raw() + "'");
    CHECK(formsOf(t1.term) == formsOf(t2.term), "lost-forms", what + ": manual forms of " + r1.alias + " {" + formsOf(t1.term) + "} became {" + formsOf(t2.term) + "}");
    CHECK(t1.definition.Raw() == t2.definition.Raw(), "lost-text", what + ": raw text definition of " + r1.alias);
  }
  return pbt::pass();
}

Verdict schemaProp(Ctx& c) {
  GenOpts o; o.tracking = true; o.merges = true; o.forms = true; o.maxOps = 12;
  const uint64_t idSeed = static_cast<uint64_t>(c.pick(1, 1000000));
  const auto ops = genHistory(c, o);
  const bool nonAsciiTitle = c.coin();
  for (size_t i = 0; i < ops.size(); ++i) c.show << (i ? "; " : "") << showOp(ops[i]);
  c.exec();
  Executor ex(idSeed);
  for (const auto& op : ops) (void)ex.apply(op);
  RSForm& f = ex.form;
  f.title = nonAsciiTitle ? "\xD0\xA1\xD1\x85\xD0\xB5\xD0\xBC\xD0\xB0 \xE2\x84\xAC" : "title"; f.alias = "T1"; f.comment = "c \"quoted\"\n";
  const JSON j1 = JSON(f);
  const std::string s1 = j1.dump(1, ' ', false, JSON::error_handler_t::replace);
  auto loaded = ccl::api::RSFormJA::FromJSON(s1);
  const RSForm& g = loaded.data();
  { const Verdict v = sameCore(f, g, "schema"); if (v.kind != Verdict::PASS) return v; }
  CHECK(g.title == f.title && g.alias == f.alias && g.comment == f.comment, "lost-attributes", "title / alias / comment changed");
  bool incorrect = false, nonAscii = nonAsciiTitle, tracked = false;
  for (auto uid : f.List()) {
    const auto* t1 = f.Mods()(uid); const auto* t2 = g.Mods()(uid);
    CHECK((t1 == nullptr) == (t2 == nullptr) && (t1 == nullptr || *t1 == *t2), "lost-tracking", "tracking flags of " + f.GetRS(uid).alias + " changed");
    tracked |= t1 != nullptr;
    incorrect |= f.GetParse(uid).status != ccl::semantic::ParsingStatus::VERIFIED;
    for (unsigned char ch : f.GetText(uid).term.Text().Raw()) nonAscii |= ch >= 0x80;
  }
  const bool acyclicTerms = !f.Texts().TermGraph().HasLoop();
  if (!acyclicTerms) c.count("resolved-texts-unconstrained-cyclic-terms");
  const std::string c1 = canonDump(j1, acyclicTerms), c2 = canonDump(JSON(g), acyclicTerms);
  CHECK(c1 == c2, "save-load-save", "re-serialising the loaded schema gives another document: " + firstDiff(c1, c2));
  // the python wrapper: load-then-save with reference resolution switched off keeps items, order and formal parts
  {
    const std::string out = CheckSchema(s1);
    ccl::lang::TextEnvironment::Instance().skipResolving = false;
    const JSON jo = JSON::parse(out);
    CHECK(jo.at("items").size() == j1.at("items").size(), "pyconcept-check-schema", "CheckSchema changed the number of items");
    for (size_t i = 0; i < jo.at("items").size(); ++i) {
      const auto& a = j1.at("items")[i]; const auto& b = jo.at("items")[i];
      for (const char* k : {"entityUID", "cstType", "alias", "convention"}) CHECK(a.at(k) == b.at(k), "pyconcept-check-schema", std::string("CheckSchema changed ") + k + " of item " + std::to_string(i));
      CHECK(a.at("definition").at("formal") == b.at("definition").at("formal"), "pyconcept-check-schema", "CheckSchema changed a formal definition");
      CHECK(a.at("parse") == b.at("parse"), "pyconcept-check-schema", "CheckSchema reports another analysis for item " + std::to_string(i) + ": " + a.at("parse").dump() + " vs " + b.at("parse").dump());
    }
  }
  c.nontrivial = incorrect || nonAscii;
  if (incorrect) c.label("has-incorrect-constituent");
  if (nonAscii) c.label("has-non-ascii-text");
  if (tracked) c.label("has-tracking");
  c.label("items:" + std::to_string(std::min<size_t>(f.List().size(), 8)));
  return pbt::pass();
}

// ---- text chains: term references of depth >= 2 feeding text definitions, incremental term edits, then save/load/save --
// (the resolved texts are part of the document: a stale one makes the loaded object, which resolves everything afresh,
// serialise differently)
Verdict textRoundtripProp(Ctx& c) {
  const uint64_t idSeed = static_cast<uint64_t>(c.pick(1, 1000000));
  const int n = c.ipick(3, 6);
  static const char* forms[] = {"nomn,sing", "datv,plur", "gent,sing", "ablt,plur"};
  auto refTo = [&](int j) { return "@{X" + std::to_string(j + 1) + "|" + forms[c.ipick(0, 3)] + "}"; };
  auto termText = [&](int i) -> std::string {  // references only to lower indices: resolution is well defined
    const int w = c.ipick(0, 4);
    if (i == 0 || w == 0) return std::string("\xD1\x81\xD0\xBB\xD0\xBE\xD0\xB2\xD0\xBE") + std::to_string(c.ipick(1, 9));
    if (w == 1) return "big " + refTo(i - 1);
    if (w == 2) return refTo(c.ipick(0, i - 1)) + " of " + refTo(i - 1);
    if (w == 3) return refTo(i - 1) + " @{-1|small}";
    return "";
  };
  auto defText = [&]() -> std::string { const int w = c.ipick(0, 3); if (w == 0) return ""; if (w == 1) return "owner of " + refTo(c.ipick(0, n - 1)); if (w == 2) return refTo(c.ipick(0, n - 1)) + " and " + refTo(c.ipick(0, n)); return "plain"; };
  struct TOp { int kind, target, aux; std::string text; };
  std::vector<std::string> terms, defs;
  for (int i = 0; i < n; ++i) { terms.push_back(termText(i)); defs.push_back(defText()); }
  std::vector<TOp> ops;
  const int nOps = c.ipick(1, 6);
  for (int i = 0; i < nOps; ++i) {
    TOp op; op.kind = c.ipick(0, 9); op.target = c.ipick(0, n - 1); op.aux = c.ipick(0, 3);
    if (op.kind <= 3) op.text = termText(op.target);
    else if (op.kind <= 5) op.text = std::string("form") + std::to_string(c.ipick(1, 5));
    else if (op.kind <= 7) op.text = defText();
    ops.push_back(op);
  }
  static const char* names[] = {"SetTerm", "SetTerm", "SetTerm", "SetTerm", "SetForm", "SetForm", "SetText", "SetText", "Rename", "Erase"};
  c.show << "terms:"; for (int i = 0; i < n; ++i) c.show << " X" << i + 1 << "='" << terms[static_cast<size_t>(i)] << "'/'" << defs[static_cast<size_t>(i)] << "'";
  c.show << " ops:"; for (auto& op : ops) c.show << " " << names[op.kind] << "(X" << op.target + 1 << ",'" << op.text << "')";
  c.exec();
  Executor ex(idSeed);
  RSForm& f = ex.form;
  std::vector<EntityUID> uids;
  for (int i = 0; i < n; ++i) uids.push_back(f.Emplace(CstType::base));
  for (int i = 0; i < n; ++i) { f.SetTermFor(uids[static_cast<size_t>(i)], terms[static_cast<size_t>(i)]); f.SetDefinitionFor(uids[static_cast<size_t>(i)], defs[static_cast<size_t>(i)]); }
  bool chainEdit = false;
  for (const auto& op : ops) {
    const auto uid = uids[static_cast<size_t>(op.target)];
    if (!f.Contains(uid)) continue;
    if (op.kind <= 5) { const auto dependants = f.Texts().TermGraph().ExpandOutputs({uid}); if (dependants.size() > 1) { const auto defDeps = f.Texts().DefGraph().ExpandOutputs(dependants); if (defDeps.size() > dependants.size()) chainEdit = true; } }
    if (op.kind <= 3) f.SetTermFor(uid, op.text);
    else if (op.kind <= 5) f.SetTermFormFor(uid, op.text, ccl::lang::Morphology(std::string_view(forms[op.aux])));
    else if (op.kind <= 7) f.SetDefinitionFor(uid, op.text);
    else if (op.kind == 8) f.SetAliasFor(uid, "X" + std::to_string(20 + op.aux), true);
    else f.Erase(uid);
    const JSON j1 = JSON(f);
    auto loaded = ccl::api::RSFormJA::FromJSON(j1.dump(1, ' ', false, JSON::error_handler_t::replace));
    { const Verdict v = sameCore(f, loaded.data(), "schema"); if (v.kind != Verdict::PASS) return v; }
    const bool acyclicTerms = !f.Texts().TermGraph().HasLoop();
    if (!acyclicTerms) c.count("resolved-texts-unconstrained-cyclic-terms");
    const std::string c1 = canonDump(j1, acyclicTerms), c2 = canonDump(JSON(loaded.data()), acyclicTerms);
    CHECK(c1 == c2, "save-load-save", std::string("after ") + names[op.kind] + "(X" + std::to_string(op.target + 1) + "): re-serialising the loaded schema gives another document: " + firstDiff(c1, c2));
  }
  c.nontrivial = chainEdit;
  if (chainEdit) c.label("term-edit-with-term-and-definition-dependants");
  return pbt::pass();
}

// ---- models -----------------------------------------------------------------------------------------------
struct ModelPlan {
  struct Base { std::vector<std::pair<int, std::string>> texts; bool viaAdd = false; };
  std::vector<Base> bases;                 // X1.. (1-2)
  int structKind = 0;                      // S1 definition: 0 none, 1 ℬ(X1), 2 ℬ(X1×X1), 3 ℬℬ(X1), 4 ℬ(X1×ℬ(X1)), 5 ℬ(ℬ(X1×X1)×X1), 6 ℬ(ℬ(X1)×ℬ(X1×X1)×X1)
  std::vector<std::vector<int>> sdata;     // raw picks to build structure data
  std::vector<std::string> derived;        // definitions of terms / axioms
  std::vector<char> derivedKind;           // 'D' or 'A'
  bool recalc = false; std::vector<int> calcPicks;
};

Verdict modelProp(Ctx& c) {
  ModelPlan p;
  const int nb = c.ipick(1, 2);
  for (int i = 0; i < nb; ++i) {
    ModelPlan::Base b; b.viaAdd = c.chance(1, 3);
    const int n = c.ipick(0, 4);
    std::set<int> keys;
    for (int k = 0; k < n; ++k) { int key = b.viaAdd || c.chance(2, 3) ? k + 1 : c.ipick(-2, 9); if (!keys.insert(key).second) continue; b.texts.emplace_back(key, c.chance(1, 4) ? "\xD1\x8D\xD0\xBB" + std::to_string(key) : "el" + std::to_string(key)); }
    p.bases.push_back(b);
  }
  p.structKind = c.ipick(0, 6);
  for (int i = 0, n = c.ipick(0, 4); i < n; ++i) p.sdata.push_back({c.ipick(0, 8), c.ipick(0, 8), c.ipick(0, 3), c.ipick(0, 8)});
  static const std::vector<std::pair<char, std::string>> defs = {{'D', "X1\\X1"}, {'D', "X1"}, {'D', "D1" U8_UNION "X1"}, {'D', "Pr1(S1)"}, {'D', "red(S1)"}, {'D', "{X1}"}, {'D', "{{X1}, {D1}}"}, {'D', U8_BOOL "(X1)\\" U8_BOOL "(X1)"},
                                                                {'D', "(X1, \xE2\x88\x85)"}, {'A', "X1=X1"}, {'A', U8_ALL "a" U8_IN "X1 a" U8_IN "D1"}, {'A', "card(X1)>9"}, {'D', "X9"}, {'D', "debool(X1)"}, {'D', "S1"}, {'D', "{(X1, D1)}"}};
  for (int i = 0, n = c.ipick(0, 5); i < n; ++i) { const auto& d = c.oneof(defs); p.derivedKind.push_back(d.first); p.derived.push_back(d.second); }
  p.recalc = c.coin();
  for (int i = 0, n = c.ipick(0, 3); i < n; ++i) p.calcPicks.push_back(c.ipick(0, 9));
  const uint64_t idSeed = static_cast<uint64_t>(c.pick(1, 1000000));
  const bool lateStructure = c.ipick(0, 3) == 3;

  c.show << "bases:"; for (auto& b : p.bases) { c.show << (b.viaAdd ? " add{" : " set{"); for (auto& [k, t] : b.texts) c.show << k << ":" << t << ","; c.show << "}"; }
  c.show << " struct=" << p.structKind << " sdata=" << p.sdata.size() << " derived:"; for (size_t i = 0; i < p.derived.size(); ++i) c.show << " " << p.derivedKind[i] << ":" << p.derived[i];
  c.show << (lateStructure ? " late-structure" : "") << (p.recalc ? " RecalculateAll" : "") << " calc:"; for (int x : p.calcPicks) c.show << " #" << x;
  c.exec();

  ccl::tools::EntityGenerator::VerifSeed(idSeed);
  struct Unseed { ~Unseed() { ccl::tools::EntityGenerator::VerifUnseed(); } } unseed;
  ccl::semantic::RSModel m;
  m.title = "model"; m.alias = "M";
  std::vector<EntityUID> baseU;
  bool sparseKeys = false;
  for (auto& b : p.bases) {
    const auto uid = m.Emplace(CstType::base); baseU.push_back(uid);
    if (b.viaAdd) { for (auto& [k, t] : b.texts) (void)m.Values().AddBasicElement(uid, t); }
    else { ccl::semantic::TextInterpretation ti; int expect = 1; for (auto& [k, t] : b.texts) { ti.SetInterpretantFor(k, t); } std::vector<int> ks; for (auto& [k, t] : b.texts) ks.push_back(k); std::sort(ks.begin(), ks.end()); for (int k : ks) { if (k != expect) sparseKeys = true; ++expect; } (void)m.Values().SetBasicText(uid, ti); }
  }
  // known finding (recorded): the model document stores base interpretations as a plain list of texts, so keys other than 1..n are renumbered on reload
  if (sparseKeys && pbt::known("model-json-drops-text-keys")) return pbt::excluded("model-json-drops-text-keys");
  EntityUID sU = 0;
  if (p.structKind) {
    static const char* sdefs[] = {"", U8_BOOL "(X1)", U8_BOOL "(X1" U8_TIMES "X1)", U8_BOOL U8_BOOL "(X1)", U8_BOOL "(X1" U8_TIMES U8_BOOL "(X1))",
                                  U8_BOOL "(" U8_BOOL "(X1" U8_TIMES "X1)" U8_TIMES "X1)", U8_BOOL "(" U8_BOOL "(X1)" U8_TIMES U8_BOOL "(X1" U8_TIMES "X1)" U8_TIMES "X1)"};
    sU = m.Emplace(CstType::structured, sdefs[p.structKind]);
    std::vector<int> keys; for (auto& [k, t] : p.bases[0].texts) keys.push_back(k);
    if (p.bases[0].viaAdd) { keys.clear(); for (size_t i = 0; i < p.bases[0].texts.size(); ++i) keys.push_back(static_cast<int>(i + 1)); }
    if (!keys.empty()) {
      using ccl::object::Factory;
      auto el = [&](int pick) { return Factory::Val(keys[static_cast<size_t>(pick) % keys.size()]); };
      auto sub = [&](int a, int b, int n) { std::vector<ccl::object::StructuredData> v; if (n >= 1) v.push_back(el(a)); if (n >= 2) v.push_back(el(b)); return Factory::Set(v); };
      std::vector<ccl::object::StructuredData> items;
      for (auto& d : p.sdata) {
        if (p.structKind == 1) items.push_back(el(d[0]));
        else if (p.structKind == 2) items.push_back(Factory::Tuple({el(d[0]), el(d[1])}));
        else if (p.structKind == 3) items.push_back(sub(d[0], d[1], d[2]));
        else if (p.structKind == 4) items.push_back(Factory::Tuple({el(d[0]), sub(d[1], d[3], d[2])}));
        else {
          std::vector<ccl::object::StructuredData> pairs;  // 0-2 pairs: the inner set is often empty and not the last component
          if (d[2] >= 2) pairs.push_back(Factory::Tuple({el(d[0]), el(d[1])}));
          if (d[2] >= 3) pairs.push_back(Factory::Tuple({el(d[3]), el(d[0])}));
          if (p.structKind == 5) items.push_back(Factory::Tuple({Factory::Set(pairs), el(d[3])}));
          else items.push_back(Factory::Tuple({sub(d[0], d[1], d[2] % 3), Factory::Set(pairs), el(d[3])}));
        }
      }
      (void)m.Values().SetStructureData(sU, Factory::Set(items));
    }
  }
  for (size_t i = 0; i < p.derived.size(); ++i) (void)m.Emplace(p.derivedKind[i] == 'D' ? CstType::term : CstType::axiom, p.derived[i]);
  if (lateStructure) {  // a structure declared over a base set that is created only afterwards: it becomes typed by that insertion
    const std::string late = "X" + std::to_string(p.bases.size() + 1);
    (void)m.Emplace(CstType::structured, std::string(U8_BOOL "(") + late + ")");
    (void)m.Emplace(CstType::base);
    c.label("structure-declared-before-its-base-set");
  }
  std::vector<EntityUID> l; for (auto u : m.List()) l.push_back(u);
  if (p.recalc) m.Calculations().RecalculateAll();
  for (int x : p.calcPicks) (void)m.Calculations().Calculate(l[static_cast<size_t>(x) % l.size()]);

  const JSON j1 = JSON(m);
  ccl::semantic::RSModel m2;
  j1.get_to(m2);
  { const Verdict v = sameCore(m, m2, "model"); if (v.kind != Verdict::PASS) return v; }
  bool nestedEmpty = false, hasValues = false;
  for (auto uid : l) {
    const std::string alias = m.GetRS(uid).alias;
    const auto* t1 = m.Values().TextFor(uid); const auto* t2 = m2.Values().TextFor(uid);
    CHECK((t1 == nullptr || t1->empty()) == (t2 == nullptr || t2->empty()), "lost-interpretation", "text interpretation of " + alias + " appeared / disappeared");
    if (t1 != nullptr && t2 != nullptr) {
      std::string a, b; for (auto& [k, v] : *t1) a += std::to_string(k) + ":" + v + ","; for (auto& [k, v] : *t2) b += std::to_string(k) + ":" + v + ",";
      CHECK(a == b, "lost-interpretation-keys", "text interpretation of " + alias + " {" + a + "} reloaded as {" + b + "}");
    }
    const auto d1 = m.Values().SDataFor(uid), d2 = m2.Values().SDataFor(uid);
    CHECK(d1.has_value() == d2.has_value(), "lost-data", "data of " + alias + (d1.has_value() ? " lost" : " invented") + " by the round trip" + (d1.has_value() ? " (" + d1->ToString() + ")" : ""));
    if (d1.has_value()) { CHECK(*d1 == *d2, "lost-data", "data of " + alias + " " + d1->ToString() + " reloaded as " + d2->ToString()); hasValues = true; const auto s = d1->ToString(); if (s.find("{}") != std::string::npos && s != "{}") nestedEmpty = true; }
    const auto b1 = m.Values().StatementFor(uid), b2 = m2.Values().StatementFor(uid);
    CHECK(b1 == b2, "lost-statement", "statement value of " + alias + " changed");
    CHECK(m.Calculations().WasCalculated(uid) == m2.Calculations().WasCalculated(uid), "lost-calculated-flag", "calculated flag of " + alias + " changed");
  }
  const std::string c1 = canonDump(j1), c2 = canonDump(JSON(m2));
  CHECK(c1 == c2, "save-load-save", "re-serialising the loaded model gives another document: " + firstDiff(c1, c2));
  c.nontrivial = hasValues && (nestedEmpty || !p.derived.empty());
  if (nestedEmpty) c.label("nested-empty-value");
  if (sparseKeys) c.label("sparse-text-keys");
  if (hasValues) c.label("has-values");
  return pbt::pass();
}

}  // namespace

int main(int argc, char** argv) {
  std::vector<pbt::Prop> props;
  props.push_back({"schema_roundtrip", schemaProp, 1500, 25000, false, false, "schemas reached by editing histories"});
  props.push_back({"text_roundtrip", textRoundtripProp, 800, 12000, false, false, "chains of term references feeding text definitions, incremental text edits, save/load/save after every edit"});
  props.push_back({"model_roundtrip", modelProp, 2500, 40000, false, false, "models with keyed base interpretations, structure data and calculated values"});
  return pbt::main(argc, argv, "C10", props);
}
