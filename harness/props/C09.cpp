// C09 - identity and ordering invariants of a schema hold after any edit history.
// Oracle: validity predicates over every reachable state (unique uids / aliases, alias letter = kind, list = permutation
// of the core ordered by kind priority, erased constituents gone from every view, refused operations change nothing).
#include "model/schemahist.hpp"

using pbt::Ctx;
using pbt::Verdict;
using namespace sh;

namespace {

#define CHECK(cond, oracle, msg) do { if (!(cond)) return pbt::fail(oracle, msg); } while (0)

Verdict invariants(const RSForm& f, const std::set<EntityUID>& erased, const std::string& after) {
  std::vector<EntityUID> l; for (const auto uid : f.List()) l.push_back(uid);
  std::set<EntityUID> ls(l.begin(), l.end());
  CHECK(ls.size() == l.size(), "list-duplicate", "the ordered list holds a constituent twice after " + after);
  std::set<EntityUID> core; for (const auto uid : f.Core()) core.insert(uid);
  CHECK(core == ls, "list-vs-core", "list is not a permutation of the core after " + after + " (list " + std::to_string(ls.size()) + ", core " + std::to_string(core.size()) + ")");
  CHECK(f.Core().size() == l.size() && f.RSLang().size() == l.size() && f.Texts().size() == l.size(), "view-sizes", "formal part / texts / list sizes differ after " + after);
  std::set<std::string> aliases;
  int prevPriority = 100;
  for (const auto uid : l) {
    CHECK(f.Contains(uid) && f.RSLang().Contains(uid) && f.Texts().Contains(uid), "view-membership", "listed uid missing from a view after " + after);
    const auto& rs = f.GetRS(uid); const auto& tx = f.GetText(uid);
    CHECK(rs.uid == uid && tx.uid == uid, "uid-mismatch", "stored uid differs from key after " + after);
    CHECK(rs.alias == tx.alias, "alias-views", "formal alias '" + rs.alias + "' != text alias '" + tx.alias + "' after " + after);
    CHECK(aliases.insert(rs.alias).second, "alias-duplicate", "alias '" + rs.alias + "' used twice after " + after);
    CHECK(Executor::aliasWellFormedFor(rs.alias, rs.type), "alias-kind", "alias '" + rs.alias + "' does not match kind " + kindName(rs.type) + " after " + after);
    const auto found = f.Core().FindAlias(rs.alias);
    CHECK(found.has_value() && *found == uid, "find-alias", "FindAlias('" + rs.alias + "') does not return its owner after " + after);
    const int p = kindPriority(rs.type);
    CHECK(p <= prevPriority, "kind-order", "list order violates base > constant > structure > derived at '" + rs.alias + "' after " + after);
    prevPriority = p;
    CHECK(f.RSLang().Graph().Contains(uid), "graph-vertex", "live constituent '" + rs.alias + "' is not a vertex of the dependency graph after " + after);
  }
  CHECK(f.RSLang().Graph().ItemsCount() == static_cast<int>(l.size()), "graph-vertex", "dependency graph has " + std::to_string(f.RSLang().Graph().ItemsCount()) + " vertices for " + std::to_string(l.size()) + " constituents after " + after);
  for (const auto uid : erased) {
    if (ls.count(uid)) continue;  // the identifier was issued again later: a different constituent now
    CHECK(!f.Contains(uid) && !f.RSLang().Contains(uid) && !f.Texts().Contains(uid), "erased-visible", "erased uid still in a view after " + after);
    CHECK(!f.Mods().IsTracking(uid), "erased-tracked", "erased uid still tracked after " + after);
    CHECK(!f.RSLang().Graph().Contains(uid) && !f.Texts().TermGraph().Contains(uid) && !f.Texts().DefGraph().Contains(uid), "erased-in-graph", "erased uid still a graph vertex after " + after);
    for (const auto v : l) CHECK(!f.RSLang().Graph().ConnectionExists(uid, v) && !f.RSLang().Graph().ConnectionExists(v, uid), "erased-in-graph", "edge from/to an erased uid after " + after);
  }
  for (const auto uid : l) if (f.Mods().IsTracking(uid)) CHECK(f.Contains(uid), "tracking", "tracking entry for a missing constituent after " + after);
  return pbt::pass();
}

Verdict runHistory(Ctx& c, bool loads) {
  GenOpts o; o.tracking = true; o.merges = true; o.maxOps = 16; o.loads = loads;
  const uint64_t idSeed = static_cast<uint64_t>(c.pick(1, 1000000));
  const auto ops = genHistory(c, o);
  for (size_t i = 0; i < ops.size(); ++i) c.show << (i ? "; " : "") << showOp(ops[i]);
  c.exec();
  Executor ex(idSeed);
  std::set<EntityUID> erased, everSeen;
  bool collision = false, refused = false, reinsert = false;
  for (const auto& op : ops) {
    const std::string name = showOp(op);
    std::set<std::string> aliasesBefore; for (const auto uid : ex.form.List()) aliasesBefore.insert(ex.form.GetRS(uid).alias);
    std::set<EntityUID> before; for (const auto uid : ex.form.List()) before.insert(uid);
    const std::string jsonBefore = toJson(ex.form);
    for (auto& r : op.recs) { const auto u = ex.resolve(r); if (before.count(u) || aliasesBefore.count(r.alias)) collision = true; if (erased.count(u) && !before.count(u)) reinsert = true; }
    const Applied a = ex.apply(op);
    if (a.skipped) continue;
    if (a.refusedByCause) {
      refused = true;
      c.label("refused:" + a.cause);
      CHECK(!a.returned, "refused-returns-true", name + " must be refused (" + a.cause + ") but reported success");
      CHECK(toJson(ex.form) == jsonBefore, "refused-changes-state", name + " was refused (" + a.cause + ") but the schema changed");
    }
    if (a.effectiveErase) erased.insert(a.uid);
    if (op.kind == Op::DEDUP || op.kind == Op::MERGE) { for (auto u : before) if (!ex.form.Contains(u)) erased.insert(u); }
    for (auto u : a.created) CHECK(ex.form.Contains(u), "created-missing", name + " returned a uid that is not in the schema");
    if (op.kind == Op::EMPLACE) CHECK(ex.form.GetRS(a.uid).type == op.cst, "created-kind", name + " created a constituent of another kind");
    const Verdict v = invariants(ex.form, erased, name);
    if (v.kind != Verdict::PASS) return v;
    c.label(std::string("op:") + opName(op.kind));
  }
  // a copy behaves like the original
  { RSForm copy = ex.form; CHECK(toJson(copy) == toJson(ex.form), "copy-differs", "a copy of the schema serialises differently"); const Verdict v = invariants(copy, erased, "copy"); if (v.kind != Verdict::PASS) return pbt::fail("copy-" + v.oracle, v.msg); }
  c.nontrivial = collision || refused || reinsert;
  if (collision) c.label("has-collision");
  if (reinsert) c.label("erase-then-reinsert");
  return pbt::pass();
}

Verdict historyProp(Ctx& c) { return runHistory(c, false); }
Verdict loadHistoryProp(Ctx& c) { return runHistory(c, true); }

}  // namespace

int main(int argc, char** argv) {
  std::vector<pbt::Prop> props;
  props.push_back({"history", historyProp, 2500, 30000, false, false, "random editing histories; invariants after every operation"});
  props.push_back({"load_history", loadHistoryProp, 800, 10000, false, false, "the same histories with RSForm::Load (+UpdateState) of colliding / ill-formed records among the operations"});
  return pbt::main(argc, argv, "C09", props);
}
