// C03 - the checker's verdict and typification follow the RSLang typing rules.
// Oracle: the reference typing judgment of model/rstypecheck.hpp (M2).  (a) expressions generated with a known
// principal type must be accepted with exactly that typification; (b,c) near-miss mutants: verdict and type must agree
// with M2 wherever M2 is definite; a rejection must carry a critical error positioned inside the expression.
#include "model/libenv.hpp"
#include "model/rsmutate.hpp"
#include "model/rstypecheck.hpp"

#include "ccl/Strings.hpp"

using pbt::Ctx;
using pbt::Verdict;
using namespace rs;

namespace {

#define CHECK(cond, oracle, msg) do { if (!(cond)) return pbt::fail(oracle, msg); } while (0)

int depthOf(const Expr& e) { int d = 0; for (auto& k : e.kids) d = std::max(d, depthOf(*k)); return d + 1; }
bool hasKind(const Expr& e, std::initializer_list<TID> ids) { for (auto id : ids) if (e.id == id) return true; for (auto& k : e.kids) if (hasKind(*k, ids)) return true; return false; }

// Compositionality, independent of the reference typing rules: a subterm of an ACCEPTED expression that is closed (every local
// it uses is declared inside it, and none of those names is also declared outside it) is an expression in the same global
// context and must be accepted on its own.  A checker that skips some operand under a shortcut accepts the whole and
// rejects the part.
Verdict closedSubtermsAccepted(const EP& root, const LibEnv& env, const std::string& whole) {
  struct Occ { const Expr* node; bool decl; };
  std::vector<std::pair<const Expr*, std::vector<Occ>>> candidates;  // subterm -> local occurrences inside it
  std::vector<Occ> all;
  std::function<void(const Expr&, const Expr*, size_t, bool)> walk = [&](const Expr& e, const Expr* parent, size_t idx, bool declCtx) {
    const bool declHere = declCtx || (parent != nullptr && isDeclPosition(*parent, idx));
    if (e.id == TID::ID_LOCAL) all.push_back({&e, declHere});
    for (size_t i = 0; i < e.kids.size(); ++i) walk(*e.kids[i], &e, i, declHere && e.id != TID::NT_ARG_DECL ? true : (e.id == TID::NT_TUPLE_DECL || e.id == TID::NT_ENUM_DECL));
  };
  walk(*root, nullptr, 0, false);
  auto inside = [](const Expr& top, const Expr* x) { std::function<bool(const Expr&)> f = [&](const Expr& e) { if (&e == x) return true; for (auto& k : e.kids) if (f(*k)) return true; return false; }; return f(top); };
  std::vector<const Expr*> subs;
  std::function<void(const Expr&, const Expr*, size_t)> collect = [&](const Expr& e, const Expr* parent, size_t idx) {
    const bool declPos = parent != nullptr && (isDeclPosition(*parent, idx) || parent->id == TID::NT_TUPLE_DECL || parent->id == TID::NT_ENUM_DECL || parent->id == TID::NT_ARG_DECL || parent->id == TID::NT_ARGUMENTS);
    if (parent != nullptr && !declPos && isTermNode(e) && !e.kids.empty()) subs.push_back(&e);
    if (!declPos) for (size_t i = 0; i < e.kids.size(); ++i) collect(*e.kids[i], &e, i);
  };
  collect(*root, nullptr, 0);
  int checked = 0;
  for (const Expr* sub : subs) {
    if (checked >= 8) break;
    std::set<std::string> used, declIn, declOut;
    for (auto& o : all) { const bool in = inside(*sub, o.node); if (in) used.insert(o.node->name); if (o.decl) (in ? declIn : declOut).insert(o.node->name); }
    bool closed = true; for (auto& n : used) if (!declIn.count(n) || declOut.count(n)) closed = false;
    if (!closed) continue;
    ++checked;
    const std::string text = render(std::make_shared<Expr>(*sub));
    rl::Auditor a(env, env.valueContext(), env.astContext());
    if (!a.CheckType(text, rl::Syntax::MATH)) {
      std::string errs; for (auto& er : a.Errors().All()) { char b[40]; snprintf(b, sizeof b, " %04X@%d", er.eid, er.position); errs += b; }
      return pbt::fail("accepted-whole-rejected-part", "'" + whole + "' is accepted but its closed subterm '" + text + "' is rejected:" + errs);
    }
  }
  return pbt::pass();
}

Verdict typeWith(Ctx& c, bool scoping, bool templates = false) {
  TypedGen g(c);
  g.optReuseNames = scoping;  // binders re-declare names whose earlier scope has ended, at any depth
  g.optRichTemplates = templates;
  g.makeContext();
  if (c.coin()) { Global a; a.name = "A1"; a.type = Ty::Logic(); g.G.globals.push_back(a); }
  const int shape = templates ? 10 : (scoping && c.chance(1, 3)) ? 6 : c.ipick(0, 9);  // 0-5 plain, 6-7 function definition, 8 global definition, 9 structure declaration, 10 template call
  EP e;
  if (shape == 10) {
    e = g.makeCall(c.oneof(g.G.funcs), {}, c.ipick(1, 3));
    if (c.chance(1, 3)) e = mk(TID::PUNC_DEFINE, {mkName(TID::ID_GLOBAL, "D99"), e});
  } else if (shape <= 5 || shape == 8) {
    const int rootKind = c.ipick(0, 9);
    const Ty target = rootKind < 4 ? Ty::Logic() : rootKind < 8 ? Ty::Set(g.randType(2)) : g.randType(2);
    e = target.k == Ty::LOGIC ? g.genLogic(c.ipick(1, 3)) : g.genTerm(target, c.ipick(1, 3));
    if (shape == 8) e = mk(TID::PUNC_DEFINE, {mkName(TID::ID_GLOBAL, "D99"), e});
  } else if (shape <= 7) {
    std::vector<EP> decl;
    const int na = c.ipick(1, 3);
    static const std::vector<std::string> names = {"a", "b", "x", "s", "\xCE\xB1"};
    for (int i = 0; i < na; ++i) {
      const int w = c.ipick(0, 4);
      Ty t = w == 0 ? Ty::Base("R1") : w == 1 ? Ty::Set(Ty::Base("R1")) : w == 2 ? Ty::Set(Ty::Base("R2")) : g.randType(2);
      const std::string n = names[static_cast<size_t>(i)] + (c.chance(1, 5) ? "1" : "");
      // scoping: the domain of a parameter may be any closed set-typed term, with binders of its own (their locals precede the parameter)
      EP dom;
      if (scoping && !t.mentions("R1") && !t.mentions("R2") && c.chance(2, 3)) {
        const auto saved = g.scope; g.scope.clear();
        // a declarative set or a recursion over the plain domain: binders whose locals are declared before the parameter
        const std::string v = g.freshLocal();
        if (c.coin()) dom = mk(TID::NT_DECLARATIVE_EXPR, {mkName(TID::ID_LOCAL, v), domainExpr(t), mk(TID::EQUAL, {mkName(TID::ID_LOCAL, v), mkName(TID::ID_LOCAL, v)})});
        else dom = mk(TID::NT_RECURSIVE_SHORT, {mkName(TID::ID_LOCAL, v), domainExpr(t), mkName(TID::ID_LOCAL, v)});
        if (c.coin()) dom = mk(TID::UNION, {dom, g.genTerm(Ty::Set(t), 1)});
        g.scope = saved;
        c.label("funcdef:parameter-domain-with-binder");
      }
      else dom = domainExpr(t);
      g.scope.push_back({n, t}); g.everUsed.insert(n);
      decl.push_back(mk(TID::NT_ARG_DECL, {mkName(TID::ID_LOCAL, n), dom}));
    }
    EP body = c.coin() ? g.genLogic(c.ipick(1, 2)) : g.genTerm(c.coin() ? g.scope[0].type : g.randType(2), c.ipick(1, 2));
    e = mk(TID::NT_FUNC_DEFINITION, {mk(TID::NT_ARGUMENTS, decl), body});
    if (c.chance(1, 3)) e = mk(TID::PUNC_DEFINE, {mkName(TID::ID_FUNCTION, "F9"), e});
  } else {
    // mostly a proper typification expression; sometimes a global that is not a set (must be rejected with an error)
    std::vector<std::string> elementGlobals; for (auto& gl : g.G.globals) if (!gl.type.isSet() && gl.type.k != Ty::LOGIC) elementGlobals.push_back(gl.name);
    if (!elementGlobals.empty() && c.chance(1, 4)) e = mk(TID::PUNC_STRUCT, {mkName(TID::ID_GLOBAL, "S99"), mkName(TID::ID_GLOBAL, c.oneof(elementGlobals))});
    else e = mk(TID::PUNC_STRUCT, {mkName(TID::ID_GLOBAL, "S99"), domainExpr(Ty::Set(g.randType(2)))});
  }
  std::string opName;
  const bool doMutate = scoping ? c.chance(3, 4) : c.chance(1, 2);
  int force = -1;
  if (doMutate && scoping) { const int w = c.ipick(0, 5); force = w <= 2 ? 5 : w == 3 ? 10 : -1; }  // scoping: mostly "rename one occurrence of a local", sometimes "empty set next to an undeclared variable"
  if (doMutate) e = mutate(c, e, g.G, opName, force);
  const bool ascii = c.chance(1, 3);
  bool greek = false; { std::set<std::string> ns; std::function<void(const Expr&)> f = [&](const Expr& x) { if (x.id == TID::ID_LOCAL) for (unsigned char ch : x.name) greek |= ch >= 0x80; for (auto& k : x.kids) f(*k); }; f(*e); }
  PrintOpts po; po.syn = (ascii && !greek) ? Syn::ASCII : Syn::MATH;
  const std::string text = render(e, po);
  const rl::Syntax syn = po.syn == Syn::ASCII ? rl::Syntax::ASCII : rl::Syntax::MATH;
  c.show << showGamma(g.G) << "\n  " << (doMutate ? "mutant(" + opName + ") " : "generated ") << text;
  c.exec();

  TypeJudge judge(g.G);
  const TR ref = judge.check(e);

  LibEnv env(g.G, false);
  if (!env.buildError.empty()) return pbt::discard("function-text");
  rl::Auditor audit(env, env.valueContext(), env.astContext());
  const bool accepted = audit.CheckType(text, syn);
  std::string errText; bool parseErr = false;
  for (auto& er : audit.Errors().All()) { char b[40]; snprintf(b, sizeof b, " %04X@%d", er.eid, er.position); errText += b; parseErr |= er.eid == 0x8203 || (er.eid >= 0x8400 && er.eid < 0x8500); }
  CHECK(!parseErr, "valid-rejected", "grammatical text does not parse: '" + text + "'" + errText);
  const std::string refStr = ref.st == TR::OK ? "OK " + ref.t.str() : ref.st == TR::REJECT ? "REJECT(" + ref.rule + ")" : "UNSPEC(" + ref.rule + ")";
  c.label(std::string(doMutate ? "mutant" : "generated") + (accepted ? ":accepted" : ":rejected"));
  c.label("ref:" + std::string(ref.st == TR::OK ? "ok" : ref.st == TR::REJECT ? "reject:" + ref.rule : "unspec"));
  if (!accepted) {
    // faithful rejection: at least one critical error, every position inside the text
    CHECK(audit.Errors().HasCriticalErrors(), "reject-without-critical-error", "'" + text + "' rejected, errors:" + errText);
    const int len = syn == rl::Syntax::MATH ? ccl::SizeInCodePoints(text) : static_cast<int>(text.size());
    for (auto& er : audit.Errors().All()) CHECK(er.position >= 0 && er.position <= len, "error-position", "'" + text + "' error position out of the text:" + errText);
  }
  if (accepted) { const Verdict v = closedSubtermsAccepted(e, env, text); if (v.kind != Verdict::PASS) return v; }
  if (ref.st == TR::UNSPEC) { c.count("unspecified-by-reference"); return pbt::pass(); }
  if (!doMutate && ref.st == TR::REJECT) { c.count("generator-vs-reference"); return pbt::discard("generator-ill-typed-by-reference"); }
  CHECK(accepted == (ref.st == TR::OK), accepted ? "over-acceptance" : "under-acceptance", "'" + text + "' library " + (accepted ? "accepts" : "rejects" + errText) + ", typing rules say " + refStr);
  if (accepted) {
    const Ty got = fromLibExprType(audit.GetType());
    const std::string gotStr = std::holds_alternative<rl::LogicT>(audit.GetType()) ? "LOGIC" : std::get<rl::Typification>(audit.GetType()).ToString();
    CHECK(got == ref.t, "wrong-typification", "'" + text + "' reported " + gotStr + ", typing rules give " + ref.t.str());
    if (ref.t.k != Ty::LOGIC) CHECK(gotStr == ref.t.str(), "typification-spelling", "'" + text + "' spelled " + gotStr + " want " + ref.t.str());
    // value-class audit vs the reference value-class judgment
    {
      ValueJudge vj(g.G);
      const VR vref = vj.check(e);
      const bool vok = audit.CheckValue();
      const auto vcls = audit.GetValueClass();
      CHECK(vok == vref.ok, vok ? "value-audit-over-acceptance" : "value-audit-under-acceptance", "'" + text + "' CheckValue " + (vok ? "accepts" : "rejects") + ", value-class rules " + (vref.ok ? "accept" : "reject(" + vref.rule + ")"));
      if (vok) CHECK((vcls == rl::ValueClass::props) == (vref.cls == VClass::props), "value-class", "'" + text + "' reported " + (vcls == rl::ValueClass::props ? "props" : "value") + ", rules give " + (vref.cls == VClass::props ? "props" : "value"));
      else CHECK(audit.Errors().HasCriticalErrors(), "reject-without-critical-error", "'" + text + "' value audit rejected without critical error");
      c.label(std::string("value-audit:") + (vok ? (vcls == rl::ValueClass::props ? "props" : "value") : "rejected:" + vref.rule));
    }
    // declared argument list of function definitions
    const auto& args = audit.GetDeclarationArgs();
    CHECK(args.size() == judge.declaredArgs.size(), "declared-args", "'" + text + "' reports " + std::to_string(args.size()) + " declared arguments, want " + std::to_string(judge.declaredArgs.size()));
    for (size_t i = 0; i < args.size(); ++i)
      CHECK(args[i].name == judge.declaredArgs[i].first && fromLibType(args[i].type) == judge.declaredArgs[i].second, "declared-args", "'" + text + "' argument " + std::to_string(i) + " is " + args[i].name + ":" + args[i].type.ToString() + " want " + judge.declaredArgs[i].first + ":" + judge.declaredArgs[i].second.str());
  }
  c.nontrivial = depthOf(*e) >= 3 && (doMutate || hasKind(*e, {TID::NT_FUNC_CALL, TID::FORALL, TID::EXISTS, TID::NT_DECLARATIVE_EXPR, TID::NT_RECURSIVE_FULL, TID::NT_RECURSIVE_SHORT, TID::NT_IMPERATIVE_EXPR, TID::LIT_EMPTYSET, TID::NT_FUNC_DEFINITION}));
  if (doMutate) c.label("op:" + opName);
  return pbt::pass();
}

Verdict typeProp(Ctx& c) { return typeWith(c, false); }
Verdict scopingProp(Ctx& c) { return typeWith(c, true); }
Verdict templateProp(Ctx& c) { return typeWith(c, false, true); }

}  // namespace

int main(int argc, char** argv) {
  std::vector<pbt::Prop> props;
  props.push_back({"verdict_and_type", typeProp, 6000, 100000, false, false, "generated + mutated expressions vs the reference typing judgment"});
  props.push_back({"scoping", scopingProp, 3000, 50000, false, false, "expressions whose binders re-declare names of ended scopes (at any nesting depth), mostly with one occurrence of a local renamed to another local of the tree: in scope with another type, or out of scope"});
  props.push_back({"template_calls", templateProp, 2500, 40000, false, false, "calls of term / predicate functions whose parameter types are tuples, sets of tuples and nested sets over radicals shared between parameters and result; half of them mutated"});
  return pbt::main(argc, argv, "C03", props);
}
