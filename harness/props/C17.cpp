// C17 - text references are extracted, resolved and written back consistently.
//
// Oracle: reference model M6 (harness/model/reftext.hpp): brace-counting scanner for "@{...}" candidates, the documented
// well-formedness rules / canonical spelling, the documented resolution rules over a term-context model and a
// deterministic length-changing text processor, and a shadow text for Insert / EraseIn histories.
//
// Sub-properties
//   literal    fixed texts: the witnesses of the findings of this check (regress/C17/*.case name them by index) and the
//              strings of the upstream unit tests
//   enum_tokens5 / enum_tokens6   every text of <=5 (<=6: thorough) symbols over {"@{","@","{","}","|","X1","nomn","-1","a","ℬ"}
//   extract    Reference::ExtractAll / Parse / ToString vs M6 on generated segment texts
//   resolve    RefsManager::Resolve / get / OutputRefs (whole + sub-range) under generated term contexts
//   managed    ManagedText InitFrom / Str / Raw / Referals / TranslateRaw / UpdateFrom / TranslateRefs
//   history    Insert / EraseIn(+-expand) histories on a resolved text vs the shadow text
#include "common/pbt.hpp"
#include "model/reftext_glue.hpp"

#include "ccl/Substitutes.hpp"

using ccl::StrRange;
using ccl::lang::ManagedText;
using ccl::lang::Reference;
using ccl::lang::RefsManager;
using pbt::Ctx;
using pbt::Verdict;

namespace {

#define CHECK(cond, oracle, msg) do { if (!(cond)) return pbt::fail(oracle, msg); } while (0)
#define PROPAGATE(expr) do { const Verdict v_ = (expr); if (v_.kind != Verdict::PASS) return v_; } while (0)

std::string esc(const std::string& s) { return pbt::printable(glue::esc(s)); }
using glue::rng;
Verdict lift(const glue::Failure& f) { return f.failed() ? pbt::fail(f.oracle, f.msg) : pbt::pass(); }

// key of the listed known finding whose class contains this text ("" if none; all four findings are repaired, so no key
// is listed any more and nothing is excluded)
std::string knownClass(const std::string& text, const m6::Scan& sc) { return glue::knownClass(text, sc, [](const char* k) { return pbt::known(k); }); }

// ------------------------------------------------------------------------------------------------ generators
const std::vector<std::string> kPlain = {
    "a", " ", "b", "Z", "1", "a", " ", "e", "t", " ",
    "\xD0\xB6", "\xC3\xA9", "\xE2\x84\xAC", "\xE4\xB8\xAD", "\xF0\x9F\x98\x80", "\xF0\x9D\x94\xB8", "\xD0\xB6", "\xE2\x84\xAC",
    ",", "-", "0", "\n", "@", "{", "}", "|", "x", "{", "}", "|"};
const std::vector<std::string> kNames = {"X1", "X2", "X3", "D11", "abc", "T", "S1"};
const std::vector<std::string> kUnknownTags = {"foo", "PLUR", "UNKN", "nom", "nomnn", "", "1", "Nomn"};
const std::vector<std::string> kCollabTexts = {"basic", "x", "", "\xD1\x91\xD0\xB6", "void", "long companion text", "a,b", "a{b}c", "\xE4\xB8\xAD\xE6\x96\x87",
                                               "\xF0\x9F\x98\x80!", "see @{x}", " "};
const std::vector<std::string> kNominals = {"Test", "\xD0\x9C\xD0\xBD\xD0\xBE\xD0\xB6\xD0\xB5\xD1\x81\xD1\x82\xD0\xB2\xD0\xBE", "\xE2\x84\xAC-set", "x", "a b",
                                            "\xF0\x9F\x98\x80", "term with @{X1|nomn} inside", "{", "12"};
const std::vector<std::string> kManualForms = {"manual", "", "\xD1\x80\xD1\x83\xD1\x87\xD0\xBD\xD0\xB0\xD1\x8F", "m", "\xF0\x9D\x94\xB8\xF0\x9D\x94\xB8"};
const std::vector<std::string> kMalformed = {
    "@{}", "@{ }", "@{|}", "@{ | }", "@{ || }", "@{X1}", "@{X1|}", "@{|nomn}", "@{X1|foo}", "@{X1|NOMN}", "@{-1a|text}", "@{+1|a}", "@{1|a|b}",
    "@{X1|nomn|sing|0|1}", "@{\xD0\xB6" "1|nomn}", "@{1X|nomn}", "@{X1,nomn}", "@{X2,datv,sing}", "@{-|a}", "@{- 1|a}", "@{ -1|a}", "@ {X1|nomn}", "@{X1|nomn",
    "@{", "@", "@{X1|nomn @{X2|sing}}", "@{-1|see @{X1|nomn}}", "@{abc @{X1|nomn}", "@{X1|nomn}}", "{@{X1|nomn}}", "@{X1|foo|bar}", "@{X1|UNKN}",
    "@@@{X1|nomn}", "@{{X1|nomn}}", "@{X1|{nomn}}", "@{foo @{-1|a} @{X2|datv} }", "@{|}@{X1|sing}", "@{1.5|a}", "@a@{X1|nomn}", "@{X1|nomn}@", "@{X1|\xD0\xB6}"};
// candidates without a documented reading (the model answers Unspecified)
const std::vector<std::string> kUnspecified = {"@{X1||nomn}", "@{X1|nomn,sing|0}", "@{X1 |nomn}", "@{X1|nomn|0a}", "@{X1|nomn|1per}", "@{X\xD0\xB6|nomn}", "@{X{}|nomn}"};
// the classes of the findings this check made (repaired in /repo; rare here, the `literal` sub-property replays them every run)
const std::vector<std::string> kKnownDefect = {"@@{X1|nomn}", "@@{-1|a}", "@{X1|nomn|}", "@{X1|nomn|sing|}", "@{X1|nomn,sing|0|}", "@{40000|t}", "@{-32769|t}",
                                               "@{99999999999|t}", "@{-2147483649|t}", "@{2147483648|}"};

std::string genPlain(Ctx& c, int maxLen) {
  std::string s;
  const int n = c.ipick(0, maxLen);
  for (int i = 0; i < n; ++i) s += c.oneof(kPlain);
  return s;
}
std::string decorate(Ctx& c, std::string tag) {
  if (c.chance(1, 6)) tag = " " + tag;
  if (c.chance(1, 8)) tag += c.coin() ? " " : "\t";
  return tag;
}
std::string genEntityRef(Ctx& c) {
  const std::string name = c.oneof(kNames);
  std::vector<std::string> items;
  const int n = c.ipick(1, 4);
  for (int i = 0; i < n; ++i) items.push_back(m6::tagNames()[static_cast<size_t>(c.ipick(0, 34))]);
  // prefer the forms the processor reacts to
  if (c.chance(1, 2)) items[0] = c.oneof(std::vector<std::string>{"nomn", "gent", "datv", "ablt", "accs", "loct", "plur", "sing"});
  if (c.chance(1, 4)) items.insert(items.begin() + c.ipick(0, static_cast<int>(items.size())), c.oneof(kUnknownTags));
  if (c.chance(1, 8)) items.push_back(items[0]);
  std::string s = "@{" + name + "|";
  for (size_t i = 0; i < items.size(); ++i) s += (i ? "," : "") + decorate(c, items[i]);
  return s + "}";
}
std::string genLegacyRef(Ctx& c) {
  const std::string name = c.oneof(kNames);
  const auto tag = [&] { return m6::tagNames()[static_cast<size_t>(c.ipick(0, 34))]; };
  const std::vector<std::string> nums = {"0", "1", "42", "007"};
  // a last field that starts with a digit but is not a number ("1per") has no documented reading: never generated last
  const auto lastTag = [&] { const int i = c.ipick(0, 31); return m6::tagNames()[static_cast<size_t>(i < 21 ? i : i + 3)]; };
  const bool odd = c.chance(1, 6);
  const std::string oddTag = c.oneof(std::vector<std::string>{"foo", "PLUR", "x y"});
  switch (c.ipick(0, 3)) {
    case 0: return "@{" + name + "|" + decorate(c, tag()) + "|" + (odd ? oddTag : lastTag()) + "}";
    case 1: return "@{" + name + "|" + tag() + "|" + (odd ? oddTag : tag()) + "|" + c.oneof(nums) + "}";
    case 2: return "@{" + name + "|" + tag() + "|" + c.oneof(nums) + "}";
    default: return "@{" + name + "|" + tag() + "|" + (odd ? oddTag : tag()) + "|" + lastTag() + "}";
  }
}
std::string genCollabRef(Ctx& c) {
  long long off = 0;
  switch (c.ipick(0, 9)) {
    case 0: case 1: case 2: case 3: case 4: case 5: off = c.ipick(-3, 3); break;
    case 6: case 7: off = (c.coin() ? 1 : -1) * c.ipick(4, 300); break;
    case 8: off = c.oneof(std::vector<long long>{32767, -32768, 32766, -32767, 1000}); break;
    default: off = c.ipick(-3, 3); break;
  }
  std::string num = std::to_string(off < 0 ? -off : off);
  if (c.chance(1, 8)) num = std::string(static_cast<size_t>(c.ipick(1, 3)), '0') + num;
  if (off < 0 || (off == 0 && c.chance(1, 4))) num = "-" + num;
  return "@{" + num + "|" + c.oneof(kCollabTexts) + "}";
}

struct GenText {
  std::string text;
  bool hasMalformedSeg = false, hasUnspecifiedSeg = false, hasLegacy = false, hasCollab = false;
};
// profile 0: extraction (many malformed / stray pieces), 1: resolution (mostly well-formed), 2: history (well-formed, spaced)
GenText genText(Ctx& c, int profile) {
  GenText g;
  const int n = c.ipick(1, profile == 0 ? 8 : 7);
  for (int i = 0; i < n; ++i) {
    const int k = c.ipick(0, 99);
    const int plainTo = profile == 0 ? 30 : profile == 1 ? 32 : 40;
    const int entTo = plainTo + (profile == 0 ? 22 : 34);
    const int colTo = entTo + (profile == 0 ? 12 : 16);
    const int legTo = colTo + (profile == 0 ? 8 : 8);
    const int malTo = legTo + (profile == 0 ? 22 : profile == 1 ? 6 : 2);
    if (k < plainTo) {
      if (profile == 2) { const int m = c.ipick(0, 4); for (int j = 0; j < m; ++j) g.text += c.oneof(std::vector<std::string>{"a", " ", "\xD0\xB6", "\xE2\x84\xAC", "\xF0\x9F\x98\x80", "b"}); }
      else g.text += genPlain(c, 6);
    }
    else if (k < entTo) g.text += genEntityRef(c);
    else if (k < colTo) { g.text += genCollabRef(c); g.hasCollab = true; }
    else if (k < legTo) { g.text += genLegacyRef(c); g.hasLegacy = true; }
    else if (k < malTo) { g.text += c.oneof(kMalformed); g.hasMalformedSeg = true; }
    else if (profile != 2 && k < 98) { g.text += c.oneof(kUnspecified); g.hasUnspecifiedSeg = true; }
    else if (profile != 2 && c.chance(1, 3)) { g.text += c.oneof(kKnownDefect); g.hasUnspecifiedSeg = true; }
    else g.text += " ";
  }
  return g;
}

m6::ContextModel genContext(Ctx& c, const m6::Scan& sc) {
  m6::ContextModel m;
  for (const auto& name : kNames) {
    const int k = c.ipick(0, 9);
    if (k <= 5) m.terms[name].nominal = c.oneof(kNominals);
    else if (k == 6) m.terms[name].nominal = "";
    else if (k == 7) m.terms[name].nominal = "y";
    // 8, 9: missing
  }
  for (const auto* o : sc.refs()) {
    if (o->p.kind != m6::Kind::Entity) continue;
    const auto it = m.terms.find(o->p.entity);
    if (it != m.terms.end() && c.chance(1, 4)) it->second.manual[o->p.tags] = c.oneof(kManualForms);
  }
  return m;
}
std::string showContext(const m6::ContextModel& m) {
  std::string s = "ctx:";
  for (const auto& name : kNames) {
    const auto it = m.terms.find(name);
    if (it == m.terms.end()) { s += " " + name + "=<missing>"; continue; }
    s += " " + name + "='" + esc(it->second.nominal) + "'";
    for (const auto& [tags, text] : it->second.manual) s += "{" + m6::tagsString(tags) + "->'" + esc(text) + "'}";
  }
  return s;
}

// ------------------------------------------------------------------------------------------------ (a) extraction
// Compares Reference::ExtractAll(text) (and Parse / ToString of every candidate) with the model; `expected` receives the
// reference list every later oracle uses.
Verdict checkExtract(Ctx& c, const std::string& text, const m6::Scan& sc, std::vector<m6::Occ>& expected, bool withParse) {
  const auto found = Reference::ExtractAll(text);
  int nested = 0;
  PROPAGATE(lift(glue::compareExtraction(text, sc, found, expected, nested)));
  if (nested) c.count("nested-occurrence-reported", nested);
  if (sc.unspecified) c.count("unconstrained:unspecified-candidate");
  if (withParse) PROPAGATE(lift(glue::compareParse(sc)));
  return pbt::pass();
}

struct TextClasses {
  bool multibyteBeforeRef = false;
  int refs = 0;
};
TextClasses classify(Ctx& c, const std::string& text, const m6::Scan& sc) {
  TextClasses t;
  for (const auto* o : sc.refs()) {
    ++t.refs;
    if (m6::hasMultibyte(text.substr(0, o->bstart))) t.multibyteBeforeRef = true;
  }
  c.label("refs:" + std::to_string(std::min(t.refs, 5)));
  if (t.multibyteBeforeRef) c.label("multibyte-before-ref");
  if (sc.hasAdjacent) c.label("adjacent-refs");
  if (sc.hasNested) c.label("nested-start");
  if (sc.hasUnclosed) c.label("unclosed");
  if (sc.unspecified) c.label("unspecified-candidate");
  bool mal = false, legacy = false, collab = false, far = false;
  for (const auto& o : sc.top) {
    if (o.closed && o.p.kind == m6::Kind::Malformed) mal = true;
    if (o.p.kind == m6::Kind::Entity && o.p.legacy) legacy = true;
    if (o.p.kind == m6::Kind::Collab) { collab = true; if (o.p.offset > 3 || o.p.offset < -3) far = true; }
  }
  if (mal) c.label("malformed-closed");
  if (legacy) c.label("legacy-form");
  if (collab) c.label("collaboration");
  if (far) c.label("collaboration-far-offset");
  return t;
}

Verdict propExtract(Ctx& c) {
  const GenText g = genText(c, 0);
  const auto sc = m6::scan(g.text);
  c.show << "text=" << esc(g.text);
  const auto k = knownClass(g.text, sc);
  if (!k.empty()) return pbt::excluded(k);
  const auto cls = classify(c, g.text, sc);
  c.nontrivial = sc.top.size() >= 2 && cls.refs >= 1 && cls.multibyteBeforeRef;
  glue::resetTextEnvironment();
  c.exec();
  std::vector<m6::Occ> expected;
  return checkExtract(c, g.text, sc, expected, true);
}

// ------------------------------------------------------------------------------------------------ (b) resolution
struct ResolvedCase {
  std::string resolved;
  m6::Resolved model;
};

Verdict checkResolve(Ctx& c, const std::string& text, const m6::Scan& sc, const std::vector<m6::Occ>& E, const m6::ContextModel& ctxModel,
                     RefsManager& mgr, ResolvedCase& out) {
  out.resolved = mgr.Resolve(text);
  const auto& G = mgr.get();
  PROPAGATE(lift(glue::checkStructure(out.resolved, G, "Resolve:")));
  if (sc.unspecified) {
    // no model for the unspecified candidates: write-back must at least be stable under re-extraction
    (void)mgr.OutputRefs(out.resolved);
    return pbt::pass();
  }
  out.model = m6::resolveText(text, E, ctxModel);
  CHECK(G.size() == E.size(), "resolve-count", "Resolve kept " + std::to_string(G.size()) + " references, the text has " + std::to_string(E.size()));
  const auto cps = m6::cpSplit(out.resolved);
  int prev = 0;
  for (size_t i = 0; i < G.size(); ++i) {
    const auto v = glue::view(G[i]);
    const std::string at = "reference " + std::to_string(i) + " '" + esc(E[i].spelling) + "'";
    const auto d = glue::sameAsModel(v, E[i].p);
    CHECK(d.empty(), "resolve-content", at + ": " + d);
    CHECK(v.resolved == out.model.pieces[i], "resolution-text", at + " resolved to '" + esc(v.resolved) + "' want '" + esc(out.model.pieces[i]) + "'");
    std::string gap;
    for (int k = prev; k < v.start; ++k) gap += cps[static_cast<size_t>(k)];
    CHECK(gap == out.model.gaps[i], "gap-bytes", "text before " + at + " is '" + esc(gap) + "' want '" + esc(out.model.gaps[i]) + "'");
    CHECK(v.start == out.model.ranges[i].first && v.finish == out.model.ranges[i].second, "resolved-range",
          at + " recorded at " + rng(v.start, v.finish) + " want " + rng(out.model.ranges[i].first, out.model.ranges[i].second));
    prev = v.finish;
  }
  {
    std::string gap;
    for (size_t k = static_cast<size_t>(prev); k < cps.size(); ++k) gap += cps[k];
    CHECK(gap == out.model.gaps.back(), "gap-bytes", "text after the last reference is '" + esc(gap) + "' want '" + esc(out.model.gaps.back()) + "'");
  }
  CHECK(out.resolved == out.model.text, "resolved-text", "Resolve = '" + esc(out.resolved) + "' want '" + esc(out.model.text) + "'");
  (void)c;
  return pbt::pass();
}

std::vector<m6::Seg> writeBackSegs(const m6::Resolved& r, const std::vector<m6::Occ>& E) {
  std::vector<m6::Seg> segs;
  for (size_t i = 0; i < E.size(); ++i) { segs.push_back(m6::litSeg(r.gaps[i])); segs.push_back(m6::refSeg(E[i].p)); }
  segs.push_back(m6::litSeg(r.gaps.back()));
  return segs;
}

Verdict propResolve(Ctx& c) {
  const GenText g = genText(c, 1);
  const auto sc = m6::scan(g.text);
  const auto ctxModel = genContext(c, sc);
  // two cut points for the sub-range write-back (mapped onto positions outside references below)
  const int cutA = c.ipick(0, 40), cutB = c.ipick(0, 40);
  c.show << "text=" << esc(g.text) << "\n" << showContext(ctxModel) << "\ncuts=" << cutA << "," << cutB;
  const auto k = knownClass(g.text, sc);
  if (!k.empty()) return pbt::excluded(k);
  const auto cls = classify(c, g.text, sc);
  glue::resetTextEnvironment();
  const glue::TermContext libctx(ctxModel);
  c.exec();
  std::vector<m6::Occ> E;
  PROPAGATE(checkExtract(c, g.text, sc, E, false));
  RefsManager mgr(libctx);
  ResolvedCase rc;
  PROPAGATE(checkResolve(c, g.text, sc, E, ctxModel, mgr, rc));
  if (sc.unspecified) return pbt::pass();

  bool lengthChanges = false, missing = false, emptyRef = false, invalidOffset = false;
  for (size_t i = 0; i < E.size(); ++i) {
    if (m6::cpCount(rc.model.pieces[i]) != E[i].finish - E[i].start) lengthChanges = true;
    if (rc.model.pieces[i].rfind("!Cannot find entity", 0) == 0) missing = true;
    if (rc.model.pieces[i] == "!Empty reference!") emptyRef = true;
    if (rc.model.pieces[i].rfind("!Invalid offset", 0) == 0) invalidOffset = true;
  }
  if (missing) c.label("missing-entity");
  if (emptyRef) c.label("empty-resolution");
  if (invalidOffset) c.label("invalid-offset");
  bool manualHit = false, masterFound = false;
  {
    std::vector<m6::Parsed> ps; for (auto& o : E) ps.push_back(o.p);
    for (size_t i = 0; i < E.size(); ++i) {
      if (E[i].p.kind == m6::Kind::Entity) { auto it = ctxModel.terms.find(E[i].p.entity); if (it != ctxModel.terms.end() && it->second.manual.count(E[i].p.tags)) manualHit = true; }
      if (E[i].p.kind == m6::Kind::Collab && m6::findMaster(ps, i, E[i].p.offset) >= 0) masterFound = true;
    }
  }
  if (manualHit) c.label("manual-form-used");
  if (masterFound) c.label("collaboration-with-master");
  c.nontrivial = cls.refs >= 2 && cls.multibyteBeforeRef && lengthChanges;

  // write references back over the resolved text
  const auto segs = writeBackSegs(rc.model, E);
  const auto back = mgr.OutputRefs(rc.resolved);
  {
    const auto d = m6::matchSegs(back, segs);
    CHECK(d.empty(), "write-back", "OutputRefs = '" + esc(back) + "': " + d);
  }
  // the written-back text denotes the same references (round trip through the library's own reader)
  {
    const auto again = Reference::ExtractAll(back);
    CHECK(again.size() == E.size(), "write-back-reparse", "OutputRefs text has " + std::to_string(again.size()) + " references, want " + std::to_string(E.size()));
    for (size_t i = 0; i < again.size(); ++i) { const auto d = glue::sameAsModel(glue::view(again[i]), E[i].p); CHECK(d.empty(), "write-back-reparse", "reference " + std::to_string(i) + ": " + d); }
  }
  // sub-range whose ends do not cut a reference (documented by UTRefsManager.OutputRefsRange)
  const int n = m6::cpCount(rc.resolved);
  if (n > 0) {
    std::vector<int> cuts;  // admissible cut points
    for (int p = 0; p <= n; ++p) { bool inside = false; for (auto& r : rc.model.ranges) if (r.first < p && p < r.second) inside = true; if (!inside) cuts.push_back(p); }
    int a = cuts[static_cast<size_t>(cutA) % cuts.size()], b = cuts[static_cast<size_t>(cutB) % cuts.size()];
    if (a > b) std::swap(a, b);
    if (a < n) {
      std::string want;
      std::vector<m6::Seg> sub;
      int pos = 0;
      const auto rcps = m6::cpSplit(rc.resolved);
      std::string lit;
      size_t ri = 0;
      for (pos = a; pos < b;) {
        while (ri < rc.model.ranges.size() && rc.model.ranges[ri].first < pos) ++ri;
        if (ri < rc.model.ranges.size() && rc.model.ranges[ri].first == pos && rc.model.ranges[ri].second <= b) {
          sub.push_back(m6::litSeg(lit)); lit.clear();
          sub.push_back(m6::refSeg(E[ri].p));
          pos = rc.model.ranges[ri].second;
          ++ri;
        } else { lit += rcps[static_cast<size_t>(pos)]; ++pos; }
      }
      sub.push_back(m6::litSeg(lit));
      const auto part = mgr.OutputRefs(rc.resolved, StrRange{a, b});
      const auto d = m6::matchSegs(part, sub);
      CHECK(d.empty(), "write-back-range", "OutputRefs(" + rng(a, b) + ") = '" + esc(part) + "': " + d);
    }
  }
  return pbt::pass();
}

// ------------------------------------------------------------------------------------------------ (c) managed text
Verdict propManaged(Ctx& c) {
  const GenText g = genText(c, 1);
  const auto sc = m6::scan(g.text);
  const auto ctxModel = genContext(c, sc);
  // renaming map over the name pool (+ one name that is not in the pool)
  const std::vector<std::string> targets = {"X1", "X2", "X33", "D1", "abcdef", "T", "Q"};
  std::map<std::string, std::string> renames;
  for (const auto& name : kNames) if (c.chance(1, 3)) renames[name] = c.oneof(targets);
  const bool skipResolving = c.chance(1, 10);
  const bool viaTranslateRefs = c.coin();
  c.show << "text=" << esc(g.text) << "\n" << showContext(ctxModel) << "\nrename:";
  for (auto& [a, b] : renames) c.show << " " << a << "->" << b;
  c.show << (skipResolving ? " skipResolving" : "") << (viaTranslateRefs ? " TranslateRefs" : " TranslateRaw+UpdateFrom");
  const auto k = knownClass(g.text, sc);
  if (!k.empty()) return pbt::excluded(k);
  const auto cls = classify(c, g.text, sc);
  glue::resetTextEnvironment();
  const glue::TermContext libctx(ctxModel);
  c.exec();
  std::vector<m6::Occ> E;
  PROPAGATE(checkExtract(c, g.text, sc, E, false));

  ManagedText mt;
  mt.InitFrom(g.text, libctx);
  CHECK(mt.Raw() == g.text, "managed-raw", "Raw() differs from the text given to InitFrom");
  if (sc.unspecified) {
    (void)mt.Referals();
    mt.TranslateRaw(ccl::CreateTranslator(ccl::StrSubstitutes(renames.begin(), renames.end())));
    mt.UpdateFrom(libctx);
    return pbt::pass();
  }
  const auto model = m6::resolveText(g.text, E, ctxModel);
  CHECK(mt.Str() == (model.text.empty() ? g.text : model.text), "managed-str", "Str() = '" + esc(mt.Str()) + "' want '" + esc(model.text) + "'");
  CHECK(ManagedText(g.text, "cache").Str() == "cache" && ManagedText(g.text).Str() == g.text, "managed-cache", "constructor cache is not what Str() returns");
  {
    std::set<std::string> want;
    for (auto& o : E) if (o.p.kind == m6::Kind::Entity) want.insert(o.p.entity);
    const auto got = mt.Referals();
    const std::set<std::string> gs(got.begin(), got.end());
    std::string gsS, wS; for (auto& s : gs) gsS += s + " "; for (auto& s : want) wS += s + " ";
    CHECK(gs == want, "referals", "Referals() = {" + gsS + "} want {" + wS + "}");
  }
  // renaming
  std::vector<m6::Seg> segs;
  bool changed = false, unchangedRef = false;
  for (size_t i = 0; i < E.size(); ++i) {
    segs.push_back(m6::litSeg(model.gaps[i]));
    const auto it = E[i].p.kind == m6::Kind::Entity ? renames.find(E[i].p.entity) : renames.end();
    if (it != renames.end() && it->second != E[i].p.entity) { m6::Parsed p = E[i].p; p.entity = it->second; segs.push_back(m6::refSeg(p)); changed = true; }
    else { segs.push_back(m6::litSeg(E[i].spelling)); unchangedRef = true; }
  }
  segs.push_back(m6::litSeg(model.gaps.back()));
  if (changed) c.label("rename-changes-a-ref");
  if (changed && unchangedRef) c.label("rename-mixed");
  c.nontrivial = cls.refs >= 2 && cls.multibyteBeforeRef && changed;

  const auto translator = ccl::CreateTranslator(ccl::StrSubstitutes(renames.begin(), renames.end()));
  const std::string strBefore = mt.Str();
  ccl::lang::TextEnvironment::Instance().skipResolving = skipResolving;
  if (viaTranslateRefs) {
    mt.TranslateRefs(translator, libctx);
  } else {
    mt.TranslateRaw(translator);
    const auto d = m6::matchSegs(mt.Raw(), segs);
    CHECK(d.empty(), "translate-raw", "TranslateRaw gives '" + esc(mt.Raw()) + "': " + d);
    CHECK(mt.Str() == strBefore, "translate-raw-cache", "TranslateRaw changed Str()");
    mt.UpdateFrom(libctx);
  }
  ccl::lang::TextEnvironment::Instance().skipResolving = false;
  {
    const auto d = m6::matchSegs(mt.Raw(), segs);
    CHECK(d.empty(), "translate-raw", "after renaming Raw() = '" + esc(mt.Raw()) + "': " + d);
  }
  if (skipResolving) {
    c.label("skip-resolving");
    CHECK(mt.Str() == strBefore, "skip-resolving", "UpdateFrom changed Str() although skipResolving is set");
    return pbt::pass();
  }
  // the renamed text resolves like a fresh text
  const std::string raw2 = mt.Raw();
  const auto sc2 = m6::scan(raw2);
  std::vector<m6::Occ> E2;
  PROPAGATE(checkExtract(c, raw2, sc2, E2, false));
  if (!sc2.unspecified) {
    const auto model2 = m6::resolveText(raw2, E2, ctxModel);
    CHECK(mt.Str() == (model2.text.empty() ? raw2 : model2.text), "update-from", "after renaming Str() = '" + esc(mt.Str()) + "' want '" + esc(model2.text) + "'");
  }
  return pbt::pass();
}

// ------------------------------------------------------------------------------------------------ (d) histories
std::string compareWithShadow(const RefsManager& mgr, const m6::Shadow& sh) {
  const auto& G = mgr.get();
  if (G.size() != sh.refs.size()) return "manager holds " + std::to_string(G.size()) + " references, shadow " + std::to_string(sh.refs.size());
  int prev = 0;
  for (size_t i = 0; i < G.size(); ++i) {
    const auto& p = G[i].position;
    const std::string at = "reference " + std::to_string(i) + " " + esc(G[i].ToString()) + " " + rng(p.start, p.finish);
    if (p.start < prev) return at + " overlaps / precedes the previous reference ending at " + std::to_string(prev);
    if (p.start < 0 || p.finish > sh.size() || p.start > p.finish) return at + " outside the text of " + std::to_string(sh.size()) + " code points";
    if (sh.sub(p.start, p.finish) != G[i].resolvedText) return at + ": the text shows '" + esc(sh.sub(p.start, p.finish)) + "' there, the reference resolved to '" + esc(G[i].resolvedText) + "'";
    if (p.start != sh.refs[i].start || p.finish != sh.refs[i].finish) return at + " want " + rng(sh.refs[i].start, sh.refs[i].finish);
    if (G[i].resolvedText != sh.refs[i].resolved) return at + ": resolved text changed to '" + esc(G[i].resolvedText) + "'";
    const auto d = glue::sameAsModel(glue::view(G[i]), sh.refs[i].ref);
    if (!d.empty()) return at + ": " + d;
    prev = p.finish;
  }
  return {};
}
std::string snapshot(const RefsManager& mgr) {
  std::string s;
  for (const auto& r : mgr.get()) s += r.ToString() + rng(r.position.start, r.position.finish) + r.resolvedText + "\x1f";
  return s;
}

struct Op {
  int kind = 0;  // 0 Insert, 1 EraseIn, 2 EraseIn expand
  std::string spelling;
  int posSel = 0, posSel2 = 0, jitter = 0, jitter2 = 0;
};

int pickPosition(const m6::Shadow& sh, int sel, int jitter) {
  // candidate anchors: text ends and every reference border; jitter in -2..2
  std::vector<int> anchors = {0, sh.size()};
  for (auto& r : sh.refs) { anchors.push_back(r.start); anchors.push_back(r.finish); }
  anchors.push_back(sh.size() / 2);
  int p = anchors[static_cast<size_t>(sel) % anchors.size()] + jitter;
  return std::max(0, std::min(sh.size(), p));
}

Verdict propHistory(Ctx& c) {
  const GenText g = genText(c, 2);
  const auto sc = m6::scan(g.text);
  const auto ctxModel = genContext(c, sc);
  const int nOps = c.ipick(1, 10);
  std::vector<Op> ops;
  for (int i = 0; i < nOps; ++i) {
    Op op;
    op.kind = c.ipick(0, 2);
    if (op.kind == 0) op.spelling = c.chance(1, 3) ? genCollabRef(c) : c.chance(1, 5) ? genLegacyRef(c) : genEntityRef(c);
    op.posSel = c.ipick(0, 12); op.jitter = c.ipick(-2, 2);
    op.posSel2 = c.ipick(0, 12); op.jitter2 = c.ipick(-2, 3);
    ops.push_back(op);
  }
  c.show << "text=" << esc(g.text) << "\n" << showContext(ctxModel) << "\nops:";
  for (auto& op : ops) {
    if (op.kind == 0) c.show << " Insert(" << esc(op.spelling) << " @" << op.posSel << (op.jitter >= 0 ? "+" : "") << op.jitter << ")";
    else c.show << (op.kind == 1 ? " Erase(" : " EraseExpand(") << op.posSel << (op.jitter >= 0 ? "+" : "") << op.jitter << ".." << op.posSel2 << (op.jitter2 >= 0 ? "+" : "") << op.jitter2 << ")";
  }
  {
    const auto k = knownClass(g.text, sc);
    if (!k.empty()) return pbt::excluded(k);
    for (auto& op : ops) if (op.kind == 0) { const auto k2 = knownClass(op.spelling, m6::scan(op.spelling)); if (!k2.empty()) return pbt::excluded(k2); }
  }
  classify(c, g.text, sc);
  glue::resetTextEnvironment();
  const glue::TermContext libctx(ctxModel);
  c.exec();
  std::vector<m6::Occ> E;
  PROPAGATE(checkExtract(c, g.text, sc, E, false));
  RefsManager mgr(libctx);
  ResolvedCase rc;
  PROPAGATE(checkResolve(c, g.text, sc, E, ctxModel, mgr, rc));
  if (sc.unspecified) return pbt::discard("unspecified candidate in a history text");

  m6::Shadow sh;
  sh.cps = m6::cpSplit(rc.resolved);
  for (size_t i = 0; i < E.size(); ++i) sh.refs.push_back({rc.model.ranges[i].first, rc.model.ranges[i].second, rc.model.pieces[i], E[i].p});
  { const auto d = compareWithShadow(mgr, sh); CHECK(d.empty(), "history-start", d); }

  bool adjacentOp = false;
  int accepted = 0, refused = 0;
  for (size_t oi = 0; oi < ops.size(); ++oi) {
    const Op& op = ops[oi];
    const std::string opAt = "op " + std::to_string(oi) + " ";
    const std::string before = snapshot(mgr);
    if (op.kind == 0) {
      const int pos = pickPosition(sh, op.posSel, op.jitter);
      const auto occ = m6::candidateAt(op.spelling, 0, m6::cpCount(op.spelling));
      if (!occ || !occ->p.wellFormed()) return pbt::fail("harness", "generated insert spelling is not well-formed: " + op.spelling);
      const auto newRef = Reference::Parse(op.spelling);
      { const auto d = glue::sameAsModel(glue::view(newRef), occ->p); CHECK(d.empty(), "parse-content", "Parse('" + esc(op.spelling) + "'): " + d); }
      const auto expect = sh.predictInsert(pos);
      if (sh.touchesRef(pos, pos)) adjacentOp = true;
      const Reference* res = mgr.Insert(newRef, pos);
      const std::string what = opAt + "Insert(" + esc(op.spelling) + ", " + std::to_string(pos) + ")";
      if (expect == m6::Expect::MustRefuse) {
        CHECK(res == nullptr, "insert-accepted", what + " accepted although the position is inside / on the border of a reference");
      } else {
        CHECK(res != nullptr, "insert-refused", what + " refused although the position is clear of every reference");
      }
      if (res == nullptr) {
        ++refused;
        CHECK(snapshot(mgr) == before, "refused-op-changed-state", what + " was refused but the references changed");
        continue;
      }
      ++accepted;
      // expected resolution of the new reference among the current ones
      std::string want;
      const size_t at = sh.insertIndex(pos);
      if (occ->p.kind == m6::Kind::Entity) want = m6::resolveEntityText(occ->p, ctxModel);
      else {
        std::vector<m6::Parsed> ps;
        for (auto& r : sh.refs) ps.push_back(r.ref);
        ps.insert(ps.begin() + static_cast<long>(at), occ->p);
        const int m = m6::findMaster(ps, at, occ->p.offset);
        const std::string* master = nullptr;
        if (m >= 0) master = &sh.refs[static_cast<size_t>(m) > at ? static_cast<size_t>(m) - 1 : static_cast<size_t>(m)].resolved;
        want = m6::resolveCollabText(occ->p, master);
      }
      CHECK(res->resolvedText == want, "insert-resolution", what + " resolved to '" + esc(res->resolvedText) + "' want '" + esc(want) + "'");
      sh.applyInsert(pos, occ->p, want);
      CHECK(res->position.start == pos && res->position.finish == pos + m6::cpCount(want), "insert-range",
            what + " recorded at " + rng(res->position.start, res->position.finish) + " want " + rng(pos, pos + m6::cpCount(want)));
    } else {
      int a = pickPosition(sh, op.posSel, op.jitter), b = pickPosition(sh, op.posSel2, op.jitter2);
      if (a > b) std::swap(a, b);
      const bool expand = op.kind == 2;
      const auto pred = sh.predictErase(a, b, expand);
      if (sh.touchesRef(a, b)) adjacentOp = true;
      const auto res = mgr.EraseIn(StrRange{a, b}, expand);
      const std::string what = opAt + "EraseIn(" + rng(a, b) + (expand ? ", expand)" : ")");
      if (pred.e == m6::Expect::MustRefuse) CHECK(!res.has_value(), "erase-accepted", what + " accepted: " + pred.why);
      if (pred.e == m6::Expect::MustAccept) {
        CHECK(res.has_value(), "erase-refused", what + " refused although every touched reference is fully covered and no two references would join");
        CHECK(res->start == pred.a && res->finish == pred.b, "erase-range", what + " returned " + rng(res->start, res->finish) + " want " + rng(pred.a, pred.b));
      }
      if (!res.has_value()) {
        ++refused;
        CHECK(snapshot(mgr) == before, "refused-op-changed-state", what + " was refused but the references changed");
        continue;
      }
      ++accepted;
      if (pred.e == m6::Expect::Free) {
        c.count("unconstrained:erase-" + std::string(a == b ? "empty-range" : "between-touching-refs"));
        // acceptance is not pinned; if accepted, the erased range is the requested one or (expand) the reference containing it
        bool ok = (res->start == a && res->finish == b) || (res->start == pred.a && res->finish == pred.b);
        if (!ok && expand) for (auto& r : sh.refs) if (r.start <= a && b <= r.finish && res->start == r.start && res->finish == r.finish) ok = true;
        CHECK(ok, "erase-range", what + " returned " + rng(res->start, res->finish));
      }
      sh.applyErase(res->start, res->finish);
    }
    const auto d = compareWithShadow(mgr, sh);
    CHECK(d.empty(), "history-aligned", "after " + opAt + (op.kind == 0 ? "Insert" : "EraseIn") + ": " + d + " | text now '" + esc(sh.str()) + "'");
    (void)mgr.FirstIn(StrRange{0, sh.size()});
  }
  // write back over the edited text
  {
    std::vector<m6::Seg> segs;
    int prev = 0;
    for (auto& r : sh.refs) { segs.push_back(m6::litSeg(sh.sub(prev, r.start))); segs.push_back(m6::refSeg(r.ref)); prev = r.finish; }
    segs.push_back(m6::litSeg(sh.sub(prev, sh.size())));
    const auto back = mgr.OutputRefs(sh.str());
    const auto d = m6::matchSegs(back, segs);
    CHECK(d.empty(), "history-write-back", "OutputRefs over '" + esc(sh.str()) + "' = '" + esc(back) + "': " + d);
  }
  c.nontrivial = adjacentOp;
  if (accepted) c.label("history-accepted-op");
  if (refused) c.label("history-refused-op");
  if (adjacentOp) c.label("op-touches-ref");
  c.label("ops:" + std::to_string(nOps / 3 * 3));
  return pbt::pass();
}

// ------------------------------------------------------------------------------------------------ exhaustive
// everything that can be said about one text under a fixed small context
Verdict checkWholeText(Ctx& c, const std::string& text) {
  c.show << "text=" << esc(text);
  const auto sc = m6::scan(text);
  const auto k = knownClass(text, sc);
  if (!k.empty()) return pbt::excluded(k);
  static const m6::ContextModel ctxModel = [] {
    m6::ContextModel m;
    m.terms["X1"].nominal = "T\xD1\x8Dst";
    m.terms["X2"].nominal = "Test2";
    return m;
  }();
  glue::resetTextEnvironment();
  static const glue::TermContext* libctx = new glue::TermContext(ctxModel);
  const int refs = static_cast<int>(sc.refs().size());
  c.nontrivial = !sc.top.empty();
  c.label(refs ? "has-reference" : sc.top.empty() ? "no-candidate" : "only-malformed");
  if (sc.unspecified) c.label("unspecified-candidate");
  c.exec();
  std::vector<m6::Occ> E;
  PROPAGATE(checkExtract(c, text, sc, E, true));
  RefsManager mgr(*libctx);
  ResolvedCase rc;
  PROPAGATE(checkResolve(c, text, sc, E, ctxModel, mgr, rc));
  if (sc.unspecified) return pbt::pass();
  const auto back = mgr.OutputRefs(rc.resolved);
  const auto d = m6::matchSegs(back, writeBackSegs(rc.model, E));
  CHECK(d.empty(), "write-back", "OutputRefs = '" + esc(back) + "': " + d);
  ManagedText mt;
  mt.InitFrom(text, *libctx);
  CHECK(mt.Str() == (rc.model.text.empty() ? text : rc.model.text), "managed-str", "Str() = '" + esc(mt.Str()) + "'");
  {
    std::set<std::string> want;
    for (auto& o : E) if (o.p.kind == m6::Kind::Entity) want.insert(o.p.entity);
    const auto got = mt.Referals();
    CHECK(std::set<std::string>(got.begin(), got.end()) == want, "referals", "Referals() has " + std::to_string(got.size()) + " names, want " + std::to_string(want.size()));
  }
  return pbt::pass();
}

Verdict enumTokens(Ctx& c, int maxLen) {
  static const std::vector<std::string> sym = {"a", "@{", "}", "|", "X1", "nomn", "-1", "@", "{", "\xE2\x84\xAC"};
  const int n = c.ipick(0, maxLen);
  std::string text;
  for (int i = 0; i < n; ++i) text += c.oneof(sym);
  return checkWholeText(c, text);
}
// fixed texts: the witnesses of the listed findings (indices are referenced by regress/C17/*.case: append only) and the
// strings of the upstream unit tests
Verdict propLiteral(Ctx& c) {
  static const std::vector<std::string> texts = {
      "@@{X1|nomn}",
      "@{X1|nomn|}",
      "@{99999999999|t}",
      "@{40000|t}",
      "42 @{X1|nomn,sing} 43 @{-1|basic} 44 @{X1|nomn,sing} 45",
      "@{-1|\xD1\x82\xD0\xB5\xD1\x81\xD1\x82\xD0\xB8\xD1\x80\xD1\x83\xD1\x8E\xD1\x89\xD0\xB8\xD0\xB9}",
      "@{X1|nomn|sing|0}", "@{X1|nomn|sing}", "", "@{}", "@{ }", "@{|}", "@{ | }", "@{ || }", "@{-1a|text}", "invalid",
      "@{X1|sing,nomn} @{X2|sing,nomn}", "@{-1|basic} @{X1|sing,nomn}", "@{1|basic1} @{1|basic1} @{X1|sing,nomn}", "@{2|basic1} @{1|basic1} @{X1|sing,nomn}",
      "@{X2|nomn,sing} text @{abc|nomn,sing} X4 @{-1|testing} @{X1|nomn,sing} @{X2,datv,sing}", "X1", "@{X1}",
      "@{X11|sing,nomn} \xE2\x84\xAC @{X21|sing,nomn} \xE2\x84\xAC @{X3|sing,nomn}", "\xE2\x84\xAC" "abc",
      "@@@{X1|nomn}", "@{-2147483648|a}", "@{X1|nomn|sing|}", "@{2147483648|}", "@@@@{-1|a}", "a@@{X1|nomn} @{X2|sing}"};
  return checkWholeText(c, c.oneof(texts));
}
Verdict propEnum5(Ctx& c) { return enumTokens(c, 5); }
Verdict propEnum6(Ctx& c) { return enumTokens(c, 6); }

}  // namespace

// ASan keeps the stack of every allocation/free in its stack depot; with the default depth of 30 frames rapidcheck's
// data-dependent call stacks make almost every stack unique and the depot grows by 40-70 KB per case (measured: the RSS
// of a worker reached 4 GB in the thorough tier and the kernel killed it; live heap stays flat).  Eight frames keep the
// reports readable, keep the memory flat and halve the run time.  Options given in ASAN_OPTIONS still take precedence.
extern "C" const char* __asan_default_options() { return "malloc_context_size=8"; }

int main(int argc, char** argv) {
  std::vector<pbt::Prop> props;
  props.push_back({"literal", propLiteral, 0, 0, true, false, "fixed texts: witnesses of the listed findings and the strings of the upstream unit tests"});
  props.push_back({"enum_tokens5", propEnum5, 0, 0, true, false, "every text of <=5 symbols over {a,@{,},|,X1,nomn,-1,@,{,3-byte char}; non-trivial = contains a candidate"});
  props.push_back({"enum_tokens6", propEnum6, 0, 0, true, true, "every text of <=6 symbols over the same alphabet"});
  props.push_back({"extract", propExtract, 8000, 60000, false, false, ">=2 candidates incl. a well-formed reference with multi-byte text before a reference"});
  props.push_back({"resolve", propResolve, 6000, 40000, false, false, ">=2 references, multi-byte text before one, some resolution of different length"});
  props.push_back({"managed", propManaged, 4000, 25000, false, false, ">=2 references, multi-byte text before one, the renaming changes a reference"});
  props.push_back({"history", propHistory, 5000, 30000, false, false, "an Insert / EraseIn position touches a reference"});
  return pbt::main(argc, argv, "C17", props);
}
