// C13 - basis and maximal-part extraction return closed, complete, well-formed schemas.
//
// Oracle (independent of the library's dependency graph): mentions are found by the harness' own tokenizer over the
// definitions of the source schema and resolved by alias lookup; OpExtractBasis must return the backward closure of the
// selection, OpMaxPart the least fixpoint of  selection ∪ {c : definition non-empty ∧ every resolved mention ⊆ result};
// the result is compared position by position with the expected sub-sequence of the source list (relative order), every
// text must be the source text with exactly the mentions rewritten to the aliases of their images, status and
// typification must be preserved up to that renaming; the source must stay unchanged.
#include "common/pbt.hpp"
#include "model/schemagen_ops.hpp"

#include "ccl/ops/RSOperations.h"
#include "ccl/tools/EntityGenerator.h"

using ccl::EntityUID;
using ccl::SetOfEntities;
using ccl::ops::OpExtractBasis;
using ccl::ops::OpMaxPart;
using ccl::semantic::CstType;
using ccl::semantic::ParsingStatus;
using ccl::semantic::RSForm;
using pbt::Ctx;
using pbt::Verdict;
using sgen::Row;
using sgen::Snap;

namespace {

#define CHECK(cond, oracle, msg) do { if (!(cond)) return pbt::fail(oracle, msg); } while (0)

const char* const kKnownSinglePass = "maxpart-single-pass";

struct Model {
  const Snap& src;
  std::vector<std::set<size_t>> deps;            // row index -> row indices its definition mentions (resolved)
  std::vector<std::set<std::string>> unresolved; // row index -> unresolved names in its definition
  explicit Model(const Snap& s) : src(s) {
    for (const auto& r : src.rows) {
      std::set<size_t> d; std::set<std::string> u;
      for (const auto& a : sgen::aliasesOf(sgen::splitFormal(r.def))) {
        if (auto it = src.byAlias.find(a); it != src.byAlias.end()) d.insert(it->second); else u.insert(a);
      }
      deps.push_back(d); unresolved.push_back(u);
    }
  }
  std::set<size_t> closure(const std::set<size_t>& sel) const {
    std::set<size_t> r = sel; std::vector<size_t> todo(sel.begin(), sel.end());
    while (!todo.empty()) { const auto i = todo.back(); todo.pop_back(); for (auto j : deps[i]) if (r.insert(j).second) todo.push_back(j); }
    return r;
  }
  bool admits(size_t i, const std::set<size_t>& r) const {
    if (src.rows[i].def.empty()) return false;
    for (auto j : deps[i]) if (!r.count(j)) return false;
    return true;
  }
  std::set<size_t> maxPart(const std::set<size_t>& sel) const {
    std::set<size_t> r = sel;
    for (bool grown = true; grown;) { grown = false; for (size_t i = 0; i < src.rows.size(); ++i) if (!r.count(i) && admits(i, r)) { r.insert(i); grown = true; } }
    return r;
  }
  std::set<size_t> maxPartSinglePass(const std::set<size_t>& sel) const {  // the listed defect: one scan in list order
    std::set<size_t> r = sel;
    for (size_t i = 0; i < src.rows.size(); ++i) if (!r.count(i) && admits(i, r)) r.insert(i);
    return r;
  }
  bool hasCycle() const { for (size_t i = 0; i < deps.size(); ++i) { auto cl = std::set<size_t>{}; for (auto j : deps[i]) { auto c2 = closure({j}); if (c2.count(i)) return true; } } return false; }
};

std::string idxStr(const Snap& s, const std::set<size_t>& x) { std::string o = "{"; for (auto i : x) o += s.rows[i].alias + " "; return o + "}"; }

// position-by-position comparison of the result with the expected sub-sequence of the source
Verdict compareResult(Ctx* c, const Model& m, const std::set<size_t>& expected, const Snap& res, const std::string& what) {
  const Snap& src = m.src;
  std::vector<size_t> E(expected.begin(), expected.end());  // row indices are list positions: ascending = relative order
  if (res.rows.size() != E.size()) {
    std::string got;
    for (const auto& r : res.rows) { const Row* o = src.find(r.uid); got += (o ? o->alias : "?" + r.alias) + " "; }
    return pbt::fail(what + "-set", what + " returned " + std::to_string(res.rows.size()) + " constituents (source names: " + got + "), expected " + idxStr(src, expected));
  }
  CHECK(!res.aliasClash, what + "-aliases", "two constituents of the result share an alias: " + res.str());
  std::map<std::string, std::string> ren;  // source alias -> result alias, for members of the result
  for (size_t k = 0; k < E.size(); ++k) ren[src.rows[E[k]].alias] = res.rows[k].alias;
  std::set<std::string> resAliases; for (const auto& r : res.rows) resAliases.insert(r.alias);
  bool uidsKept = true;
  // constituents whose status may legitimately change: an unresolved name of theirs is issued to somebody by the renumbering
  std::vector<bool> tainted(E.size(), false);
  std::map<size_t, size_t> posInE; for (size_t k = 0; k < E.size(); ++k) posInE[E[k]] = k;
  for (size_t k = 0; k < E.size(); ++k) for (const auto& u : m.unresolved[E[k]]) if (resAliases.count(u)) tainted[k] = true;
  for (bool grown = true; grown;) { grown = false; for (size_t k = 0; k < E.size(); ++k) if (!tainted[k]) for (auto j : m.deps[E[k]]) if (posInE.count(j) && tainted[posInE[j]]) { tainted[k] = true; grown = true; break; } }
  for (size_t k = 0; k < E.size(); ++k) {
    const Row& o = src.rows[E[k]]; const Row& n = res.rows[k];
    const std::string at = what + " position " + std::to_string(k) + ": source " + o.str() + " result " + n.str();
    CHECK(o.type == n.type, what + "-order", "kind differs, so the relative order or the member set is wrong; " + at);
    CHECK(!n.alias.empty() && n.alias[0] == sgen::letterOf(n.type), what + "-aliases", "alias letter does not match the kind; " + at);
    if (o.uid != n.uid) uidsKept = false;
    for (int f = 0; f < 4; ++f) {
      int wild = 0;
      const bool isDef = f == sgen::F_DEF;
      std::string dangling;
      auto expect = [&](const std::string& a) -> std::optional<std::string> {
        if (auto it = ren.find(a); it != ren.end()) return it->second;
        if (src.byAlias.count(a)) { dangling = a; return std::nullopt; }  // resolved in the source, target not in the result
        return std::nullopt;                                              // never resolved
      };
      const auto mm = sgen::rewriteMismatch(sgen::splitField(sgen::fieldOf(o, f), f), sgen::splitField(sgen::fieldOf(n, f), f), expect, &wild);
      if (isDef) CHECK(dangling.empty(), what + "-dangling", "the definition mentions " + dangling + ", which resolved in the source and has no image in the result; " + at);
      CHECK(mm.empty(), what + (isDef ? "-definition" : "-texts"), std::string(sgen::fieldName(f)) + ": " + mm + "; " + at);
      if (wild && c) c->count(isDef ? "unconstrained:unresolved-mention-in-definition" : "unconstrained:unresolved-or-outside-mention-in-text", wild);
    }
    if (tainted[k]) { if (c) c->count("skipped:status-of-constituent-with-captured-unresolved-name"); continue; }
    CHECK(o.status == n.status, what + "-status", "status " + std::to_string(static_cast<int>(o.status)) + " became " + std::to_string(static_cast<int>(n.status)) + "; " + at);
    CHECK(o.typed == n.typed && o.logic == n.logic, what + "-typification", "typed/logic flag changed; " + at);
    if (o.typed && !o.logic) {
      auto expect = [&](const std::string& a) -> std::optional<std::string> { if (auto it = ren.find(a); it != ren.end()) return it->second; return a + "?"; };
      const auto mm = sgen::rewriteMismatch(sgen::splitFormal(o.typ), sgen::splitFormal(n.typ), expect);
      CHECK(mm.empty(), what + "-typification", "typification " + o.typ + " became " + n.typ + " (" + mm + "); " + at);
    }
    if (c) c->count("checked:status-and-typification");
  }
  if (c) c->count(uidsKept ? "observed:uids-kept" : "unconstrained:uids-reissued");
  return pbt::pass();
}

struct Sel { std::vector<int> idx; bool empty{false}; bool missing{false}; bool close{false}; };

// edits applied to the source schema after it was built and before the extraction (sub-properties *_edited): the
// extraction must see the schema as it is now, however it got there
struct PreEdit { int kind{0}, a{0}, b{0}; bool flag{false}; };
Verdict runCase(Ctx& c, bool maxPart, const sgen::Spec& sp, const Sel& sel, uint64_t idSeed, const std::vector<PreEdit>& edits = {}) {
  sgen::debugShow(c);
  c.exec();
  ccl::tools::EntityGenerator::VerifSeed(idSeed * 7919ULL + 13ULL);
  RSForm schema;
  std::vector<EntityUID> uids;
  if (!sgen::build(schema, sp, uids)) return pbt::discard("alias prediction failed");
  for (const auto& e : edits) {
    const auto A = uids[static_cast<size_t>(e.a) % uids.size()], B = uids[static_cast<size_t>(e.b) % uids.size()];
    if (!schema.Contains(A) || !schema.Contains(B)) continue;
    const std::string aliasA = schema.GetRS(A).alias, aliasB = schema.GetRS(B).alias;
    switch (e.kind) {
      case 0:  // exchange the aliases of two constituents of one kind, mentions untouched: every mention now means the other one
        if (A != B && aliasA[0] == aliasB[0]) { const std::string tmp = std::string(1, aliasA[0]) + "77"; if (schema.SetAliasFor(A, tmp, false)) { schema.SetAliasFor(B, aliasA, false); schema.SetAliasFor(A, aliasB, false); c.label("pre-edit:alias-exchange"); } }
        break;
      case 1: if (schema.SetAliasFor(A, std::string(1, aliasA[0]) + std::to_string(40 + e.b), e.flag)) c.label(e.flag ? "pre-edit:rename-with-substitution" : "pre-edit:rename-leaving-mentions"); break;
      case 2: if (schema.GetRS(A).type != CstType::base && schema.GetRS(A).type != CstType::constant && schema.SetExpressionFor(A, aliasB)) c.label("pre-edit:definition"); break;  // base sets carry no definition
      case 3: if (schema.Erase(A)) c.label("pre-edit:erase"); break;
      default: {  // an exact copy of A under a fresh identifier, B re-defined over the copy, then duplicate elimination: B's
                  // mentions are rewritten to A and the dependency graph must follow
        if (A == B || schema.GetRS(A).type == CstType::base || schema.GetRS(A).type == CstType::constant || schema.GetRS(A).definition.empty()) break;
        if (schema.GetRS(B).type != CstType::term) break;
        auto rec = schema.Core().AsRecord(A); rec.uid = 0x40000000u + static_cast<EntityUID>(e.b);
        const auto copy = schema.InsertCopy(rec);
        const std::string copyAlias = schema.GetRS(copy).alias;
        if (!schema.SetExpressionFor(B, copyAlias + "\xE2\x88\xAA" + copyAlias)) break;
        (void)schema.Ops().DeleteDuplicates();
        c.label(schema.Contains(copy) ? "pre-edit:duplicate-kept" : "pre-edit:duplicate-eliminated-under-a-dependant");
        break;
      }
    }
  }
  const Snap before = sgen::snapshot(schema);
  const Model m(before);
  // selection as row indices of the snapshot
  std::set<size_t> selRows;
  if (!sel.empty) for (int i : sel.idx) if (auto it = before.byUid.find(uids[static_cast<size_t>(i)]); it != before.byUid.end()) selRows.insert(it->second);
  if (sel.close) selRows = m.closure(selRows);
  SetOfEntities args;
  for (auto i : selRows) args.insert(before.rows[i].uid);
  if (sel.missing) { EntityUID ghost = 77; while (before.byUid.count(ghost)) ++ghost; args.insert(ghost); }

  const std::string what = maxPart ? "maxpart" : "basis";
  bool defined = false;
  std::unique_ptr<RSForm> result;
  if (maxPart) { OpMaxPart op(schema, args); defined = op.IsCorrectlyDefined(); result = op.Execute(); }
  else { OpExtractBasis op(schema, args); defined = op.IsCorrectlyDefined(); result = op.Execute(); }
  CHECK(sgen::snapshot(schema).json == before.json, what + "-source-changed", "the source schema changed");
  if (!defined) CHECK(result == nullptr, what + "-refused-result", "IsCorrectlyDefined()==false but Execute() returned a schema");
  // admissibility as documented by upstream's UTMaxPart / UTExtractBasis
  if (args.empty() || sel.missing) CHECK(!defined, what + "-admissibility", "empty selection / unknown identifier accepted");
  const bool selClosed = [&] { for (auto i : selRows) for (auto j : m.deps[i]) if (!selRows.count(j)) return false; return true; }();
  if (!args.empty() && !sel.missing && (!maxPart || selClosed))
    CHECK(defined, what + "-admissibility", "selection " + idxStr(before, selRows) + " of existing constituents" + (maxPart ? " closed under dependencies" : "") + " refused");
  c.label(what + (defined ? ":accepted" : ":refused"));
  if (!defined) { if (!args.empty() && !sel.missing) c.count("unconstrained:refused-unclosed-selection"); return pbt::pass(); }
  CHECK(result != nullptr, what + "-null", "IsCorrectlyDefined()==true but Execute() returned nullptr");

  const auto expected = maxPart ? m.maxPart(selRows) : m.closure(selRows);
  // an accepted selection must make the statement satisfiable: no member may depend on something outside the expected result
  for (auto i : expected) for (auto j : m.deps[i]) CHECK(expected.count(j), what + "-dangling", "accepted selection " + idxStr(before, selRows) + ": " + before.rows[i].alias + " depends on " + before.rows[j].alias + " which is not part of the result");
  bool inverted = false;
  for (auto i : expected) for (auto j : m.deps[i]) if (i < j) inverted = true;
  c.nontrivial = inverted;
  if (inverted) c.label(what + ":member-precedes-its-dependency");
  if (m.hasCycle()) c.label("source:dependency-cycle");
  if (!before.fullyCorrect()) c.label("source:has-incorrect-member");
  { bool u = false; for (auto i : expected) u = u || !m.unresolved[i].empty(); if (u) c.label(what + ":member-mentions-missing-name"); }
  c.label(what + ":result-size:" + std::to_string(std::min<size_t>(expected.size(), 8) / 2 * 2));
  if (expected.size() > selRows.size()) c.label(what + ":grows-beyond-selection");

  const Snap res = sgen::snapshot(*result);
  Verdict v = compareResult(&c, m, expected, res, what);
  if (v.kind == Verdict::FAIL && maxPart && pbt::known(kKnownSinglePass)) {
    const auto single = m.maxPartSinglePass(selRows);
    if (single != expected && compareResult(nullptr, m, single, res, what).kind == Verdict::PASS) return pbt::excluded(kKnownSinglePass);
  }
  return v;
}

Sel genSel(Ctx& c, const sgen::Spec& sp, bool maxPart) {
  Sel s;
  const int n = static_cast<int>(sp.items.size());
  const int k = c.ipick(1, 3);
  for (int i = 0; i < k; ++i) s.idx.push_back(c.ipick(0, n - 1));
  s.close = maxPart ? c.ipick(0, 3) != 3 : sgen::rare(c, 3);
  s.empty = sgen::rare(c, 16);
  s.missing = sgen::rare(c, 16);
  return s;
}
void showCase(Ctx& c, const char* op, const sgen::Spec& sp, const Sel& s, uint64_t idSeed) {
  c.show << op << " ids=" << idSeed << "\n" << sp.str() << "  selection:";
  if (s.empty) c.show << " (empty)";
  else for (int i : s.idx) c.show << " " << sp.items[static_cast<size_t>(i)].alias;
  if (s.close) c.show << " +dependencies";
  if (s.missing) c.show << " +unknown-uid";
}

Verdict propRandom(Ctx& c, bool maxPart) {
  const uint64_t idSeed = static_cast<uint64_t>(c.pick(0, 9999));
  sgen::GenOpts o; o.minRest = 1; o.maxRest = 6; o.maxMoves = 5;
  const auto sp = sgen::genSpec(c, o);
  const Sel s = genSel(c, sp, maxPart);
  showCase(c, maxPart ? "maxpart" : "basis", sp, s, idSeed);
  return runCase(c, maxPart, sp, s, idSeed);
}
Verdict propBasis(Ctx& c) { return propRandom(c, false); }
Verdict propMaxPart(Ctx& c) { return propRandom(c, true); }
Verdict propEdited(Ctx& c) {
  const bool maxPart = c.coin();
  const uint64_t idSeed = static_cast<uint64_t>(c.pick(0, 9999));
  sgen::GenOpts o; o.minRest = 2; o.maxRest = 6; o.maxMoves = 3;
  const auto sp = sgen::genSpec(c, o);
  const Sel s = genSel(c, sp, maxPart);
  std::vector<PreEdit> edits;
  const int k = c.ipick(1, 3);
  for (int i = 0; i < k; ++i) { PreEdit e; const int w = c.ipick(0, 9); e.kind = w < 3 ? 0 : w < 5 ? 1 : w < 6 ? 2 : w < 7 ? 3 : 4; e.a = c.ipick(0, 11); e.b = c.ipick(0, 11); e.flag = c.coin(); edits.push_back(e); }
  showCase(c, maxPart ? "maxpart (edited source)" : "basis (edited source)", sp, s, idSeed);
  c.show << "\n  pre-edits:"; for (auto& e : edits) c.show << " " << (e.kind == 0 ? "exchange-aliases" : e.kind == 1 ? (e.flag ? "rename+subst" : "rename") : e.kind == 2 ? "set-definition" : e.kind == 3 ? "erase" : "copy+redefine+delete-duplicates") << "(#" << e.a << ",#" << e.b << ")";
  return runCase(c, maxPart, sp, s, idSeed, edits);
}

// exhaustive: X1 and three terms, every definition from {empty, X1, Da, Db, Da∪Db} (a, b = the other two terms), every non-empty selection
Verdict propEnum(Ctx& c, bool maxPart) {
  sgen::Spec sp;
  { sgen::Item x; x.type = CstType::base; x.alias = "X1"; sp.items.push_back(x); }
  for (int i = 1; i <= 3; ++i) {
    sgen::Item d; d.type = CstType::term; d.alias = "D" + std::to_string(i);
    const std::string a = "D" + std::to_string(i % 3 + 1), b = "D" + std::to_string((i + 1) % 3 + 1);
    switch (c.ipick(0, 4)) { case 0: break; case 1: d.def = "X1"; break; case 2: d.def = a; break; case 3: d.def = b; break; default: d.def = a + "∪" + b; break; }
    sp.items.push_back(d);
  }
  Sel s;
  for (int i = 0; i < 4; ++i) if (c.coin()) s.idx.push_back(i);
  if (s.idx.empty()) s.empty = true;
  showCase(c, maxPart ? "maxpart" : "basis", sp, s, 1);
  return runCase(c, maxPart, sp, s, 1);
}
Verdict propEnumBasis(Ctx& c) { return propEnum(c, false); }
Verdict propEnumMaxPart(Ctx& c) { return propEnum(c, true); }

}  // namespace

int main(int argc, char** argv) {
  std::vector<pbt::Prop> props;
  props.push_back({"enum_basis3", propEnumBasis, 0, 0, true, false, "X1 + three terms, every definition from {empty, X1, Da, Db, Da∪Db}, every selection: basis"});
  props.push_back({"enum_maxpart3", propEnumMaxPart, 0, 0, true, false, "X1 + three terms, every definition from {empty, X1, Da, Db, Da∪Db}, every selection: maximal part"});
  props.push_back({"edited_source", propEdited, 1500, 20000, false, false, "the same after 1-3 edits of the built source schema: alias exchange / rename leaving the mentions, rename with substitution, definition edit, erase"});
  props.push_back({"basis", propBasis, 1500, 24000, false, false, "random schemas (list order decoupled from dependencies), random selections: OpExtractBasis"});
  props.push_back({"maxpart", propMaxPart, 1500, 24000, false, false, "random schemas (list order decoupled from dependencies), random selections: OpMaxPart"});
  return pbt::main(argc, argv, "C13", props);
}
