// C01 - evaluation returns the set-theoretic value of every well-typed expression.
// Oracle: the naive evaluator of model/rstyped.hpp (values = ints / tuples / sorted sets; enumeration, substitution,
// projection).  The library result, read back by iteration, must be the reference value; failures only as documented.
#include "model/libenv.hpp"

using pbt::Ctx;
using pbt::Verdict;
using namespace rs;

namespace {

#define CHECK(cond, oracle, msg) do { if (!(cond)) return pbt::fail(oracle, msg); } while (0)

bool asciiSafe(const Expr& e, std::set<std::string>& names) {
  if (e.id == TID::ID_LOCAL) names.insert(e.name);
  for (auto& k : e.kids) if (!asciiSafe(*k, names)) return false;
  return true;
}
bool distinctUnderTranslit(const EP& e, const Gamma& G) {
  std::set<std::string> names; asciiSafe(*e, names);
  for (auto& f : G.funcs) { asciiSafe(*f.body, names); for (auto& a : f.args) names.insert(a.first); }
  std::set<std::string> t; for (auto& n : names) t.insert(translit(n));
  return t.size() == names.size();
}

struct Run { bool ok = false; bool isBool = false; bool b = false; Val v; std::vector<uint32_t> errs; std::string errText; };

Run runLib(const Gamma& G, const std::string& text, rl::Syntax syn, bool lazy) {
  LibEnv env(G, lazy);
  Run r;
  if (!env.buildError.empty()) { r.errText = env.buildError; r.errs.push_back(0xFFFF); return r; }
  rl::Interpreter interp(env, env.astContext(), env.dataContext());
  const auto res = interp.Evaluate(text, syn);
  for (auto& e : interp.Errors().All()) { r.errs.push_back(e.eid); char b[32]; snprintf(b, sizeof b, " %04X@%d", e.eid, e.position); r.errText += b; }
  if (!res.has_value()) return r;
  r.ok = true;
  if (std::holds_alternative<bool>(*res)) { r.isBool = true; r.b = std::get<bool>(*res); }
  else { long budget = 400000; r.v = fromLibData(std::get<ob::StructuredData>(*res), &budget); }
  return r;
}

bool isLimitCode(uint32_t e) { return e == 0x8A01 || e == 0x8A02 || e == 0x8A04 || e == 0x8A06; }

Verdict evalProp(Ctx& c) {
  TypedGen g(c);
  g.makeContext();
  const int rootKind = c.ipick(0, 9);
  const Ty target = rootKind < 4 ? Ty::Logic() : rootKind < 8 ? Ty::Set(g.randType(2)) : g.randType(2);
  const int depth = c.ipick(1, 4);
  EP e = target.k == Ty::LOGIC ? g.genLogic(depth) : g.genTerm(target, depth);

  // renderings
  PrintOpts plain; plain.syn = Syn::MATH;
  PrintOpts noisy; noisy.syn = Syn::MATH; noisy.rnd = &c; noisy.redundantParens = 30; noisy.whitespace = 20; noisy.newlines = true; noisy.shortDeclarative = true;
  PrintOpts ascii; ascii.syn = Syn::ASCII;
  const std::string tPlain = render(e, plain), tNoisy = render(e, noisy);
  const bool doAscii = distinctUnderTranslit(e, g.G);
  const std::string tAscii = doAscii ? render(e, ascii) : std::string();
  bool hasLazy = false; for (auto& gl : g.G.globals) hasLazy |= gl.construction != 0;

  c.show << showGamma(g.G) << "\n  type " << target.str() << "  expr " << tPlain;
  static const char* fn[] = {"has-call", "has-tuple-pattern", "has-enum-decl", "has-recursion", "has-imperative", "has-filter", "uses-lazy-global", "has-debool"};
  for (int i = 0; i < 8; ++i) if (g.features[i]) c.label(fn[i]);
  c.label(std::string("root:") + kindName(e->id));
  c.label("depth:" + std::to_string(depth));
  c.exec();

  // reference value
  Outcome ref;
  try { Evaluator ev(g.G); ref = ev.eval(e); }
  catch (const Budget&) { return pbt::discard("model-budget"); }

  struct R { const char* name; std::string text; rl::Syntax syn; bool lazy; };
  std::vector<R> renderings{{"math", tPlain, rl::Syntax::MATH, false}, {"math-noisy", tNoisy, rl::Syntax::MATH, false}};
  if (doAscii) renderings.push_back({"ascii", tAscii, rl::Syntax::ASCII, false});
  if (hasLazy) renderings.push_back({"math-lazy", tPlain, rl::Syntax::MATH, true});

  bool first = true; Run base;
  for (auto& r : renderings) {
    Run got;
    try { got = runLib(g.G, r.text, r.syn, r.lazy); } catch (const Budget&) { return pbt::discard("readback-budget"); }
    const std::string where = std::string("[") + r.name + "] '" + r.text + "'";
    if (!got.ok) {
      bool parseErr = false, semErr = false, unknown = false, debool = false, limit = false, other = false;
      for (auto eid : got.errs) {
        if (eid == 0x8203 || (eid >= 0x8400 && eid < 0x8500)) parseErr = true;
        else if (eid >= 0x8800 && eid < 0x8900) semErr = true;
        else if (eid == 0x8A00) unknown = true;
        else if (eid == 0x8A05) debool = true;
        else if (isLimitCode(eid)) limit = true;
        else if (eid >= 0x8000) other = true;
      }
      CHECK(!got.errs.empty(), "failure-without-error", where + " failed with an empty error list");
      CHECK(!parseErr, "valid-rejected", where + " does not parse:" + got.errText);
      if (semErr) { c.count("generator-ill-typed"); return pbt::discard("ill-typed-by-generator"); }
      CHECK(!unknown, "unknown-error", where + " evaluation failed with unknownError:" + got.errText);
      CHECK(!other, "undocumented-error", where + " failed with undocumented code:" + got.errText);
      if (limit) { c.count("inconclusive-resource-limit"); return pbt::pass(); }
      CHECK(debool, "undocumented-error", where + got.errText);
      CHECK(ref.mayDebool, "spurious-debool-error", where + " fails with invalidDebool but the reference value is defined: " + (target.k == Ty::LOGIC ? std::string(ref.b ? "true" : "false") : ref.v.str()));
      if (first) { base = got; first = false; }
      else CHECK(!base.ok || ref.mayDebool, "rendering-disagree", where + " fails while another rendering succeeds");
      continue;
    }
    if (!ref.hasValue) {
      if (ref.mayLimit && !ref.mayDebool) { c.count("inconclusive-resource-limit"); return pbt::pass(); }
      if (ref.mayLimit) { c.count("inconclusive-resource-limit"); return pbt::pass(); }
      return pbt::fail("value-where-error-expected", where + " returned a value but the only set-theoretic outcome is debool of a non-singleton");
    }
    if (target.k == Ty::LOGIC) {
      CHECK(got.isBool, "wrong-kind", where + " returned a set value for a formula");
      CHECK(got.b == ref.b, "wrong-value", where + " = " + (got.b ? "true" : "false") + " but set-theoretic value is " + (ref.b ? "true" : "false"));
    } else {
      CHECK(!got.isBool, "wrong-kind", where + " returned a truth value for a term");
      CHECK(got.v == ref.v, "wrong-value", where + " = " + got.v.str() + " but set-theoretic value is " + ref.v.str());
    }
    if (first) { base = got; first = false; }
  }
  if (!ref.hasValue) c.label("ref-error-only");
  else {
    const bool constantish = target.k == Ty::LOGIC ? false : ref.v.k == Val::SET && ref.v.items.empty();
    c.nontrivial = (g.binders > 0 || g.features[0] || g.ops >= 3) && !constantish;
    if (ref.mayDebool) c.label("debool-admissible");
    if (target.k == Ty::LOGIC) c.label(ref.b ? "value:true" : "value:false"); else c.label(constantish ? "value:empty" : "value:nonempty");
  }
  return pbt::pass();
}

}  // namespace

int main(int argc, char** argv) {
  std::vector<pbt::Prop> props;
  props.push_back({"evaluate", evalProp, 3000, 40000, false, false, "type-directed expressions x contexts x data; 2-4 renderings each"});
  return pbt::main(argc, argv, "C01", props);
}
