// C01 - evaluation returns the set-theoretic value of every well-typed expression.
// Oracle: the naive evaluator of model/rstyped.hpp (values = ints / tuples / sorted sets; enumeration, substitution,
// projection).  The library result, read back by iteration, must be the reference value; failures only as documented.
#include "model/libenv.hpp"

#include "ccl/semantic/RSModel.h"
#include "ccl/tools/EntityGenerator.h"

using pbt::Ctx;
using pbt::Verdict;
using namespace rs;

namespace {

bool hasKind(const Expr& e, TID id) { if (e.id == id) return true; for (auto& k : e.kids) if (hasKind(*k, id)) return true; return false; }

#define CHECK(cond, oracle, msg) do { if (!(cond)) return pbt::fail(oracle, msg); } while (0)

bool asciiSafe(const Expr& e, std::set<std::string>& names) {
  if (e.id == TID::ID_LOCAL) names.insert(e.name);
  for (auto& k : e.kids) if (!asciiSafe(*k, names)) return false;
  return true;
}
bool distinctUnderTranslit(const EP& e, const Gamma& G) {
  std::set<std::string> names; asciiSafe(*e, names);
  for (auto& f : G.funcs) { asciiSafe(*f.body, names); for (auto& a : f.args) names.insert(a.first); }
  std::set<std::string> t; for (auto& n : names) t.insert(translit(n));
  return t.size() == names.size();
}

struct Run { bool ok = false; bool isBool = false; bool b = false; Val v; std::vector<uint32_t> errs; std::string errText; };

Run runLib(const Gamma& G, const std::string& text, rl::Syntax syn, bool lazy) {
  LibEnv env(G, lazy);
  Run r;
  if (!env.buildError.empty()) { r.errText = env.buildError; r.errs.push_back(0xFFFF); return r; }
  rl::Interpreter interp(env, env.astContext(), env.dataContext());
  const auto res = interp.Evaluate(text, syn);
  for (auto& e : interp.Errors().All()) { r.errs.push_back(e.eid); char b[32]; snprintf(b, sizeof b, " %04X@%d", e.eid, e.position); r.errText += b; }
  if (!res.has_value()) return r;
  r.ok = true;
  if (std::holds_alternative<bool>(*res)) { r.isBool = true; r.b = std::get<bool>(*res); }
  else { long budget = 400000; r.v = fromLibData(std::get<ob::StructuredData>(*res), &budget); }
  return r;
}

bool isLimitCode(uint32_t e) { return e == 0x8A01 || e == 0x8A02 || e == 0x8A04 || e == 0x8A06; }

// An imperative constructor whose blocks feed each other: every domain, assigned value and guard is built from the
// variables of EARLIER blocks (iterate over a set assigned from an outer iteration variable, chains of assignments,
// tuple-pattern assignments), the shape in which loop-variant and loop-invariant parts are easy to confuse.
EP genImperativeChain(Ctx& c, TypedGen& g, Ty& valueType) {
  std::vector<const Global*> bases; for (auto& gl : g.G.globals) if (gl.isBase) bases.push_back(&gl);
  const Global* X = c.oneof(bases);
  const Ty E = Ty::Base(X->name), S = Ty::Set(E);
  struct V { std::string name; bool isSet; };
  std::vector<V> vars;
  static const std::vector<std::string> names = {"a", "b", "c", "d", "x", "y", "s", "t", "u", "v"};
  auto fresh = [&](bool isSet) { const std::string n = names[vars.size() % names.size()] + (vars.size() >= names.size() ? "1" : ""); vars.push_back({n, isSet}); return mkName(TID::ID_LOCAL, n); };
  auto pickVar = [&](bool isSet) -> EP { std::vector<const V*> vs; for (auto& v : vars) if (v.isSet == isSet) vs.push_back(&v); if (vs.empty()) return nullptr; return mkName(TID::ID_LOCAL, vs[static_cast<size_t>(c.ipick(0, static_cast<int>(vs.size()) - 1))]->name); };
  auto elemExpr = [&]() -> EP { return pickVar(false); };  // an element variable always exists after the first block
  std::function<EP(int)> setExpr = [&](int d) -> EP {
    EP sv = pickVar(true);
    switch (c.ipick(0, d > 0 ? 6 : 3)) {
      case 0: return mkName(TID::ID_GLOBAL, X->name);
      case 1: case 2: if (sv) return sv; [[fallthrough]];
      case 3: return mk(TID::NT_ENUMERATION, {elemExpr()});
      case 4: return mk(TID::UNION, {setExpr(d - 1), mk(TID::NT_ENUMERATION, {elemExpr()})});
      case 5: return mk(TID::SET_MINUS, {mkName(TID::ID_GLOBAL, X->name), setExpr(d - 1)});
      default: return mk(TID::UNION, {setExpr(d - 1), setExpr(d - 1)});
    }
  };
  std::vector<EP> blocks;
  { EP dom = mkName(TID::ID_GLOBAL, X->name); blocks.push_back(mk(TID::ITERATE, {fresh(false), dom})); }
  const int n = c.ipick(2, 5);
  for (int i = 1; i < n; ++i) {
    const int w = c.ipick(0, 9);
    if (w <= 3) { EP dom = setExpr(1); blocks.push_back(mk(TID::ITERATE, {fresh(false), dom})); }
    else if (w <= 5) { EP val = setExpr(1); blocks.push_back(mk(TID::ASSIGN, {fresh(true), val})); }
    else if (w == 6) { EP val = elemExpr(); blocks.push_back(mk(TID::ASSIGN, {fresh(false), val})); }
    else if (w == 7) { EP val = mk(TID::NT_TUPLE, {elemExpr(), setExpr(1)}); EP p = fresh(false); EP q = fresh(true); blocks.push_back(mk(TID::ASSIGN, {mk(TID::NT_TUPLE_DECL, {p, q}), val})); g.features[1] = true; }
    else if (w == 8) blocks.push_back(mk(c.coin() ? TID::EQUAL : TID::NOTEQUAL, {elemExpr(), elemExpr()}));
    else blocks.push_back(mk(c.coin() ? TID::IN : TID::NOTIN, {elemExpr(), setExpr(1)}));
  }
  std::vector<EP> comps; std::vector<Ty> tys;
  const int k = c.ipick(1, 3);
  for (int i = 0; i < k; ++i) { const V& v = vars[static_cast<size_t>(c.ipick(0, static_cast<int>(vars.size()) - 1))]; comps.push_back(mkName(TID::ID_LOCAL, v.name)); tys.push_back(v.isSet ? S : E); }
  EP value = k == 1 ? comps[0] : mk(TID::NT_TUPLE, comps);
  valueType = k == 1 ? tys[0] : Ty::Tuple(tys);
  g.features[4] = true; g.binders += static_cast<int>(vars.size()); g.ops += n;
  std::vector<EP> ks{value}; ks.insert(ks.end(), blocks.begin(), blocks.end());
  return mk(TID::NT_IMPERATIVE_EXPR, ks);
}

enum EvalMode { GENERAL, NAME_REUSE, IMPERATIVE_CHAIN };
Verdict evalWith(Ctx& c, EvalMode mode) {
  TypedGen g(c);
  g.optReuseNames = mode == NAME_REUSE;
  g.optFreeProjections = mode == NAME_REUSE;
  if (mode == IMPERATIVE_CHAIN) g.optMinBase = 2;
  g.makeContext();
  Ty target; int depth = 1; EP e;
  if (mode == IMPERATIVE_CHAIN) {
    Ty vt; e = genImperativeChain(c, g, vt); target = Ty::Set(vt);
  } else {
    const int rootKind = c.ipick(0, 9);
    target = rootKind < 4 ? Ty::Logic() : rootKind < 8 ? Ty::Set(g.randType(2)) : g.randType(2);
    depth = c.ipick(1, 4);
    e = target.k == Ty::LOGIC ? g.genLogic(depth) : g.genTerm(target, depth);
  }

  // renderings
  PrintOpts plain; plain.syn = Syn::MATH;
  PrintOpts noisy; noisy.syn = Syn::MATH; noisy.rnd = &c; noisy.redundantParens = 30; noisy.whitespace = 20; noisy.newlines = true; noisy.shortDeclarative = true;
  PrintOpts ascii; ascii.syn = Syn::ASCII;
  const std::string tPlain = render(e, plain), tNoisy = render(e, noisy);
  const bool doAscii = distinctUnderTranslit(e, g.G);
  const std::string tAscii = doAscii ? render(e, ascii) : std::string();
  bool hasLazy = false; for (auto& gl : g.G.globals) hasLazy |= gl.construction != 0;

  c.show << showGamma(g.G) << "\n  type " << target.str() << "  expr " << tPlain;
  static const char* fn[] = {"has-call", "has-tuple-pattern", "has-enum-decl", "has-recursion", "has-imperative", "has-filter", "uses-lazy-global", "has-debool"};
  for (int i = 0; i < 8; ++i) if (g.features[i]) c.label(fn[i]);
  c.label(std::string("root:") + kindName(e->id));
  c.label("depth:" + std::to_string(depth));
  c.exec();

  // reference value
  Outcome ref;
  try { Evaluator ev(g.G); ref = ev.eval(e); }
  catch (const Budget&) { return pbt::discard("model-budget"); }

  struct R { const char* name; std::string text; rl::Syntax syn; bool lazy; };
  std::vector<R> renderings{{"math", tPlain, rl::Syntax::MATH, false}, {"math-noisy", tNoisy, rl::Syntax::MATH, false}};
  if (doAscii) renderings.push_back({"ascii", tAscii, rl::Syntax::ASCII, false});
  if (hasLazy) renderings.push_back({"math-lazy", tPlain, rl::Syntax::MATH, true});

  // power sets can make one evaluation take minutes (the library materialises ℬ(S)∪T): such an expression is first run in a
  // child under a CPU limit and skipped (counted) when it does not finish - a time budget is no oracle
  if (hasKind(*e, TID::BOOLEAN)) {
    const auto probe = pbt::inChild([&]() -> Verdict { try { (void)runLib(g.G, tPlain, rl::Syntax::MATH, hasLazy); } catch (const Budget&) {} return pbt::pass(); }, 15);
    if (probe.status == pbt::ChildResult::TIMEOUT || probe.status == pbt::ChildResult::STARVED) { c.count("inconclusive:evaluation-exceeds-15s-cpu"); return pbt::discard("slow-evaluation"); }
    if (probe.status == pbt::ChildResult::CRASH) return pbt::fail("crash", "evaluation of '" + tPlain + "' crashed: " + probe.crashInfo);
  }
  bool first = true; Run base;
  for (auto& r : renderings) {
    Run got;
    try { got = runLib(g.G, r.text, r.syn, r.lazy); } catch (const Budget&) { return pbt::discard("readback-budget"); }
    const std::string where = std::string("[") + r.name + "] '" + r.text + "'";
    if (!got.ok) {
      bool parseErr = false, semErr = false, unknown = false, debool = false, limit = false, other = false;
      for (auto eid : got.errs) {
        if (eid == 0x8203 || (eid >= 0x8400 && eid < 0x8500)) parseErr = true;
        else if (eid >= 0x8800 && eid < 0x8900) semErr = true;
        else if (eid == 0x8A00) unknown = true;
        else if (eid == 0x8A05) debool = true;
        else if (isLimitCode(eid)) limit = true;
        else if (eid >= 0x8000) other = true;
      }
      CHECK(!got.errs.empty(), "failure-without-error", where + " failed with an empty error list");
      CHECK(!parseErr, "valid-rejected", where + " does not parse:" + got.errText);
      if (semErr) { c.count("generator-ill-typed"); return pbt::discard("ill-typed-by-generator"); }
      CHECK(!unknown, "unknown-error", where + " evaluation failed with unknownError:" + got.errText);
      CHECK(!other, "undocumented-error", where + " failed with undocumented code:" + got.errText);
      if (limit || (!ref.hasValue && ref.mayLimit)) { c.count("inconclusive-resource-limit"); return pbt::pass(); }
      CHECK(debool, "undocumented-error", where + got.errText);
      CHECK(ref.mayDebool, "spurious-debool-error", where + " fails with invalidDebool but the reference value is defined: " + (target.k == Ty::LOGIC ? std::string(ref.b ? "true" : "false") : ref.v.str()));
      if (first) { base = got; first = false; }
      else CHECK(!base.ok || ref.mayDebool, "rendering-disagree", where + " fails while another rendering succeeds");
      continue;
    }
    if (!ref.hasValue) {
      if (ref.mayLimit && !ref.mayDebool) { c.count("inconclusive-resource-limit"); return pbt::pass(); }
      if (ref.mayLimit) { c.count("inconclusive-resource-limit"); return pbt::pass(); }
      return pbt::fail("value-where-error-expected", where + " returned a value but the only set-theoretic outcome is debool of a non-singleton");
    }
    if (target.k == Ty::LOGIC) {
      CHECK(got.isBool, "wrong-kind", where + " returned a set value for a formula");
      CHECK(got.b == ref.b, "wrong-value", where + " = " + (got.b ? "true" : "false") + " but set-theoretic value is " + (ref.b ? "true" : "false"));
    } else {
      CHECK(!got.isBool, "wrong-kind", where + " returned a truth value for a term");
      CHECK(got.v == ref.v, "wrong-value", where + " = " + got.v.str() + " but set-theoretic value is " + ref.v.str());
    }
    if (first) { base = got; first = false; }
  }
  if (!ref.hasValue) c.label("ref-error-only");
  else {
    const bool constantish = target.k == Ty::LOGIC ? false : ref.v.k == Val::SET && ref.v.items.empty();
    c.nontrivial = (g.binders > 0 || g.features[0] || g.ops >= 3) && !constantish;
    if (ref.mayDebool) c.label("debool-admissible");
    if (target.k == Ty::LOGIC) c.label(ref.b ? "value:true" : "value:false"); else c.label(constantish ? "value:empty" : "value:nonempty");
  }
  return pbt::pass();
}

// ---- large lazily generated sets: products of base sets and power sets whose cardinality approaches and exceeds every
// machine bound (2^28 .. 2^80).  Nothing is enumerated: the expected outcome follows from the sizes alone, and the library
// must give that value or fail with a documented resource-limit error - never another value.
Verdict largeLazyProp(Ctx& c) {
  Gamma G;
  const int n1 = c.ipick(2, 20), n2 = c.ipick(1, 18);
  auto base = [&](const char* name, int n) { Global x; x.name = name; x.isBase = true; x.type = Ty::Set(Ty::Base(name)); std::vector<Val> v; for (int i = 1; i <= n; ++i) v.push_back(Val::Int(i)); x.value = Val::Set(v); G.globals.push_back(x); };
  base("X1", n1); base("X2", n2);
  const int k = c.ipick(2, 4);
  std::vector<EP> fs; long double size = 1;
  for (int i = 0; i < k; ++i) {
    const int w = c.ipick(0, 3);
    const char* name = (w & 1) ? "X2" : "X1"; const int n = (w & 1) ? n2 : n1;
    if (w >= 2) { fs.push_back(mk(TID::BOOLEAN, {mkName(TID::ID_GLOBAL, name)})); size *= std::pow(2.0L, n); }
    else { fs.push_back(mkName(TID::ID_GLOBAL, name)); size *= n; }
  }
  EP P = mk(TID::DECART, fs);
  const int form = c.ipick(0, 4);
  EP e; bool expectBool = true, expectTruth = false;
  switch (form) {
    case 0: e = mk(TID::CARD, {P}); expectBool = false; break;
    case 1: e = mk(TID::EQUAL, {P, mk(TID::LIT_EMPTYSET)}); expectTruth = false; break;
    case 2: e = mk(TID::FORALL, {mkName(TID::ID_LOCAL, "t"), P, mk(TID::EQUAL, {mkInt(1), mkInt(2)})}); expectTruth = false; break;
    case 3: e = mk(TID::GREATER, {mk(TID::CARD, {P}), mkInt(0)}); expectTruth = true; break;
    default: e = mk(TID::EXISTS, {mkName(TID::ID_LOCAL, "t"), P, mk(TID::EQUAL, {mkInt(1), mkInt(1)})}); expectTruth = true; break;
  }
  const bool ascii = c.coin();
  PrintOpts po; po.syn = ascii ? Syn::ASCII : Syn::MATH;
  const std::string text = render(e, po);
  c.show << "|X1|=" << n1 << " |X2|=" << n2 << " size=" << static_cast<double>(size) << " expr " << text;
  const bool huge = size >= 268435455.0L;  // 2^28-1, the documented "infinite" cardinality
  c.nontrivial = huge;
  c.label(huge ? (size >= 2147483648.0L ? "large:beyond-2^31" : "large:between-2^28-and-2^31") : "large:below-2^28");
  c.exec();
  std::string failure;
  const auto res = pbt::inChild([&]() -> Verdict {
    const Run got = runLib(G, text, ascii ? rl::Syntax::ASCII : rl::Syntax::MATH, true);
    if (!got.ok) {
      bool limit = false; for (auto code : got.errs) limit |= isLimitCode(code);
      if (!limit) return pbt::fail("unexpected-error", "'" + text + "' fails with" + got.errText + " which is no resource-limit error");
      return pbt::discard("limit");
    }
    if (expectBool) { if (!got.isBool || got.b != expectTruth) return pbt::fail("wrong-value", "'" + text + "' = " + (got.isBool ? (got.b ? "true" : "false") : got.v.str()) + " but the set-theoretic value is " + (expectTruth ? "true" : "false")); }
    else { if (got.isBool || got.v.k != Val::INT || static_cast<long double>(got.v.i) != size) return pbt::fail("wrong-value", "'" + text + "' = " + (got.isBool ? "a truth value" : got.v.str()) + " but the cardinality is " + std::to_string(static_cast<double>(size))); }
    return pbt::pass();
  }, 20);
  if (res.status == pbt::ChildResult::TIMEOUT || res.status == pbt::ChildResult::STARVED) { c.count("inconclusive-timeout"); return pbt::pass(); }
  if (res.status == pbt::ChildResult::CRASH) return pbt::fail("crash", "evaluation of '" + text + "' crashed: " + res.crashInfo);
  if (res.verdict.kind == Verdict::DISCARD) { c.label("large:resource-limit-reported"); return pbt::pass(); }
  if (res.verdict.kind == Verdict::PASS) c.label("large:value-returned");
  return res.verdict;
}

// ---- the same question through an interpreted model: RSModel::Calculations().Calculate + Values().SDataFor / StatementFor ----
Verdict evalProp(Ctx& c) { return evalWith(c, GENERAL); }
Verdict evalReuseProp(Ctx& c) { return evalWith(c, NAME_REUSE); }
Verdict evalImperativeProp(Ctx& c) { return evalWith(c, IMPERATIVE_CHAIN); }

Verdict modelProp(Ctx& c) {
  using ccl::semantic::CstType;
  TypedGen g(c);
  g.optConstant = false; g.optDerived = false; g.optMinBase = 1;
  g.makeContext();
  const int rootKind = c.ipick(0, 9);
  const Ty target = rootKind < 4 ? Ty::Logic() : rootKind < 8 ? Ty::Set(g.randType(2)) : g.randType(2);
  const int depth = c.ipick(1, 3);
  EP e = target.k == Ty::LOGIC ? g.genLogic(depth) : g.genTerm(target, depth);
  const std::string text = render(e);
  const uint64_t idSeed = static_cast<uint64_t>(c.pick(1, 1000000));
  c.show << showGamma(g.G) << "\n  model: " << (target.k == Ty::LOGIC ? "A50" : "D50") << ":==" << text;
  c.exec();
  Outcome ref;
  try { Evaluator ev(g.G); ref = ev.eval(e); } catch (const Budget&) { return pbt::discard("model-budget"); }

  ccl::tools::EntityGenerator::VerifSeed(idSeed);
  struct Unseed { ~Unseed() { ccl::tools::EntityGenerator::VerifUnseed(); } } unseed;
  ccl::semantic::RSModel m;
  ccl::EntityUID next = 1;
  auto insert = [&](const std::string& alias, CstType type, const std::string& def) { ccl::semantic::ConceptRecord r; r.uid = next++; r.alias = alias; r.type = type; r.rs = def; return m.InsertCopy(r); };
  for (auto& gl : g.G.globals) {
    if (gl.isBase) {
      const auto uid = insert(gl.name, CstType::base, "");
      for (size_t i = 0; i < gl.value.items.size(); ++i) { const auto id = m.Values().AddBasicElement(uid, "e" + std::to_string(i + 1)); CHECK(id.has_value() && *id == static_cast<int>(i + 1), "harness-model-setup", "AddBasicElement did not issue id " + std::to_string(i + 1)); }
    } else {
      const auto uid = insert(gl.name, CstType::structured, render(domainExpr(gl.type)));
      CHECK(m.GetRS(uid).alias == gl.name, "harness-model-setup", "structure alias changed");
      if (!gl.value.items.empty() && !m.Values().SetStructureData(uid, toLibData(gl.value))) { c.count("structure-data-refused:" + gl.type.str()); return pbt::discard("structure-data-refused"); }
    }
  }
  for (auto& f : g.G.funcs) {
    std::vector<EP> decl; for (auto& a : f.args) decl.push_back(mk(TID::NT_ARG_DECL, {mkName(TID::ID_LOCAL, a.first), domainExpr(a.second)}));
    insert(f.name, f.result.k == Ty::LOGIC ? CstType::predicate : CstType::function, render(mk(TID::NT_FUNC_DEFINITION, {mk(TID::NT_ARGUMENTS, decl), f.body})));
  }
  const bool logic = target.k == Ty::LOGIC;
  const auto uid = insert(logic ? "A50" : "D50", logic ? CstType::axiom : CstType::term, text);
  const bool verified = m.GetParse(uid).status == ccl::semantic::ParsingStatus::VERIFIED;
  if (!verified) { c.count("generator-ill-typed-or-kind-mismatch"); return pbt::discard("not-verified-in-schema"); }
  const bool calc = m.Calculations().Calculate(uid);
  // the direct path with the same content, for the error codes the model does not expose
  Run direct; try { direct = runLib(g.G, text, rl::Syntax::MATH, false); } catch (const Budget&) { return pbt::discard("readback-budget"); }
  CHECK(calc == direct.ok, "model-vs-direct", std::string("Calculate returned ") + (calc ? "true" : "false") + " but direct evaluation " + (direct.ok ? "succeeds" : "fails:" + direct.errText));
  c.label(calc ? "model:calculated" : "model:failed");
  if (!calc) {
    CHECK(!m.Values().SDataFor(uid).has_value() && !m.Values().StatementFor(uid).has_value(), "value-after-failed-calculation", "a failed calculation left a value visible");
    if (ref.hasValue && !ref.mayDebool && !ref.mayLimit) { bool limit = false; for (auto eid : direct.errs) limit |= isLimitCode(eid); if (limit) { c.count("inconclusive-resource-limit"); return pbt::pass(); } return pbt::fail("spurious-failure", "calculation failed" + direct.errText + " but the set-theoretic value is defined"); }
    return pbt::pass();
  }
  CHECK(m.Calculations().WasCalculated(uid), "calculated-flag", "Calculate succeeded but WasCalculated is false");
  if (!ref.hasValue) { if (ref.mayLimit) { c.count("inconclusive-resource-limit"); return pbt::pass(); } return pbt::fail("value-where-error-expected", "model calculated a value but the only set-theoretic outcome is an error"); }
  if (logic) {
    const auto st = m.Values().StatementFor(uid);
    CHECK(st.has_value(), "missing-statement", "calculated axiom has no statement value");
    CHECK(*st == ref.b, "wrong-value", std::string("model statement ") + (*st ? "true" : "false") + " but set-theoretic value is " + (ref.b ? "true" : "false"));
  } else {
    const auto d = m.Values().SDataFor(uid);
    CHECK(d.has_value(), "missing-data", "calculated term has no data");
    long budget = 400000; Val v; try { v = fromLibData(*d, &budget); } catch (const Budget&) { return pbt::discard("readback-budget"); }
    CHECK(v == ref.v, "wrong-value", "model value " + v.str() + " but set-theoretic value is " + ref.v.str());
  }
  c.nontrivial = (g.binders > 0 || g.features[0] || g.ops >= 3);
  return pbt::pass();
}

// ---- literal witnesses of repaired defects (independent of the generators: they stay valid when generators change) ----
struct Witness { const char* name; const char* expr; bool logic; bool expectTruth; const char* expectValue; };
const std::vector<Witness>& witnesses() {
  // context: X1={1,2,3}, X2={1,2}, S1={(1,2),(1,3)} : ℬ(X1×X1), S2 = ℬ(X1) lazily constructible, D1=2 : X1
  static const std::vector<Witness> w = {
    {"enum-decl-domain-copy-clobbers-variable", "\xE2\x88\x80\xCE\xBE\xE2\x88\x88X2 \xE2\x88\x83\xCE\xB1,t,a\xE2\x88\x88" "D{\xCE\xB1\xE2\x88\x88X2|\xCE\xBE\xE2\x88\x88X2}\xE2\x88\xAAX2 \xCE\xBE=\xCE\xB1", true, true, ""},
    {"tuple-pattern-not-last-in-enum-decl", "\xE2\x88\x83(a,y),x\xE2\x88\x88S1 (a\xE2\x88\x88X1 & y\xE2\x88\x88X1 & pr1(x)=a)", true, true, ""},
    {"two-tuple-patterns-same-names-other-positions", "I{a|(a,b):\xE2\x88\x88S1; b=b}\xE2\x88\xAAI{a|(b,a):\xE2\x88\x88S1; b=b}", false, false, "{1,2,3}"},
    {"imperative-value-without-identifiers", "I{1|a:\xE2\x88\x88X1}", false, false, "{1}"},
    {"lazy-product-proper-subset", "{1}\xC3\x97X2\xE2\x8A\x82{2}\xC3\x97X2", true, false, ""},
    {"declarative-domain-redeclares-pattern-names", "D{(a,b)\xE2\x88\x88" "D{(a,b)\xE2\x88\x88S1|a=a}|b=D1}", false, false, "{(1,2)}"},
    {"arithmetic-overflow-is-an-error", "card(X1)*1000000*1000000>0", true, false, "LIMIT"},
    {"tuple-patterns-concatenating-to-one-name", "\xE2\x88\x80(a,bc)\xE2\x88\x88S1 \xE2\x88\x80(ab,c)\xE2\x88\x88S1 bc=c", true, false, ""},
    {"tuple-patterns-concatenating-to-one-name-exists", "\xE2\x88\x83(a,bc)\xE2\x88\x88S1 \xE2\x88\x83(ab,c)\xE2\x88\x88S1 bc\xE2\x89\xA0" "c", true, true, ""},
  };
  return w;
}
Verdict witnessProp(Ctx& c) {
  const auto& ws = witnesses();
  const auto& w = ws[static_cast<size_t>(c.ipick(0, static_cast<int>(ws.size()) - 1))];
  Gamma G;
  auto base = [&](const char* n, int k) { Global x; x.name = n; x.isBase = true; x.type = Ty::Set(Ty::Base(n)); std::vector<Val> v; for (int i = 1; i <= k; ++i) v.push_back(Val::Int(i)); x.value = Val::Set(v); G.globals.push_back(x); };
  base("X1", 3); base("X2", 2);
  { Global s; s.name = "S1"; s.type = Ty::Set(Ty::Tuple({Ty::Base("X1"), Ty::Base("X1")})); s.value = Val::Set({Val::Tuple({Val::Int(1), Val::Int(2)}), Val::Tuple({Val::Int(1), Val::Int(3)})}); G.globals.push_back(s); }
  { Global d; d.name = "D1"; d.type = Ty::Base("X1"); d.value = Val::Int(2); G.globals.push_back(d); }
  c.show << "witness " << w.name << ": " << w.expr;
  c.nontrivial = true;
  c.label(std::string("witness:") + w.name);
  c.exec();
  const Run r = runLib(G, w.expr, rl::Syntax::MATH, false);
  if (std::string(w.expectValue) == "LIMIT") { CHECK(!r.ok, "witness", std::string(w.name) + ": expected a resource-limit failure"); bool lim = false; for (auto e : r.errs) lim |= isLimitCode(e); CHECK(lim, "witness", std::string(w.name) + ": failed with" + r.errText); return pbt::pass(); }
  CHECK(r.ok, "witness", std::string(w.name) + ": evaluation failed:" + r.errText);
  if (w.logic) CHECK(r.isBool && r.b == w.expectTruth, "witness", std::string(w.name) + ": got " + (r.b ? "true" : "false"));
  else CHECK(!r.isBool && r.v.str() == w.expectValue, "witness", std::string(w.name) + ": got " + r.v.str() + " want " + w.expectValue);
  return pbt::pass();
}

}  // namespace

int main(int argc, char** argv) {
  std::vector<pbt::Prop> props;
  props.push_back({"witnesses", witnessProp, 0, 0, true, false, "literal expressions that exposed repaired defects, with their set-theoretic values"});
  props.push_back({"evaluate", evalProp, 2500, 20000, false, false, "type-directed expressions x contexts x data; 2-4 renderings each"});
  props.push_back({"evaluate_name_reuse", evalReuseProp, 1200, 10000, false, false, "the same with a variant generator: binders re-declare names whose earlier scope has ended (sibling binders, domains of enumerated / tuple declarations), Pr with repeated / permuted index lists"});
  props.push_back({"evaluate_imperative_chains", evalImperativeProp, 800, 6000, false, false, "imperative constructors of 2-5 blocks in which every domain / assigned value / guard is built from the variables of earlier blocks"});
  props.push_back({"large_lazy_sets", largeLazyProp, 600, 4000, false, false, "products of base sets (up to 20 elements) and their power sets with 2^2 .. 2^80 elements: cardinality, emptiness, quantification - the exact value or a resource-limit error"});
  props.push_back({"model_calculate", modelProp, 1200, 10000, false, false, "the same content as an RSModel: Calculate + SDataFor / StatementFor vs the reference value"});
  return pbt::main(argc, argv, "C01", props);
}
