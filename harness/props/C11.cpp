// C11 - a model never shows a calculated value that is stale w.r.t. current data.
//
// Histories on one RSModel: a schema with a dependency DAG is created through the model's API, then data edits,
// definition edits, erasures, insertions and calculations are applied.  After EVERY operation a second, fresh
// RSModel is built from the current content of the first one (records in list order with the same uid / alias /
// kind / definition, the same keyed base interpretations, the same structure data - through the public API, not
// JSON) and RecalculateAll() is run there.  Oracles (only what the statement demands):
//   stale-value         a constituent that reports WasCalculated and exposes a value shows a value different from the
//                       recomputed one (canonical string obtained by iterating the data; operator== is reported too)
//   stale-incalculable  ... shows a value although recalculation from current content yields none
//   structure-dangling-element / structure-shape-mismatch
//                       structure data mentions a base element id that is not a current element of that base set
//                       (or does not fit the current typification at all)
// A value that is absent or not reported as calculated is always fine.  The dependency relation used for the
// labels and for the known-finding matchers is computed by the harness from the definitions (own scanner).
#include "common/pbt.hpp"

#include "ccl/semantic/RSModel.h"
#include "ccl/tools/EntityGenerator.h"

#include <map>
#include <optional>
#include <set>

using ccl::EntityUID;
using ccl::object::Factory;
using ccl::object::StructuredData;
using ccl::rslang::StructureType;
using ccl::rslang::Typification;
using ccl::semantic::ConceptRecord;
using ccl::semantic::CstType;
using ccl::semantic::ParsingStatus;
using ccl::semantic::RSModel;
using ccl::semantic::TextInterpretation;
using pbt::Ctx;
using pbt::Verdict;

namespace {

const char* const kKnownSetExpr = "setexpr-keeps-dependants";
const char* const kKnownSameSize = "same-size-text-keeps-dependants";
const char* const kKnownErase = "erase-keeps-dependants";
const char* const kKnownEraseUntyped = "erase-leaves-untyped-structure-data";

// ---------------------------------------------------------------------------------------------------------------
// generator side: a shadow of the schema that predicts aliases and base element ids, so that the whole history is
// concrete (and rendered) before the library runs.  The shadow is never used by an oracle.
enum Kind { BASE, CONST, STRUCT, TERM, AXIOM, THEOREM, FUNC };
const char kLetter[] = {'X', 'C', 'S', 'D', 'A', 'T', 'F'};
const char* const kKindName[] = {"base", "constant", "structured", "term", "axiom", "theorem", "function"};
CstType toType(Kind k) {
  switch (k) {
    case BASE: return CstType::base;
    case CONST: return CstType::constant;
    case STRUCT: return CstType::structured;
    case TERM: return CstType::term;
    case AXIOM: return CstType::axiom;
    case THEOREM: return CstType::theorem;
    default: return CstType::function;
  }
}

// data values of the generator (converted with Factory at run time)
struct DV {
  int k = 0;  // 0 element, 1 tuple, 2 set
  int v = 0;
  std::vector<DV> kids;
};
DV dvVal(int v) { DV d; d.v = v; return d; }
DV dvTuple(std::vector<DV> kids) { DV d; d.k = 1; d.kids = std::move(kids); return d; }
DV dvSet(std::vector<DV> kids) { DV d; d.k = 2; d.kids = std::move(kids); return d; }
std::string dvStr(const DV& d) {
  if (d.k == 0) return std::to_string(d.v);
  std::string o = d.k == 1 ? "(" : "{";
  for (size_t i = 0; i < d.kids.size(); ++i) o += (i ? "," : "") + dvStr(d.kids[i]);
  return o + (d.k == 1 ? ")" : "}");
}
StructuredData dvData(const DV& d) {
  if (d.k == 0) return Factory::Val(d.v);
  std::vector<StructuredData> kids;
  for (const auto& x : d.kids) kids.push_back(dvData(x));
  return d.k == 1 ? Factory::Tuple(kids) : Factory::Set(kids);
}

// Sorts are coarse types used to keep most generated definitions well typed:
//   S:x set of elements of base x | R:x:y set of pairs | P:x:y one pair | SS:x set of sets | I integer | E:x element
//   L logical | F:x function from S:x to S:x | "" deliberately ill-formed
struct Item {
  Kind kind{};
  std::string alias, def, sort;
  bool live = true;
  std::vector<int> keys;  // base sets: predicted current element ids
};

enum OpKind { ADD_ELEM, SET_TEXT, SET_STRUCT, RESET_DATA, SET_EXPR, ERASE, EMPLACE, INSERT_COPY, INSERT_COPY2, CALC, RECALC };
const char* const kOpName[] = {"AddBasicElement", "SetBasicText", "SetStructureData", "ResetDataFor", "SetExpressionFor", "Erase",
                               "Emplace", "InsertCopy", "InsertCopy2", "Calculate", "RecalculateAll"};
struct NewItem { Kind kind{}; std::string alias, def; uint32_t uid = 0; int slot = -1; };
struct Op {
  OpKind k{};
  int slot = -1;        // target (index into the shadow items); -1 with bogus => unknown uid
  bool bogus = false;   // target is a uid that is not in the model
  bool setup = false;   // part of the forced prefix that creates the schema and the initial data
  std::string name;     // AddBasicElement
  std::vector<std::pair<int, std::string>> text;  // SetBasicText
  std::string textMode;
  DV data;              // SetStructureData
  std::string def;      // SetExpressionFor
  std::vector<NewItem> created;  // Emplace / InsertCopy / InsertCopy2
};

std::vector<std::string> split(const std::string& s, char sep) {
  std::vector<std::string> r; std::string cur;
  for (char ch : s) { if (ch == sep) { r.push_back(cur); cur.clear(); } else cur += ch; }
  r.push_back(cur);
  return r;
}

struct Gen {
  Ctx& c;
  std::vector<Item> items;
  std::vector<Op> ops;
  int nameCounter = 0;
  std::set<uint32_t> usedUids;
  bool indexEdits = false;  // sub-property index_edits: edits that change nothing but a projection / filter index
  explicit Gen(Ctx& ctx) : c(ctx) {}

  static bool hasIndex(const std::string& def) { return def.find("Pr1(") != std::string::npos || def.find("Pr2(") != std::string::npos || def.find("pr1(") != std::string::npos || def.find("pr2(") != std::string::npos; }
  // `def` with one projection index flipped (Pr1<->Pr2, pr1<->pr2), "" when it has none
  std::string flipIndex(const std::string& def) {
    std::vector<size_t> at;
    for (size_t i = 0; i + 3 < def.size(); ++i) {
      if ((def[i] == 'P' || def[i] == 'p') && def[i + 1] == 'r' && (def[i + 2] == '1' || def[i + 2] == '2') && def[i + 3] == '(') at.push_back(i + 2);
    }
    if (at.empty()) return "";
    std::string r = def;
    const size_t k = at[static_cast<size_t>(idx(static_cast<int>(at.size())))];
    r[k] = r[k] == '1' ? '2' : '1';
    return r;
  }

  int idx(int n) { return n <= 1 ? 0 : c.ipick(0, n - 1); }
  std::vector<int> liveSlots(const std::function<bool(const Item&)>& pred, int bound = 1 << 30) const {
    std::vector<int> r;
    for (int i = 0; i < static_cast<int>(items.size()) && i < bound; ++i) if (items[i].live && pred(items[i])) r.push_back(i);
    return r;
  }
  std::vector<std::string> aliasesOfSort(const std::string& sort, int bound) const {
    std::vector<std::string> r;
    for (int s : liveSlots([&](const Item& it) { return it.sort == sort; }, bound)) r.push_back(items[s].alias);
    return r;
  }
  std::vector<std::string> aliasesOfPrefix(const std::string& prefix, int bound) const {
    std::vector<std::string> r;
    for (int s : liveSlots([&](const Item& it) { return it.sort.rfind(prefix, 0) == 0; }, bound)) r.push_back(items[s].alias);
    return r;
  }
  std::vector<std::string> liveBases(int bound) const {
    std::vector<std::string> r;
    for (int s : liveSlots([](const Item& it) { return it.kind == BASE || it.kind == CONST; }, bound)) r.push_back(items[s].alias);
    return r;
  }
  const Item* liveByAlias(const std::string& a) const {
    for (const auto& it : items) if (it.live && it.alias == a) return &it;
    return nullptr;
  }
  std::string pickOf(const std::vector<std::string>& v) {  // candidates are in creation order: favour the most recent one (longer dependency chains)
    if (v.size() > 1 && c.chance(1, 3)) return v.back();
    return v[static_cast<size_t>(idx(static_cast<int>(v.size())))];
  }
  std::string freeAlias(Kind k, int skip) const {  // the (skip+1)-th free alias of the kind; skip 0 is what the library generates
    for (int i = 1;; ++i) {
      const std::string a = kLetter[k] + std::to_string(i);
      if (liveByAlias(a)) continue;
      if (skip-- == 0) return a;
    }
  }

  // ---- definitions ----------------------------------------------------------------------------------------
  std::string someBase(int bound) { const auto b = liveBases(bound); return b.empty() ? "X9" : pickOf(b); }

  std::pair<std::string, std::string> structDef(int bound) {  // (definition, sort)
    const std::string x = someBase(bound), y = someBase(bound);
    if (indexEdits && c.coin()) return c.coin() ? std::make_pair("ℬ(" + x + "×" + x + ")", "R:" + x + ":" + x) : std::make_pair(x + "×" + x, "P:" + x + ":" + x);
    switch (c.ipick(0, 6)) {
      case 0: case 1: return {"ℬ(" + x + ")", "S:" + x};
      case 2: return {"ℬ(" + x + "×" + y + ")", "R:" + x + ":" + y};
      case 3: return {"ℬ(" + x + "×" + x + ")", "R:" + x + ":" + x};
      case 4: return {x + "×" + y, "P:" + x + ":" + y};
      case 5: return {"ℬ(ℬ(" + x + "))", "SS:" + x};
      default: return {c.coin() ? "ℬ(X9)" : "ℬ(" + x + "×)", ""};
    }
  }

  std::string brokenDef(const std::string& sort, int bound) {
    const std::string x = someBase(bound);
    switch (c.ipick(0, 3)) {
      case 0: return x + "∪";
      case 1: return "X9\\" + x;
      case 2: return sort == "L" ? x + "∪" + x : "1=1";  // wrong category for the kind
      default: return "";
    }
  }

  // a definition whose value has the given sort, over live constituents with slot < bound
  std::string defOfSort(const std::string& sort, int bound) {
    const auto parts = split(sort, ':');
    const std::string& tag = parts[0];
    if (tag == "S") {
      const std::string& x = parts[1];
      auto same = aliasesOfSort(sort, bound);
      if (same.empty()) same.push_back(x);
      const std::string a = pickOf(same);
      switch (indexEdits && c.coin() ? c.ipick(6, 7) : c.ipick(0, 9)) {
        case 0: return a;
        case 1: return a + "∪" + pickOf(same);
        case 2: return a + "\\" + pickOf(same);
        case 3: return a + "∩" + pickOf(same);
        case 4: return "D{a∈" + a + " | a∈" + pickOf(same) + "}";
        case 5: return "D{a∈" + a + " | a∉" + pickOf(same) + "}";
        case 6: { auto r = aliasesOfPrefix("R:" + x + ":", bound); if (!r.empty()) return "Pr1(" + pickOf(r) + ")"; return a + "∪" + x; }
        case 7: {
          std::vector<std::string> r;
          for (int s : liveSlots([&](const Item& it) { const auto p = split(it.sort, ':'); return p[0] == "R" && p.size() == 3 && p[2] == x; }, bound)) r.push_back(items[s].alias);
          if (!r.empty()) return "Pr2(" + pickOf(r) + ")";
          return x + "\\" + a;
        }
        case 8: { auto r = aliasesOfSort("SS:" + x, bound); if (!r.empty()) return "red(" + pickOf(r) + ")"; return a; }
        default: { auto f = aliasesOfSort("F:" + x, bound); if (!f.empty()) return pickOf(f) + "[" + a + "]"; return a + "∪" + a; }
      }
    }
    if (tag == "R") {
      const std::string sx = "S:" + parts[1], sy = "S:" + parts[2];
      auto ax = aliasesOfSort(sx, bound), ay = aliasesOfSort(sy, bound);
      if (ax.empty()) ax.push_back(parts[1]);
      if (ay.empty()) ay.push_back(parts[2]);
      const auto same = aliasesOfSort(sort, bound);
      switch (same.empty() ? 0 : c.ipick(0, 3)) {
        case 0: return pickOf(ax) + "×" + pickOf(ay);
        case 1: return pickOf(same);
        case 2: return pickOf(same) + "∪" + pickOf(same);
        default: return "D{t∈" + pickOf(same) + " | pr1(t)∈" + pickOf(ax) + "}";
      }
    }
    if (tag == "SS") {
      auto ax = aliasesOfSort("S:" + parts[1], bound);
      if (ax.empty()) ax.push_back(parts[1]);
      const auto same = aliasesOfSort(sort, bound);
      switch (same.empty() ? c.ipick(0, 1) : c.ipick(0, 3)) {
        case 0: return "ℬ(" + pickOf(ax) + ")";
        case 1: return "bool(" + pickOf(ax) + ")";
        case 2: return pickOf(same);
        default: return pickOf(same) + "∪" + pickOf(same);
      }
    }
    if (tag == "I") {
      auto sets = aliasesOfPrefix("S:", bound);
      const auto rels = aliasesOfPrefix("R:", bound);
      sets.insert(sets.end(), rels.begin(), rels.end());
      const auto ints = aliasesOfSort("I", bound);
      if (sets.empty()) return "1+1";
      switch (ints.empty() ? c.ipick(0, 1) : c.ipick(0, 3)) {
        case 0: return "card(" + pickOf(sets) + ")";
        case 1: return "card(" + pickOf(sets) + ")+card(" + pickOf(sets) + ")";
        case 2: return pickOf(ints) + "+1";
        default: return pickOf(ints) + "*card(" + pickOf(sets) + ")";
      }
    }
    if (tag == "E") {
      const std::string& x = parts[1];
      std::vector<std::string> p1, p2;
      for (int s : liveSlots([&](const Item& it) { return it.sort.rfind("P:", 0) == 0; }, bound)) {
        const auto p = split(items[s].sort, ':');
        if (p[1] == x) p1.push_back(items[s].alias);
        if (p[2] == x) p2.push_back(items[s].alias);
      }
      if (!p1.empty() && (p2.empty() || c.coin())) return "pr1(" + pickOf(p1) + ")";
      if (!p2.empty()) return "pr2(" + pickOf(p2) + ")";
      auto ax = aliasesOfSort("S:" + x, bound);
      if (ax.empty()) ax.push_back(x);
      return "debool(" + pickOf(ax) + ")";  // calculable only while the set is a singleton
    }
    if (tag == "F") {
      const std::string& x = parts[1];
      const auto ax = aliasesOfSort("S:" + x, bound);
      const std::string head = "[a∈ℬ(" + x + ")] ";
      switch (ax.empty() ? c.ipick(0, 1) : c.ipick(0, 3)) {
        case 0: return head + x + "\\a";
        case 1: return head + "a\\a";
        case 2: return head + "a∪" + pickOf(ax);
        default: return head + "a∩" + pickOf(ax);
      }
    }
    if (tag == "L") {
      const auto sets = aliasesOfPrefix("S:", bound);
      const auto ints = aliasesOfSort("I", bound);
      if (sets.empty()) return "1=1";
      const std::string a = pickOf(sets);
      const auto same = aliasesOfSort(liveByAlias(a) ? liveByAlias(a)->sort : "", bound);
      const std::string b = same.empty() ? a : pickOf(same);
      switch (ints.empty() ? c.ipick(0, 5) : c.ipick(0, 7)) {
        case 0: return "∀a∈" + a + " a∈" + b;
        case 1: return a + "=" + b;
        case 2: return a + "⊆" + b;
        case 3: return "card(" + a + ")>" + std::to_string(c.ipick(0, 3));
        case 4: return "∃a∈" + a + " a∉" + b;
        case 5: return a + "≠∅";
        case 6: return pickOf(ints) + "=" + std::to_string(c.ipick(0, 4));
        default: return pickOf(ints) + ">card(" + a + ")";
      }
    }
    return brokenDef(sort, bound);
  }

  std::string newTermSort(int bound) {
    const std::string x = someBase(bound), y = someBase(bound);
    const int k = c.ipick(0, 19);
    if (k < 9) return "S:" + x;
    if (k < 12) return "R:" + x + ":" + y;
    if (k < 14) return "SS:" + x;
    if (k < 18) return "I";
    if (k < 19) return "E:" + x;
    return "";
  }

  // ---- data -----------------------------------------------------------------------------------------------
  std::vector<int> keysOf(const std::string& base) const { const Item* it = liveByAlias(base); return it ? it->keys : std::vector<int>{}; }
  int unusedKey(const std::vector<int>& keys) {
    for (int k = 1 + c.ipick(-3, 2);; ++k) if (std::find(keys.begin(), keys.end(), k) == keys.end()) return k;
  }
  DV dataOfSort(const std::string& sort) {
    const auto p = split(sort, ':');
    const int flaw = c.chance(1, 7) ? c.ipick(1, 2) : 0;  // 1 an id that is not an element, 2 wrong shape
    auto key = [&](const std::string& base, bool mayFlaw) {
      const auto ks = keysOf(base);
      if (ks.empty() || (mayFlaw && flaw == 1)) return unusedKey(ks);
      return ks[static_cast<size_t>(idx(static_cast<int>(ks.size())))];
    };
    if (flaw == 2) return c.coin() ? dvVal(1) : dvSet({dvSet({dvTuple({dvVal(1), dvVal(1), dvVal(1)})})});
    if (p[0] == "S") {
      std::vector<DV> e;
      for (int k : keysOf(p[1])) if (c.coin()) e.push_back(dvVal(k));
      if (flaw == 1) e.push_back(dvVal(key(p[1], true)));
      if (e.empty() && !keysOf(p[1]).empty() && !c.chance(1, 5)) e.push_back(dvVal(key(p[1], false)));  // {} is the default: mostly refused as "no change"
      return dvSet(e);
    }
    if (p[0] == "R") {
      std::vector<DV> e;
      const int n = keysOf(p[1]).empty() || keysOf(p[2]).empty() ? 0 : c.ipick(c.chance(1, 5) ? 0 : 1, 4);
      for (int i = 0; i < n; ++i) e.push_back(dvTuple({dvVal(key(p[1], false)), dvVal(key(p[2], false))}));
      if (flaw == 1) e.push_back(dvTuple({dvVal(key(p[1], c.coin())), dvVal(key(p[2], true))}));
      return dvSet(e);
    }
    if (p[0] == "P") return dvTuple({dvVal(key(p[1], false)), dvVal(key(p[2], true))});
    if (p[0] == "SS") {
      std::vector<DV> e;
      const int n = c.ipick(c.chance(1, 5) ? 0 : 1, 3);
      for (int i = 0; i < n; ++i) { std::vector<DV> in; for (int k : keysOf(p[1])) if (c.coin()) in.push_back(dvVal(k)); e.push_back(dvSet(in)); }
      if (flaw == 1) e.push_back(dvSet({dvVal(key(p[1], true))}));
      return dvSet(e);
    }
    return dvSet({dvVal(1)});
  }

  // ---- operations -------------------------------------------------------------------------------------------
  int pickTarget(const std::function<bool(const Item&)>& preferred) {  // mostly a constituent the mutator accepts
    auto good = liveSlots(preferred);
    auto any = liveSlots([](const Item&) { return true; });
    if (any.empty()) return -1;
    if (c.chance(1, 12)) return any[static_cast<size_t>(idx(static_cast<int>(any.size())))];
    if (good.empty()) return -1;
    return good[static_cast<size_t>(idx(static_cast<int>(good.size())))];
  }
  static bool isBase(const Item& it) { return it.kind == BASE || it.kind == CONST; }

  NewItem makeNew(Kind kind, bool emplace) {
    NewItem n; n.kind = kind;
    const int bound = static_cast<int>(items.size());
    std::string sort;
    switch (kind) {
      case BASE: case CONST: n.def = ""; break;
      case STRUCT: { auto ds = structDef(bound); n.def = ds.first; sort = ds.second; break; }
      case TERM: sort = newTermSort(bound); n.def = defOfSort(sort, bound); break;
      case AXIOM: case THEOREM: sort = c.chance(1, 8) ? "" : "L"; n.def = defOfSort(sort, bound); break;
      case FUNC: sort = "F:" + someBase(bound); n.def = defOfSort(sort, bound); break;
    }
    n.alias = freeAlias(kind, emplace ? 0 : c.ipick(0, 2));
    if (!emplace) { uint32_t u = static_cast<uint32_t>(c.ipick(1, 40)); while (usedUids.count(u)) ++u; usedUids.insert(u); n.uid = u; }
    Item it; it.kind = kind; it.alias = n.alias; it.def = n.def;
    it.sort = isBase(it) ? "S:" + n.alias : sort;
    n.slot = static_cast<int>(items.size());
    items.push_back(it);
    return n;
  }
  Kind derivedKind() { const int k = c.ipick(0, 19); return k < 12 ? TERM : k < 16 ? AXIOM : k < 17 ? THEOREM : FUNC; }

  void create(Kind kind, bool setup) {
    Op op; op.setup = setup;
    const bool emplace = !c.chance(1, 4);
    op.k = emplace ? EMPLACE : INSERT_COPY;
    op.created.push_back(makeNew(kind, emplace));
    ops.push_back(op);
  }

  void setText(int slot, bool setup) {
    Op op; op.k = SET_TEXT; op.slot = slot; op.setup = setup;
    Item& it = items[static_cast<size_t>(slot)];
    std::vector<int> keys = isBase(it) ? it.keys : std::vector<int>{};
    int mode = setup ? 2 : c.ipick(0, 6);
    if (keys.empty() && (mode == 0 || mode == 1 || mode == 3)) mode = 2;
    bool fresh = true;
    switch (mode) {
      case 0: {  // same size, different keys
        op.textMode = "same-size";
        const int n = c.ipick(1, std::min<int>(2, static_cast<int>(keys.size())));
        for (int i = 0; i < n; ++i) { const int nk = unusedKey(keys); keys[static_cast<size_t>(idx(static_cast<int>(keys.size())))] = nk; }
        break;
      }
      case 1: {  // shrink
        op.textMode = "shrink";
        const int n = c.ipick(1, static_cast<int>(keys.size()));
        for (int i = 0; i < n; ++i) keys.erase(keys.begin() + idx(static_cast<int>(keys.size())));
        break;
      }
      case 2: {  // grow (or first assignment)
        op.textMode = "grow";
        const int n = c.ipick(1, setup ? 4 : 2);
        for (int i = 0; i < n && keys.size() < 6; ++i) keys.push_back(unusedKey(keys));
        break;
      }
      case 3: op.textMode = "rename-only"; break;
      case 4: op.textMode = "identical"; fresh = false; break;
      case 5: { op.textMode = "arbitrary"; keys.clear(); for (int k = 1; k <= 6; ++k) if (c.chance(1, 3)) keys.push_back(k); break; }
      default: op.textMode = "clear"; keys.clear(); break;
    }
    std::sort(keys.begin(), keys.end());
    keys.erase(std::unique(keys.begin(), keys.end()), keys.end());
    for (int k : keys) op.text.emplace_back(k, fresh ? "e" + std::to_string(++nameCounter) : "=");
    if (isBase(it)) it.keys = keys;
    ops.push_back(op);
  }

  void setStruct(int slot, bool setup) {
    Op op; op.k = SET_STRUCT; op.slot = slot; op.setup = setup;
    op.data = dataOfSort(items[static_cast<size_t>(slot)].sort);
    ops.push_back(op);
  }

  void step() {
    for (int tries = 0; tries < 4; ++tries) if (tryStep()) return;
    Op op; op.k = RECALC; ops.push_back(op);
  }
  bool tryStep() {  // false: the drawn mutator has nothing to act on (nothing was appended)
    const bool hasFlippable = indexEdits && !liveSlots([](const Item& it) { return hasIndex(it.def); }).empty();
    const int k = hasFlippable && c.chance(1, 4) ? 70 : c.ipick(0, 99);
    Op op;
    if (k < 16) {
      op.k = CALC; op.slot = pickTarget([](const Item& it) { return it.kind == TERM || it.kind == AXIOM || it.kind == THEOREM; });
    } else if (k < 26) {
      op.k = RECALC;
    } else if (k < 36) {
      op.k = ADD_ELEM; op.slot = pickTarget([](const Item& it) { return isBase(it) && it.keys.size() < 6; });
      if (op.slot >= 0) {
        op.name = "e" + std::to_string(++nameCounter);
        Item& it = items[static_cast<size_t>(op.slot)];
        if (isBase(it)) { int nk = static_cast<int>(it.keys.size()) + 1; while (std::find(it.keys.begin(), it.keys.end(), nk) != it.keys.end()) ++nk; it.keys.push_back(nk); std::sort(it.keys.begin(), it.keys.end()); }
      }
    } else if (k < 50) {
      const int s = pickTarget(isBase);
      if (s < 0) return false;
      setText(s, false);
      return true;
    } else if (k < 60) {
      const int s = pickTarget([&](const Item& it) { return it.kind == STRUCT && (!it.sort.empty() || c.chance(1, 4)); });
      if (s < 0) return false;
      setStruct(s, false);
      return true;
    } else if (k < 65) {
      op.k = RESET_DATA; op.slot = pickTarget([](const Item& it) { return isBase(it) || it.kind == STRUCT; });
      if (op.slot >= 0 && isBase(items[static_cast<size_t>(op.slot)])) items[static_cast<size_t>(op.slot)].keys.clear();
    } else if (k < 79) {
      op.k = SET_EXPR;
      op.slot = hasFlippable && c.chance(3, 4) ? pickTarget([](const Item& it) { return hasIndex(it.def); }) : pickTarget([](const Item& it) { return !isBase(it); });
      if (op.slot >= 0) {
        Item& it = items[static_cast<size_t>(op.slot)];
        if (it.kind == STRUCT) { auto ds = structDef(op.slot); op.def = ds.first; it.sort = ds.second; }
        else if (isBase(it)) op.def = it.def;  // base sets keep their (empty) definition: refused as "no change"
        else if (std::string flipped = indexEdits ? flipIndex(it.def) : std::string(); !flipped.empty() && c.chance(2, 3)) { op.def = flipped; c.label("index-only-edit"); }  // same shape, another index
        else if (c.chance(1, 6)) op.def = brokenDef(it.sort, op.slot);  // the sort is kept: a later edit may repair it
        else {
          if (it.sort.rfind("S:", 0) == 0 && c.chance(1, 8)) it.sort = "S:" + someBase(op.slot);
          if (it.sort.empty()) it.sort = it.kind == TERM ? newTermSort(op.slot) : it.kind == FUNC ? "F:" + someBase(op.slot) : "L";
          op.def = defOfSort(it.sort, op.slot);
        }
        it.def = op.def;
      }
    } else if (k < 85) {
      op.k = ERASE; op.slot = pickTarget([](const Item&) { return true; });
      if (op.slot >= 0) items[static_cast<size_t>(op.slot)].live = false;
    } else if (k < 95) {
      const int kk = c.ipick(0, 9);
      if (kk < 8) { create(kk < 1 ? BASE : kk < 2 ? STRUCT : derivedKind(), false); return true; }
      op.k = INSERT_COPY2;
      op.created.push_back(makeNew(derivedKind(), false));
      op.created.push_back(makeNew(derivedKind(), false));
    } else {
      op.bogus = true;
      static const OpKind kinds[] = {ADD_ELEM, SET_TEXT, SET_STRUCT, RESET_DATA, SET_EXPR, ERASE, CALC};
      op.k = kinds[c.ipick(0, 6)];
      op.name = "bogus"; op.text = {{1, "bogus"}}; op.textMode = "bogus"; op.data = dvSet({dvVal(1)}); op.def = "X1";
    }
    if (!op.bogus && op.slot < 0 && op.created.empty() && op.k != RECALC) return false;
    ops.push_back(op);
    return true;
  }

  void generate() {
    const int nBase = c.ipick(1, 3);
    for (int i = 0; i < nBase; ++i) create(BASE, true);
    if (c.chance(1, 4)) create(CONST, true);
    const int nStruct = c.ipick(0, 2);
    for (int i = 0; i < nStruct; ++i) create(STRUCT, true);
    const int nDer = c.ipick(2, 6);
    for (int i = 0; i < nDer; ++i) create(derivedKind(), true);
    for (int s = 0; s < static_cast<int>(items.size()); ++s) {
      if (isBase(items[static_cast<size_t>(s)])) setText(s, true);
    }
    for (int s = 0; s < static_cast<int>(items.size()); ++s) {
      if (items[static_cast<size_t>(s)].kind == STRUCT && c.chance(2, 3)) setStruct(s, true);
    }
    const int nOps = c.ipick(4, 30);
    const size_t start = ops.size();
    if (c.coin()) { Op op; op.k = RECALC; ops.push_back(op); }
    while (ops.size() < start + static_cast<size_t>(nOps)) step();
  }

  std::string target(const Op& op) const { return op.bogus ? "<unknown uid>" : op.slot < 0 ? "-" : items[static_cast<size_t>(op.slot)].alias; }
  std::string showOp(const Op& op) const {
    std::string o = kOpName[op.k];
    switch (op.k) {
      case ADD_ELEM: return o + "(" + target(op) + ", \"" + op.name + "\")";
      case SET_TEXT: {
        o += "(" + target(op) + ", {";
        for (size_t i = 0; i < op.text.size(); ++i) o += (i ? "," : "") + std::to_string(op.text[i].first) + ":" + op.text[i].second;
        return o + "}) [" + op.textMode + "]";
      }
      case SET_STRUCT: return o + "(" + target(op) + ", " + dvStr(op.data) + ")";
      case SET_EXPR: return o + "(" + target(op) + ", \"" + op.def + "\")";
      case RESET_DATA: case ERASE: case CALC: return o + "(" + target(op) + ")";
      case RECALC: return o + "()";
      default: {
        o = op.k == EMPLACE ? "Emplace(" : op.k == INSERT_COPY ? "InsertCopy(record " : "InsertCopy(records ";
        for (size_t i = 0; i < op.created.size(); ++i) {
          const auto& n = op.created[i];
          o += (i ? "; " : "") + std::string(kKindName[n.kind]);
          if (op.k != EMPLACE) o += " uid=" + std::to_string(n.uid) + " alias=" + n.alias;
          o += ", \"" + n.def + "\"";
          if (op.k == EMPLACE) o += ") -> " + n.alias;
        }
        return op.k == EMPLACE ? o : o + ")";
      }
    }
  }
};

// ---------------------------------------------------------------------------------------------------------------
// run-time side

struct TooBig {};
// canonical rendering by iteration (representation independent): elements of a set are rendered and sorted
std::string canon(const StructuredData& d, int64_t& budget) {
  switch (d.Structure()) {
    case StructureType::basic: return std::to_string(d.E().Value());
    case StructureType::tuple: {
      std::string o = "(";
      for (auto i = Typification::PR_START; i < d.T().Arity() + Typification::PR_START; ++i) o += (i > Typification::PR_START ? "," : "") + canon(d.T().Component(i), budget);
      return o + ")";
    }
    default: {
      if ((budget -= d.B().Cardinality()) < 0) throw TooBig{};
      std::vector<std::string> v;
      for (const auto& e : d.B()) v.push_back(canon(e, budget));
      std::sort(v.begin(), v.end());
      std::string o = "{";
      for (size_t i = 0; i < v.size(); ++i) o += (i ? "," : "") + v[i];
      return o + "}";
    }
  }
}
std::string canon(const StructuredData& d) { int64_t budget = 200000; return canon(d, budget); }

// global identifiers of a definition (own scanner; upper-case kind letter followed by digits, not inside a word)
std::set<std::string> scanGlobals(const std::string& s) {
  auto isWord = [](char ch) { return (ch >= '0' && ch <= '9') || (ch >= 'a' && ch <= 'z') || (ch >= 'A' && ch <= 'Z') || ch == '_'; };
  std::set<std::string> r;
  for (size_t i = 0; i < s.size(); ++i) {
    if (std::strchr("XCSDATFP", s[i]) == nullptr || s[i] == 0) continue;
    if (i > 0 && isWord(s[i - 1])) continue;
    size_t j = i + 1;
    while (j < s.size() && s[j] >= '0' && s[j] <= '9') ++j;
    if (j == i + 1 || (j < s.size() && isWord(s[j]))) continue;
    r.insert(s.substr(i, j - i));
    i = j - 1;
  }
  return r;
}

// shortest dependency distance from `from` to every transitive dependant (by the harness' own reading of the definitions)
std::map<EntityUID, int> dependantsOf(const RSModel& m, EntityUID from) {
  std::map<std::string, EntityUID> byAlias;
  for (const auto uid : m.List()) byAlias[m.GetRS(uid).alias] = uid;
  std::map<EntityUID, std::set<EntityUID>> out;
  for (const auto uid : m.List()) {
    for (const auto& g : scanGlobals(m.GetRS(uid).definition)) {
      const auto it = byAlias.find(g);
      if (it != byAlias.end() && it->second != uid) out[it->second].insert(uid);
    }
  }
  std::map<EntityUID, int> dist;
  std::vector<EntityUID> frontier{from};
  for (int d = 1; !frontier.empty(); ++d) {
    std::vector<EntityUID> next;
    for (auto u : frontier) for (auto v : out[u]) if (v != from && dist.emplace(v, d).second) next.push_back(v);
    frontier = next;
  }
  return dist;
}

struct Snap { bool calc = false, has = false, big = false; std::string val; };
Snap observe(const RSModel& m, EntityUID uid) {
  Snap s;
  const auto type = m.GetRS(uid).type;
  s.calc = m.Calculations().WasCalculated(uid);
  if (ccl::semantic::IsStatement(type)) {
    if (const auto v = m.Values().StatementFor(uid); v.has_value()) { s.has = true; s.val = *v ? "true" : "false"; }
  } else if (ccl::semantic::IsRSObject(type)) {
    if (const auto v = m.Values().SDataFor(uid); v.has_value()) {
      s.has = true;
      try { s.val = canon(*v); } catch (const TooBig&) { s.big = true; }
    }
  }
  return s;
}
std::map<EntityUID, Snap> snapshot(const RSModel& m) {
  std::map<EntityUID, Snap> r;
  for (const auto uid : m.List()) r[uid] = observe(m, uid);
  return r;
}

// does `data` fit `type` and mention only current base elements?  "" = fine, otherwise a description
std::string walkData(const RSModel& m, const StructuredData& data, const Typification& type, bool& shape) {
  switch (type.Structure()) {
    case StructureType::basic: {
      if (!data.IsElement()) { shape = true; return "element expected for " + type.ToString(); }
      if (type == Typification::Integer()) return "";
      EntityUID base = 0; bool found = false;
      for (const auto uid : m.List()) if (m.GetRS(uid).alias == type.E().baseID) { base = uid; found = true; }
      if (!found) return "base set " + type.E().baseID + " does not exist";
      const auto* text = m.Values().TextFor(base);
      if (text == nullptr || !text->HasInterpretantFor(data.E().Value())) return std::to_string(data.E().Value()) + " is not an element of " + type.E().baseID;
      return "";
    }
    case StructureType::tuple: {
      if (!data.IsTuple() || data.T().Arity() != type.T().Arity()) { shape = true; return "tuple of arity " + std::to_string(type.T().Arity()) + " expected"; }
      for (auto i = Typification::PR_START; i < type.T().Arity() + Typification::PR_START; ++i) {
        const auto r = walkData(m, data.T().Component(i), type.T().Component(i), shape);
        if (!r.empty()) return r;
      }
      return "";
    }
    default: {
      if (!data.IsCollection()) { shape = true; return "set expected for " + type.ToString(); }
      for (const auto& e : data.B()) {
        const auto r = walkData(m, e, type.B().Base(), shape);
        if (!r.empty()) return r;
      }
      return "";
    }
  }
}
bool mentionsElement(const StructuredData& d) {
  if (d.IsElement()) return true;
  if (d.IsTuple()) return true;
  for (const auto& e : d.B()) if (mentionsElement(e)) return true;
  return false;
}

struct Violation { std::string oracle, msg; EntityUID uid = 0; };

struct Runner {
  Ctx& c;
  RSModel m;
  explicit Runner(Ctx& ctx) : c(ctx) {}

  std::string nameOf(EntityUID uid) const { return m.Contains(uid) ? m.GetRS(uid).alias + ":==" + m.GetRS(uid).definition : "#" + std::to_string(uid); }

  // the oracle: rebuild from current content, recalculate, compare
  std::optional<Violation> check(bool afterRecalcAll) {
    // 1. structure data against the current typification and the current base elements (independent walk)
    for (const auto uid : m.List()) {
      if (m.GetRS(uid).type != CstType::structured) continue;
      const auto d = m.Values().SDataFor(uid);
      if (!d.has_value()) continue;
      const auto* typif = m.GetParse(uid).Typification();
      if (typif == nullptr) {
        if (mentionsElement(*d)) return Violation{"structure-dangling-element", nameOf(uid) + " has no typification but holds data " + canon(*d), uid};
        continue;
      }
      bool shape = false;
      const auto why = walkData(m, *d, *typif, shape);
      if (!why.empty()) return Violation{shape ? "structure-shape-mismatch" : "structure-dangling-element", nameOf(uid) + " holds " + canon(*d) + ": " + why, uid};
    }
    // 2. fresh model from the current content
    RSModel f;
    std::vector<ConceptRecord> recs;
    for (const auto uid : m.List()) recs.push_back(m.Core().AsRecord(uid));
    const auto ids = f.InsertCopy(recs);
    for (size_t i = 0; i < recs.size(); ++i) {
      if (ids[i] != recs[i].uid || f.GetRS(ids[i]).alias != recs[i].alias || f.GetRS(ids[i]).definition != recs[i].rs) {
        c.count("harness:fresh-copy-renamed");  // cannot happen with unique uids/aliases; if it does, the comparison is meaningless
        return std::nullopt;
      }
    }
    std::set<EntityUID> parseDiffers;
    for (const auto uid : m.List()) if (m.GetParse(uid).status != f.GetParse(uid).status) parseDiffers.insert(uid);
    for (const auto uid : m.List()) {
      const auto type = m.GetRS(uid).type;
      if (ccl::semantic::IsBaseSet(type)) {
        const auto* text = m.Values().TextFor(uid);
        const auto data = m.Values().SDataFor(uid);
        // base data and base text are one thing for the user; the fresh model receives the text
        std::string keys = "{";
        if (text != nullptr) for (const auto& kv : *text) keys += (keys.size() > 1 ? "," : "") + std::to_string(kv.first);
        keys += "}";
        if (text == nullptr || !data.has_value() || canon(*data) != keys) { c.count("unconstrained:base-data-differs-from-text"); return std::nullopt; }
        if (!text->empty() && !f.Values().SetBasicText(uid, *text)) { c.count("harness:fresh-refused-text"); return std::nullopt; }
      }
    }
    for (const auto uid : m.List()) {
      if (m.GetRS(uid).type != CstType::structured) continue;
      const auto d = m.Values().SDataFor(uid);
      if (!d.has_value()) continue;
      const auto fd = f.Values().SDataFor(uid);
      if (fd.has_value() && canon(*fd) == canon(*d)) continue;
      if (m.GetParse(uid).Typification() == nullptr) continue;  // only element-free data can be here (checked in 1.); the fresh structure has no data
      if (!f.Values().SetStructureData(uid, *d)) { c.count("harness:fresh-refused-structure-data"); return std::nullopt; }  // the walk in 1. accepted it
    }
    f.Calculations().RecalculateAll();
    // 3. compare
    std::set<EntityUID> skip;
    if (!parseDiffers.empty()) {
      c.count("unconstrained:incremental-parse-status-differs");
      for (auto u : parseDiffers) { skip.insert(u); for (const auto& [v, d] : dependantsOf(m, u)) skip.insert(v); }
    }
    for (const auto uid : m.List()) {
      const auto type = m.GetRS(uid).type;
      if (!ccl::semantic::IsCalculable(type) || skip.count(uid)) continue;
      const bool calc = m.Calculations().WasCalculated(uid);
      const bool fcalc = f.Calculations().WasCalculated(uid);
      if (ccl::semantic::IsStatement(type)) {
        const auto v = m.Values().StatementFor(uid), fv = f.Values().StatementFor(uid);
        if (!calc) { if (v.has_value()) c.count("value-without-calculated-flag"); continue; }
        if (!v.has_value()) { if (afterRecalcAll && fv.has_value()) c.count("recalculate-all-left-no-value"); continue; }
        if (!fcalc || !fv.has_value()) return Violation{"stale-incalculable", nameOf(uid) + " shows " + (*v ? "true" : "false") + " as calculated; recalculation from current content gives no value", uid};
        if (*v != *fv) return Violation{"stale-value", nameOf(uid) + " shows " + (*v ? "true" : "false") + " as calculated; recalculation gives " + (*fv ? "true" : "false"), uid};
      } else {
        const auto v = m.Values().SDataFor(uid), fv = f.Values().SDataFor(uid);
        if (!calc) { if (v.has_value()) c.count("value-without-calculated-flag"); continue; }
        if (!v.has_value()) { if (afterRecalcAll && fv.has_value()) c.count("recalculate-all-left-no-value"); continue; }
        std::string cv;
        try { cv = canon(*v); } catch (const TooBig&) { c.count("unconstrained:value-too-big-to-compare"); continue; }
        if (!fcalc || !fv.has_value()) return Violation{"stale-incalculable", nameOf(uid) + " shows " + cv + " as calculated; recalculation from current content gives no value", uid};
        std::string cf;
        try { cf = canon(*fv); } catch (const TooBig&) { c.count("unconstrained:value-too-big-to-compare"); continue; }
        const bool eqOp = *v == *fv;
        if (cv != cf) return Violation{"stale-value", nameOf(uid) + " shows " + cv + " as calculated; recalculation gives " + cf + (eqOp ? " (operator== says equal)" : ""), uid};
        if (!eqOp) c.count("unconstrained:operator==-differs-on-equal-content");
      }
    }
    return std::nullopt;
  }
};

struct Unseed { ~Unseed() { ccl::tools::EntityGenerator::VerifUnseed(); } };

Verdict runHistory(Ctx& c, bool indexEdits) {
  const uint64_t idSeed = static_cast<uint64_t>(c.pick(0, 1000));
  Gen g(c);
  g.indexEdits = indexEdits;
  g.generate();
  c.show << "idseed=" << idSeed << "\nsetup:";
  size_t nSetup = 0;
  for (const auto& op : g.ops) if (op.setup) { c.show << "\n  " << g.showOp(op); ++nSetup; }
  c.show << "\nops:";
  for (size_t i = nSetup; i < g.ops.size(); ++i) c.show << "\n  " << (i - nSetup) << ": " << g.showOp(g.ops[i]);
  if (std::getenv("C11_SHOW") != nullptr) std::cerr << c.show.str() << std::endl;  // debugging aid: the case as generated from a tape
  c.exec();

  ccl::tools::EntityGenerator::VerifSeed(idSeed * 7919ULL + 17ULL);
  Unseed unseed;
  Runner r(c);
  RSModel& m = r.m;
  std::vector<std::optional<EntityUID>> slotUid(g.items.size());
  std::set<std::string> labels;
  bool nontrivial = false;

  for (size_t i = 0; i < g.ops.size(); ++i) {
    const Op& op = g.ops[i];
    const std::string where = op.setup ? "setup " + g.showOp(op) : "op " + std::to_string(i - nSetup) + " " + g.showOp(op);
    // resolve the target
    std::optional<EntityUID> target;
    if (op.bogus) { EntityUID u = 4242; while (m.Contains(u)) ++u; target = u; }
    else if (op.slot >= 0) target = slotUid[static_cast<size_t>(op.slot)];
    if (!target.has_value() && op.slot >= 0) { c.count("harness:target-unresolved"); continue; }
    const bool present = target.has_value() && m.Contains(*target);

    // state before the operation (for labels and the known-finding matchers)
    const auto before = snapshot(m);
    std::map<EntityUID, int> deps;
    if (present) deps = dependantsOf(m, *target);
    int maxDist = 0;
    for (const auto& [u, d] : deps) { const auto it = before.find(u); if (it != before.end() && it->second.calc && it->second.has) maxDist = std::max(maxDist, d); }
    bool sameSize = false;
    if (op.k == SET_TEXT && present && ccl::semantic::IsBaseSet(m.GetRS(*target).type)) {
      const auto* old = m.Values().TextFor(*target);
      if (old != nullptr && old->size() == op.text.size()) {
        for (const auto& kv : op.text) if (!old->HasInterpretantFor(kv.first)) sameSize = true;
      }
    }

    bool accepted = false;
    switch (op.k) {
      case ADD_ELEM: accepted = m.Values().AddBasicElement(*target, op.name).has_value(); break;
      case SET_TEXT: {
        TextInterpretation t;
        const auto* old = present ? m.Values().TextFor(*target) : nullptr;
        for (const auto& [k, name] : op.text) t.SetInterpretantFor(k, name == "=" && old != nullptr && old->HasInterpretantFor(k) ? old->GetInterpretantFor(k) : name);
        accepted = m.Values().SetBasicText(*target, t);
        break;
      }
      case SET_STRUCT: accepted = m.Values().SetStructureData(*target, dvData(op.data)); break;
      case RESET_DATA: m.Values().ResetDataFor(*target); accepted = present && ccl::semantic::IsBaseNotion(m.GetRS(*target).type); break;
      case SET_EXPR: accepted = m.SetExpressionFor(*target, op.def); break;
      case ERASE: accepted = m.Erase(*target); break;
      case CALC: m.Calculations().Calculate(*target); accepted = present && ccl::semantic::IsCalculable(m.GetRS(*target).type); break;
      case RECALC: m.Calculations().RecalculateAll(); accepted = true; break;
      case EMPLACE: {
        const auto& n = op.created[0];
        const auto uid = m.Emplace(toType(n.kind), n.def);
        slotUid[static_cast<size_t>(n.slot)] = uid;
        if (m.GetRS(uid).alias != n.alias) c.count("harness:predicted-alias-differs");
        accepted = true;
        break;
      }
      case INSERT_COPY: case INSERT_COPY2: {
        std::vector<ConceptRecord> recs;
        for (const auto& n : op.created) { ConceptRecord rec; rec.uid = n.uid; rec.alias = n.alias; rec.type = toType(n.kind); rec.rs = n.def; recs.push_back(rec); }
        if (op.k == INSERT_COPY) slotUid[static_cast<size_t>(op.created[0].slot)] = m.InsertCopy(recs[0]);
        else { const auto ids = m.InsertCopy(recs); for (size_t j = 0; j < ids.size(); ++j) slotUid[static_cast<size_t>(op.created[j].slot)] = ids[j]; }
        for (const auto& n : op.created) if (m.GetRS(*slotUid[static_cast<size_t>(n.slot)]).alias != n.alias) c.count("harness:predicted-alias-differs");
        accepted = true;
        break;
      }
    }

    // labels: mutator kind x distance of the farthest dependant that held a calculated value
    if (accepted && maxDist > 0 && op.k != RECALC) {
      labels.insert(std::string(kOpName[op.k]) + ":dist" + (maxDist >= 3 ? "3+" : std::to_string(maxDist)));
      if (op.k != CALC) nontrivial = true;
      if (op.k == SET_TEXT && sameSize) labels.insert("same-size-text-replacement");
      if (op.k == SET_TEXT) labels.insert("SetBasicText/" + op.textMode);
      if (op.k == ERASE) labels.insert("erase-with-dependants");
    }
    if (!accepted) labels.insert(std::string("refused:") + kOpName[op.k]);
    if (!op.setup) c.count(std::string(accepted ? "accepted:" : "refused:") + kOpName[op.k] + (op.bogus ? "(unknown uid)" : ""));

    if (op.setup && i + 1 < nSetup) continue;  // nothing is calculated during the setup: one check at its end
    const auto viol = r.check(op.k == RECALC);
    if (viol.has_value()) {
      // known-finding classes: the dependant `viol->uid` of the edited constituent kept exactly the value it held before
      std::string key;
      const auto b = before.find(viol->uid);
      const Snap after = m.Contains(viol->uid) ? observe(m, viol->uid) : Snap{};
      const bool kept = accepted && deps.count(viol->uid) && b != before.end() && b->second.has && after.has && b->second.val == after.val
                        && (b->second.calc || m.GetRS(viol->uid).type == CstType::structured);
      if (kept && op.k == SET_EXPR) key = kKnownSetExpr;
      if (kept && op.k == SET_TEXT && sameSize) key = kKnownSameSize;
      if (kept && op.k == ERASE) key = kKnownErase;
      if (!key.empty() && pbt::known(key)) return pbt::excluded(key);
      return pbt::fail(viol->oracle, "after " + where + ": " + viol->msg + (key.empty() ? "" : " [class " + key + "]"));
    }
    // known finding: Erase does not reach the dependants, so a structure over the erased set keeps its data (possibly {}) while
    // its typification is gone; the next PruneStructure of it asserts.  {} is not a stale value, so this is no violation by
    // itself - the state is only recognised in order to continue the search behind the crash it leads to.
    if (op.k == ERASE && accepted && pbt::known(kKnownEraseUntyped)) {
      for (const auto& [u, d] : deps) {
        if (m.GetRS(u).type == CstType::structured && m.Values().SDataFor(u).has_value() && m.GetParse(u).Typification() == nullptr) return pbt::excluded(kKnownEraseUntyped);
      }
    }
  }
  c.nontrivial = nontrivial;
  for (const auto& l : labels) c.label(l);
  c.label("ops:" + std::to_string((g.ops.size() - nSetup) / 5 * 5));
  return pbt::pass();
}

Verdict propHistory(Ctx& c) { return runHistory(c, false); }
Verdict propIndexEdits(Ctx& c) { return runHistory(c, true); }

}  // namespace

int main(int argc, char** argv) {
  std::vector<pbt::Prop> props;
  props.push_back({"history", propHistory, 1300, 6000, false, false,
                   "histories of 4-30 operations on one RSModel, fresh-model recalculation after every operation; non-trivial = an accepted data/definition edit or erase while a transitive dependant holds a calculated value"});
  props.push_back({"index_edits", propIndexEdits, 500, 3000, false, false,
                   "the same histories over schemas rich in symmetric relations / pairs, where two thirds of the definition edits change nothing but a projection index (Pr1<->Pr2, pr1<->pr2)"});
  return pbt::main(argc, argv, "C11", props);
}
