// C16 - compact data encoding round-trips; decoding malformed tables is safe.
// Oracles: round trip (pack -> unpack == the model value), header == pre-order walk of the type, and for arbitrary
// tables the validity predicate "nothing, or a value that passes the deep structural check against the type".
#include "model/sdcompact_model.hpp"

using pbt::Ctx;
using pbt::Verdict;
using namespace rsv;
using cpt::Table;
using obj::SDCompact;
using obj::StructuredData;

namespace {

#define CHECK(cond, oracle, msg) do { if (!(cond)) return pbt::fail(oracle, msg); } while (0)

std::string join(const std::vector<std::string>& v) { std::string o; for (const auto& s : v) o += (o.empty() ? "" : ",") + s; return o; }

// pack -> unpack for one library value V denoting the model value v of type t
Verdict roundTrip(const StructuredData& V, const Value& v, const Type& t, const std::string& what) {
  const auto libType = toLib(t);
  const SDCompact packed = SDCompact::FromSData(V, libType);
  const auto wantHeader = header(t);
  CHECK(packed.header == wantHeader, "header", what + ": header " + join(packed.header) + " want " + join(wantHeader));
  CHECK(SDCompact::CreateHeader(libType) == wantHeader, "header", what + ": CreateHeader " + join(SDCompact::CreateHeader(libType)) + " want " + join(wantHeader));
  const auto back = SDCompact::Unpack(packed.data, libType);
  CHECK(back.has_value(), "roundtrip", what + ": table " + cpt::str(packed.data) + " does not unpack");
  ReadInfo info;
  const Value got = fromLib(*back, &info);
  CHECK(info.clean(), "roundtrip", what + ": unpacked value is not a proper set: " + info.where);
  CHECK(got == v, "roundtrip", what + ": table " + cpt::str(packed.data) + " unpacks to " + str(got) + " want " + str(v));
  CHECK(*back == V && V == *back, "roundtrip", what + ": unpacked value does not compare equal to the packed one");
  { const auto why = conforms(*back, t); CHECK(why.empty(), "roundtrip-type", what + ": " + why); }
  const auto viaMember = packed.Unpack(libType);
  CHECK(viaMember.has_value() && *viaMember == V, "roundtrip", what + ": SDCompact(...).Unpack(type) differs from the static Unpack");
  return pbt::pass();
}

void labelCase(Ctx& c, const Type& t, const Value& v) {
  c.label("type-depth:" + std::to_string(depth(t)));
  if (hasSetInsideTuple(v)) c.label("set-inside-tuple");
  if (hasInnerEmpty(v)) c.label("inner-empty-set");
  if (v.isSet() && v.items.empty()) c.label("top-empty-set");
  if (!containsSet(t)) c.label("no-set-in-type");
}

// ---------------------------------------------------------------------------------------------------- round trip
Verdict propRoundTrip(Ctx& c) {
  const Type t = genType(c, 4, 3);
  GenOpts o; o.specials = true; o.maxSet = 3; o.shapedPct = 10; o.emptyPct = 15;
  const Value v = genValue(c, t, o);
  BuildLog log;
  const Plan p = plan(c, v, Repr::MIXED, &log);
  c.show << "type=" << str(t) << " v=" << str(v) << " as " << str(p);
  c.nontrivial = hasSetInsideTuple(v) || hasInnerEmpty(v);
  labelCase(c, t, v);
  if (log.lazyNodes) c.label("repr:lazy");
  c.exec();
  const StructuredData V = realize(p);
  const Verdict r = roundTrip(V, v, t, "value");
  if (r.kind != Verdict::PASS) return r;
  // the harness's own encoder (generator of well-formed tables for the decode sub-property) is cross-checked here, as a counter only
  if (cpt::encode(v, t) != SDCompact::FromSData(V, toLib(t)).data) c.count("model-encoder-differs");
  return pbt::pass();
}

// ---------------------------------------------------------------------------------------------------- exhaustive
const std::vector<Type>& smallTypes(bool medium) {
  static const auto make = [](bool med) {
    const Type X = Type::base("X1"), BX = Type::set(X), XX = Type::tuple({X, X});
    std::vector<Type> ts;
    if (!med) {
      ts = {X, XX, BX, Type::set(XX), Type::set(BX), Type::tuple({X, BX}), Type::tuple({BX, X}), Type::tuple({BX, BX}),
            Type::set(Type::tuple({X, BX})), Type::set(Type::tuple({BX, X})), Type::set(Type::tuple({X, X, X})),
            Type::tuple({Type::tuple({X, BX}), Type::set(BX)}), Type::tuple({BX, Type::set(Type::tuple({X, BX}))}),
            Type::tuple({Type::set(Type::tuple({BX, X})), BX}), Type::tuple({BX, BX, BX}), Type::set(Type::tuple({Type::integer(), Type::base("C1")}))};
    } else {
      ts = {Type::set(Type::set(XX)), Type::set(Type::tuple({BX, BX})), Type::set(Type::set(BX)),
            Type::set(Type::tuple({X, Type::set(BX)})), Type::set(Type::tuple({Type::set(BX), X})), Type::set(Type::set(Type::tuple({X, BX})))};
    }
    return ts;
  };
  static const std::vector<Type> small = make(false), med = make(true);
  return medium ? med : small;
}

// enumerate a value of type t: integers from `universe`, a set = any subset of all candidate elements (one coin each)
Value enumValue(Ctx& c, const Type& t, const std::vector<int64_t>& universe) {
  if (t.isBasic()) return mkInt(universe[static_cast<size_t>(c.pick(0, static_cast<int64_t>(universe.size()) - 1))]);
  if (t.isTuple()) { std::vector<Value> comps; for (const auto& k : t.kids) comps.push_back(enumValue(c, k, universe)); return mkTuple(std::move(comps)); }
  auto cands = allValues(t.elem(), universe, 16);
  if (!cands) cands = allValues(t.elem(), {universe.front()}, 16);  // too many candidates: one-element universe below this set
  std::vector<Value> elems;
  if (cands) for (const auto& e : *cands) if (c.coin()) elems.push_back(e);
  return mkSet(std::move(elems));
}

Verdict enumRoundTrip(Ctx& c, bool medium) {
  const auto& types = smallTypes(medium);
  const Type& t = types[static_cast<size_t>(c.pick(0, static_cast<int64_t>(types.size()) - 1))];
  const Value v = enumValue(c, t, {1, 2});
  c.show << "type=" << str(t) << " v=" << str(v);
  c.nontrivial = hasSetInsideTuple(v) || hasInnerEmpty(v);
  labelCase(c, t, v);
  c.exec();
  const Verdict r = roundTrip(buildCanonical(v), v, t, "enumerated");
  if (r.kind != Verdict::PASS) return r;
  if (powersetBase(v) || productFactors(v)) {  // the same value as a lazy power set / product (construction without choices)
    pbt::TapeSrc none({});
    Ctx lc(none, nullptr);
    c.label("repr:lazy");
    return roundTrip(realize(plan(lc, v, Repr::LAZY)), v, t, "lazy");
  }
  return pbt::pass();
}
Verdict propEnumSmall(Ctx& c) { return enumRoundTrip(c, false); }
Verdict propEnumMedium(Ctx& c) { return enumRoundTrip(c, true); }

// ---------------------------------------------------------------------------------------------------- decode
int32_t genCell(Ctx& c) {
  const int k = c.ipick(0, 19);
  if (k < 12) return static_cast<int32_t>(c.pick(0, 4));
  static const std::vector<int64_t> sp{-1, cpt::kUnknownCount, cpt::kUnknownCount - 1, cpt::kUnknownCount + 1, INT32_MAX, INT32_MIN, -5, 5, 7, 100, 65536};
  if (k < 17) return static_cast<int32_t>(c.oneof(sp));
  return static_cast<int32_t>(c.pick(-3, 12));
}

// one random edit of a table; returns its description
std::string mutate(Ctx& c, Table& t) {
  const int kind = t.empty() ? 8 : c.ipick(0, 10);
  auto rowIdx = [&] { return static_cast<size_t>(c.pick(0, static_cast<int64_t>(t.size()) - 1)); };
  switch (kind) {
    case 0: case 1: {  // overwrite one cell
      const size_t r = rowIdx(); if (t[r].empty()) { t[r].push_back(genCell(c)); return "fill-empty-row"; }
      const size_t i = static_cast<size_t>(c.pick(0, static_cast<int64_t>(t[r].size()) - 1));
      t[r][i] = genCell(c); return "set(" + std::to_string(r) + "," + std::to_string(i) + ")";
    }
    case 2: {  // +-1
      const size_t r = rowIdx(); if (t[r].empty()) return "noop";
      const size_t i = static_cast<size_t>(c.pick(0, static_cast<int64_t>(t[r].size()) - 1));
      t[r][i] = static_cast<int32_t>(static_cast<int64_t>(t[r][i]) + (c.coin() ? 1 : -1)); return "step(" + std::to_string(r) + "," + std::to_string(i) + ")";
    }
    case 3: {  // delete a cell
      const size_t r = rowIdx(); if (t[r].empty()) return "noop";
      const size_t i = static_cast<size_t>(c.pick(0, static_cast<int64_t>(t[r].size()) - 1));
      t[r].erase(t[r].begin() + static_cast<long>(i)); return "del-cell(" + std::to_string(r) + "," + std::to_string(i) + ")";
    }
    case 4: {  // insert a cell
      const size_t r = rowIdx();
      const size_t i = static_cast<size_t>(c.pick(0, static_cast<int64_t>(t[r].size())));
      t[r].insert(t[r].begin() + static_cast<long>(i), genCell(c)); return "ins-cell(" + std::to_string(r) + "," + std::to_string(i) + ")";
    }
    case 5: { const size_t r = rowIdx(); t.erase(t.begin() + static_cast<long>(r)); return "del-row(" + std::to_string(r) + ")"; }
    case 6: { const size_t r = rowIdx(); t.insert(t.begin() + static_cast<long>(r), t[r]); return "dup-row(" + std::to_string(r) + ")"; }
    case 7: {  // truncate a row
      const size_t r = rowIdx();
      t[r].resize(static_cast<size_t>(c.pick(0, static_cast<int64_t>(t[r].size())))); return "truncate(" + std::to_string(r) + ")";
    }
    case 8: {  // append a row
      std::vector<int32_t> row; const int n = c.ipick(0, 5); for (int i = 0; i < n; ++i) row.push_back(genCell(c));
      t.push_back(row); return "append-row";
    }
    case 9: {  // swap two rows
      const size_t a = rowIdx(), b = rowIdx(); std::swap(t[a], t[b]); return "swap-rows";
    }
    default: {  // every count-looking cell of one column becomes the unknown-count marker
      const size_t col = static_cast<size_t>(c.pick(0, 3));
      for (auto& row : t) if (col < row.size() && row[col] > 0) row[col] = cpt::kUnknownCount;
      return "unknown-count-column(" + std::to_string(col) + ")";
    }
  }
}

Verdict propDecode(Ctx& c) {
  const Type t = genType(c, 3, 3);
  GenOpts o; o.maxSet = 3; o.shapedPct = 5; o.emptyPct = 15;
  // 0 random table, 1 one-field mutation of a valid table, 2 valid table of another type, 3 top-level count -> unknown marker, 4 several mutations
  const int mode = c.ipick(0, 4);
  static const char* modes[] = {"random", "one-mutation", "other-type", "unknown-count", "multi-mutation"};
  Table table;
  std::string how;
  if (mode == 0) {
    const int rows = c.chance(1, 12) ? 0 : c.ipick(1, 5);
    const int width = static_cast<int>(header(t).size()) + 2;
    for (int r = 0; r < rows; ++r) { std::vector<int32_t> row; const int n = c.ipick(0, width); for (int i = 0; i < n; ++i) row.push_back(genCell(c)); table.push_back(row); }
  } else if (mode == 2) {
    const Type other = c.coin() ? genType(c, 3, 3) : c.coin() ? Type::set(t) : (t.isSet() ? t.elem() : Type::tuple({t, t}));
    table = cpt::encode(genValue(c, other, o), other);
    how = "encoded as " + str(other);
  } else {
    const Value v = genValue(c, t, o);
    table = cpt::encode(v, t);
    how = "from " + str(v) + ":";
    if (mode == 3) {
      if (t.isSet()) { for (auto& row : table) if (!row.empty() && row[0] > 0) row[0] = cpt::kUnknownCount; }
      else how += " " + mutate(c, table);
    } else {
      const int n = mode == 1 ? 1 : c.ipick(2, 3);
      for (int i = 0; i < n; ++i) how += " " + mutate(c, table);
    }
  }
  c.show << modes[mode] << " type=" << str(t) << " table=" << cpt::str(table) << " " << how;
  c.label(std::string("mode:") + modes[mode]);
  c.label("type-depth:" + std::to_string(depth(t)));
  c.exec();
  const auto r = cpt::decodeOracle(table, t, toLib(t));
  if (r.failed()) return pbt::fail(r.oracle, r.msg);
  c.label(r.decoded ? "decoded" : "rejected");
  c.label(std::string(modes[mode]) + (r.decoded ? ":decoded" : ":rejected"));
  c.nontrivial = mode == 1 || mode == 3 || (r.decoded && containsSet(t));
  return pbt::pass();
}

}  // namespace

int main(int argc, char** argv) {
  std::vector<pbt::Prop> props;
  props.push_back({"exhaustive_small", propEnumSmall, 0, 0, true, false, "16 types of depth <=3 over X1 (one Z*C1), every value over {1,2}: round trip, eager and lazy"});
  props.push_back({"exhaustive_medium", propEnumMedium, 0, 0, true, true, "6 types with up to 65536 values each over {1,2}: round trip"});
  props.push_back({"roundtrip", propRoundTrip, 7000, 100000, false, false, "random (type, value, construction): Unpack(FromSData(v,t).data, t) == v, header"});
  props.push_back({"decode_arbitrary", propDecode, 14000, 150000, false, false, "random / mutated / mistyped tables against a type: nullopt or a deeply type-conforming value"});
  return pbt::main(argc, argv, "C16", props);
}
