// C06 - the parser builds the grammar's tree; node ranges delimit their source text.
// Oracle: generated abstract syntax (M1) rendered by my own printer with my own precedence table; the parsed
// tree must equal the generated one, every node range must be one of the spans the printer recorded for it.
#include "model/rsast.hpp"

#include "ccl/rslang/Parser.h"

using pbt::Ctx;
using pbt::Verdict;
using namespace rs;
namespace rl = ccl::rslang;

namespace {

#define CHECK(cond, oracle, msg) do { if (!(cond)) return pbt::fail(oracle, msg); } while (0)

int countOps(const Expr& e) { int n = (isSetexprBinary(e.id) || isLogicBin(e.id) || e.id == TID::NOT || e.id == TID::FORALL || e.id == TID::EXISTS || isPredicateOp(e.id)) ? 1 : 0; for (auto& k : e.kids) n += countOps(*k); return n; }

void labelPairs(Ctx& c, const Expr& e) {
  if (isSetexprBinary(e.id) || isLogicBin(e.id)) {
    for (size_t i = 0; i < e.kids.size(); ++i) {
      const Expr& k = *e.kids[i];
      if (isSetexprBinary(k.id) || isLogicBin(k.id)) c.label(std::string("pair:") + kindName(e.id) + (i == 0 ? "<" : ">") + kindName(k.id));
    }
  }
  for (auto& k : e.kids) labelPairs(c, *k);
}

// parallel walk: library node range must be the model's core span or one of its own parenthesis layers
std::string checkSpans(const Expr& e, rl::SyntaxTree::Cursor cur, const std::string& path) {
  const auto pos = cur->pos;
  bool ok = pos.start == e.s0 && pos.finish == e.s1;
  for (auto& l : e.layers) ok = ok || (pos.start == l.first && pos.finish == l.second);
  if (!ok) {
    std::string want = "[" + std::to_string(e.s0) + "," + std::to_string(e.s1) + ")";
    for (auto& l : e.layers) want += " or [" + std::to_string(l.first) + "," + std::to_string(l.second) + ")";
    return "node " + path + " (" + kindName(e.id) + ") has range [" + std::to_string(pos.start) + "," + std::to_string(pos.finish) + ") want " + want;
  }
  for (size_t i = 0; i < e.kids.size(); ++i) {
    const auto r = checkSpans(*e.kids[i], cur.Child(static_cast<rl::Index>(i)), path + "." + std::to_string(i));
    if (!r.empty()) return r;
  }
  return "";
}

bool containsRange(const ccl::StrRange& outer, const ccl::StrRange& r) { return outer.start <= r.start && r.finish <= outer.finish; }

Verdict parseProp(Ctx& c, Syn syn) {
  SynGen g(c);
  g.greek = syn == Syn::MATH;
  const int depth = c.ipick(1, 4);
  EP e = g.expression(depth);
  PrintOpts po; po.syn = syn; po.rnd = &c;
  const int style = c.ipick(0, 3);
  if (style >= 1) po.redundantParens = 25;
  if (style >= 2) po.whitespace = 25;
  if (style == 3) po.newlines = true;
  po.shortDeclarative = true;
  Printer pr(po);
  pr.print(*e);
  const std::string text = pr.out;
  const std::string want = sexpr(e);
  c.show << (syn == Syn::MATH ? "MATH " : "ASCII ") << text;
  const int ops = countOps(*e);
  c.nontrivial = ops >= 3 && (pr.multibyteTokens > 0 || pr.layersAdded > 0 || pr.newlinesAdded > 0);
  c.label(std::string("layers:") + (pr.layersAdded > 2 ? "3+" : std::to_string(pr.layersAdded)));
  if (pr.newlinesAdded) c.label("has-newline");
  if (pr.multibyteTokens) c.label("has-multibyte");
  c.label(std::string("root:") + kindName(e->id));
  labelPairs(c, *e);
  c.exec();

  rl::Parser parser;
  const bool ok = parser.Parse(text, syn == Syn::MATH ? rl::Syntax::MATH : rl::Syntax::ASCII);
  if (!ok) {
    std::string errs;
    for (auto& er : parser.Errors().All()) errs += " eid=" + std::to_string(er.eid) + "@" + std::to_string(er.position);
    return pbt::fail("valid-rejected", "grammatical text rejected:" + errs);
  }
  const std::string got = sexprLib(parser.AST());
  CHECK(got == want, "tree-mismatch", "parsed " + got + " want " + want);
  const auto spanErr = checkSpans(*e, parser.AST().Root(), "root");
  CHECK(spanErr.empty(), "node-range", spanErr);

  // FindMinimalNode for random cursor ranges: result present iff root contains; result contains the range; no child does
  const int total = pr.cp;
  for (int i = 0; i < 4; ++i) {
    const int st = c.ipick(0, std::max(0, total - 1));
    const int len = c.ipick(1, 3);
    const ccl::StrRange r{st, std::min(total, st + len)};
    if (r.start >= r.finish) continue;
    const auto root = parser.AST().Root();
    const auto res = rl::FindMinimalNode(root, r);
    CHECK(res.has_value() == containsRange(root->pos, r), "find-minimal", "presence for range [" + std::to_string(r.start) + "," + std::to_string(r.finish) + ")");
    if (res.has_value()) {
      auto cur = *res;
      CHECK(containsRange(cur->pos, r), "find-minimal", "returned node does not contain [" + std::to_string(r.start) + "," + std::to_string(r.finish) + ")");
      for (rl::Index k = 0; k < cur.ChildrenCount(); ++k)
        CHECK(!containsRange(cur(k).pos, r), "find-minimal", "a child of the returned node still contains [" + std::to_string(r.start) + "," + std::to_string(r.finish) + ")");
    }
  }
  return pbt::pass();
}

Verdict propMath(Ctx& c) { return parseProp(c, Syn::MATH); }
Verdict propAscii(Ctx& c) { return parseProp(c, Syn::ASCII); }

// pairwise table: every binary operator as parent of every binary operator as left and as right child, with and
// without parentheses, both syntaxes; exhaustive over the (parent, side, child, parenthesised) space
Verdict propPairs(Ctx& c) {
  static const std::vector<TID> sops = {TID::PLUS, TID::MINUS, TID::MULTIPLY, TID::UNION, TID::INTERSECTION, TID::SET_MINUS, TID::SYMMINUS, TID::DECART};
  static const std::vector<TID> lops = {TID::EQUIVALENT, TID::IMPLICATION, TID::OR, TID::AND};
  const bool logic = c.coin();
  const auto& ops = logic ? lops : sops;
  const TID parent = c.oneof(ops), kid = c.oneof(ops);
  const bool right = c.coin();
  const Syn syn = c.coin() ? Syn::ASCII : Syn::MATH;
  auto leaf = [&](const char* n) { return logic ? mk(TID::EQUAL, {mkName(TID::ID_LOCAL, n), mkName(TID::ID_LOCAL, n)}) : mkName(TID::ID_LOCAL, n); };
  EP inner = mk(kid, {leaf("a"), leaf("b")});
  EP e = right ? mk(parent, {leaf("c"), inner}) : mk(parent, {inner, leaf("c")});
  PrintOpts po; po.syn = syn;
  Printer pr(po); pr.print(*e);
  c.show << (syn == Syn::MATH ? "MATH " : "ASCII ") << pr.out;
  c.nontrivial = true;
  c.label(std::string("pair:") + kindName(parent) + (right ? ">" : "<") + kindName(kid));
  c.exec();
  rl::Parser parser;
  CHECK(parser.Parse(pr.out, syn == Syn::MATH ? rl::Syntax::MATH : rl::Syntax::ASCII), "valid-rejected", "pair text rejected");
  const auto got = sexprLib(parser.AST());
  CHECK(got == sexpr(e), "tree-mismatch", "parsed " + got + " want " + sexpr(e));
  // and the unparenthesised rendering groups by precedence/associativity as my table says
  const std::string flat = std::string("a") + (syn == Syn::MATH ? "" : " ") + tokText(right ? parent : kid, syn) + (syn == Syn::MATH ? "" : " ") + "b" + (syn == Syn::MATH ? "" : " ") +
                           tokText(right ? kid : parent, syn) + (syn == Syn::MATH ? "" : " ") + "c";
  if (!logic) {
    // a OP1 b OP2 c : groups as (a OP1 b) OP2 c unless prec(OP2) > prec(OP1)
    const TID op1 = right ? parent : kid, op2 = right ? kid : parent;
    EP l = mkName(TID::ID_LOCAL, "a"), m = mkName(TID::ID_LOCAL, "b"), r = mkName(TID::ID_LOCAL, "c");
    EP expect;
    if (prec(op2) > prec(op1)) expect = mk(op1, {l, mk(op2, {m, r})});
    else if (op1 == TID::DECART && op2 == TID::DECART) expect = mk(TID::DECART, {l, m, r});
    else expect = mk(op2, {mk(op1, {l, m}), r});
    rl::Parser p2;
    CHECK(p2.Parse(flat, syn == Syn::MATH ? rl::Syntax::MATH : rl::Syntax::ASCII), "valid-rejected", "flat text rejected: " + flat);
    CHECK(sexprLib(p2.AST()) == sexpr(expect), "precedence", flat + " parsed " + sexprLib(p2.AST()) + " want " + sexpr(expect));
  }
  return pbt::pass();
}

}  // namespace

int main(int argc, char** argv) {
  std::vector<pbt::Prop> props;
  props.push_back({"pairs", propPairs, 0, 0, true, false, "every (parent, side, child) pair of binary operators in both syntaxes"});
  props.push_back({"parse_math", propMath, 6000, 100000, false, false, "random grammatical trees rendered to MATH with optional parentheses / whitespace / newlines"});
  props.push_back({"parse_ascii", propAscii, 4000, 60000, false, false, "the same in ASCII syntax"});
  return pbt::main(argc, argv, "C06", props);
}
