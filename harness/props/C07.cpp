// C07 - incremental schema re-analysis equals analysis from scratch after any edits.
// Oracle (differential against the library's own batch path): after every operation of a generated history, a schema
// freshly built from the same content (records in list order through Load + UpdateState, and independently through
// FromJSON(ToJSON())) must report the same status, typification, arguments, value class, syntax tree and dependency
// edges for every constituent, and - when term references are acyclic - the same resolved term and definition text.
#include "model/schemahist.hpp"

#include "ccl/rslang/SyntaxTree.h"

using pbt::Ctx;
using pbt::Verdict;
using namespace sh;

#define CHECK(cond, oracle, msg) do { if (!(cond)) return pbt::fail(oracle, msg); } while (0)

namespace {

Verdict historyProp(Ctx& c) {
  GenOpts o; o.maxOps = 12;
  const uint64_t idSeed = static_cast<uint64_t>(c.pick(1, 1000000));
  const auto ops = genHistory(c, o);
  for (size_t i = 0; i < ops.size(); ++i) c.show << (i ? "; " : "") << showOp(ops[i]);
  c.exec();
  Executor ex(idSeed);
  bool hadMentionEditThenRename = false, hadCycle = false, mentionEdit = false;
  int maxDepth = 0;
  for (const auto& op : ops) {
    const Applied a = ex.apply(op);
    if (a.skipped) continue;
    const std::string name = showOp(op);
    const RSForm& inc = ex.form;
    // (1) from scratch: records in list order through Load + UpdateState
    RSForm fresh;
    for (auto uid : inc.List()) fresh.Load(inc.Core().AsRecord(uid));
    fresh.UpdateState();
    const bool acyclicTerms = !inc.Texts().TermGraph().HasLoop();
    { const Verdict v = compareWith(inc, fresh, "Load+UpdateState", name, acyclicTerms); if (v.kind != Verdict::PASS) return v; }
    // (2) from scratch through the JSON document
    { auto reloaded = ccl::api::RSFormJA::FromJSON(toJson(inc)); const Verdict v = compareWith(inc, reloaded.data(), "FromJSON(ToJSON)", name, acyclicTerms); if (v.kind != Verdict::PASS) return v; }
    // classes
    if (op.kind == Op::SET_EXPR || op.kind == Op::EMPLACE) mentionEdit = true;
    if (mentionEdit && (op.kind == Op::SET_ALIAS || op.kind == Op::ERASE || op.kind == Op::RESET_ALIASES)) {
      // a rename / erase of a name while some constituent depends on something: look for a dependant of depth >= 1
      for (auto uid : inc.List()) if (!inc.RSLang().Graph().InputsFor(uid).empty()) hadMentionEditThenRename = true;
    }
    if (inc.RSLang().Graph().HasLoop()) hadCycle = true;
    for (auto uid : inc.List()) { int d = 0; auto cur = inc.RSLang().Graph().InputsFor(uid); std::set<EntityUID> seen; while (!cur.empty() && d < 6) { ++d; ccl::SetOfEntities nx; for (auto u : cur) if (seen.insert(u).second) for (auto w : inc.RSLang().Graph().InputsFor(u)) nx.insert(w); cur = nx; } maxDepth = std::max(maxDepth, d); }
    c.label(std::string("op:") + opName(op.kind));
  }
  c.nontrivial = hadMentionEditThenRename || hadCycle;
  if (hadCycle) c.label("has-cycle");
  if (hadMentionEditThenRename) c.label("rename-or-erase-with-dependants");
  c.label("max-dependency-depth:" + std::to_string(std::min(maxDepth, 4)));
  return pbt::pass();
}

// ---- text histories: acyclic term references by construction, then incremental text edits -------------------------
// Constituent i may reference only constituents j < i in its TERM (so resolution is well defined); text definitions
// reference anything.  Edits: SetTermFor / SetTermFormFor / SetDefinitionFor / SetAliasFor / Erase / Emplace.
Verdict textHistoryProp(Ctx& c) {
  const uint64_t idSeed = static_cast<uint64_t>(c.pick(1, 1000000));
  const int n = c.ipick(2, 6);
  static const char* forms[] = {"nomn,sing", "datv,plur", "gent,sing", "ablt,plur"};
  auto refTo = [&](int j) { return "@{X" + std::to_string(j + 1) + "|" + forms[c.ipick(0, 3)] + "}"; };
  auto termText = [&](int i) -> std::string {  // references only to lower indices
    const int w = c.ipick(0, 4);
    if (i == 0 || w == 0) return std::string("word") + std::to_string(c.ipick(1, 9));
    if (w == 1) return "big " + refTo(c.ipick(0, i - 1));
    if (w == 2) return refTo(c.ipick(0, i - 1)) + " of " + refTo(c.ipick(0, i - 1));
    if (w == 3) return refTo(c.ipick(0, i - 1)) + " @{-1|small}";
    return "";
  };
  auto defText = [&]() -> std::string { const int w = c.ipick(0, 3); if (w == 0) return ""; if (w == 1) return "owner of " + refTo(c.ipick(0, n - 1)); if (w == 2) return refTo(c.ipick(0, n - 1)) + " and " + refTo(c.ipick(0, n)); return "plain"; };
  struct TOp { int kind, target, aux; std::string text; };
  std::vector<std::string> terms, defs;
  for (int i = 0; i < n; ++i) { terms.push_back(termText(i)); defs.push_back(defText()); }
  std::vector<TOp> ops;
  const int nOps = c.ipick(1, 10);
  for (int i = 0; i < nOps; ++i) {
    TOp op; op.kind = c.ipick(0, 9); op.target = c.ipick(0, n - 1); op.aux = c.ipick(0, 3);
    if (op.kind <= 3) op.text = termText(op.target);                 // SetTermFor (keeps the acyclic discipline)
    else if (op.kind <= 5) op.text = std::string("form") + std::to_string(c.ipick(1, 5));  // SetTermFormFor
    else if (op.kind <= 7) op.text = defText();                      // SetDefinitionFor
    ops.push_back(op);
  }
  c.show << "terms:"; for (int i = 0; i < n; ++i) c.show << " X" << i + 1 << "='" << terms[static_cast<size_t>(i)] << "'/'" << defs[static_cast<size_t>(i)] << "'";
  c.show << " ops:";
  static const char* names[] = {"SetTerm", "SetTerm", "SetTerm", "SetTerm", "SetForm", "SetForm", "SetText", "SetText", "Rename", "Erase"};
  for (auto& op : ops) c.show << " " << names[op.kind] << "(X" << op.target + 1 << ",'" << op.text << "')";
  c.exec();
  Executor ex(idSeed);
  std::vector<EntityUID> uids;
  for (int i = 0; i < n; ++i) uids.push_back(ex.form.Emplace(CstType::base));
  for (int i = 0; i < n; ++i) { ex.form.SetTermFor(uids[static_cast<size_t>(i)], terms[static_cast<size_t>(i)]); ex.form.SetDefinitionFor(uids[static_cast<size_t>(i)], defs[static_cast<size_t>(i)]); }
  bool chainEdit = false;
  for (const auto& op : ops) {
    const auto uid = uids[static_cast<size_t>(op.target)];
    if (!ex.form.Contains(uid)) continue;
    // a term edit while some other term depends on it transitively and some definition text depends on that one
    if (op.kind <= 5) { const auto dependants = ex.form.Texts().TermGraph().ExpandOutputs({uid}); if (dependants.size() > 1) { const auto defDeps = ex.form.Texts().DefGraph().ExpandOutputs(dependants); if (defDeps.size() > dependants.size()) chainEdit = true; } }
    std::string name = names[op.kind];
    if (op.kind <= 3) ex.form.SetTermFor(uid, op.text);
    else if (op.kind <= 5) ex.form.SetTermFormFor(uid, op.text, ccl::lang::Morphology(std::string_view(forms[op.aux])));
    else if (op.kind <= 7) ex.form.SetDefinitionFor(uid, op.text);
    else if (op.kind == 8) ex.form.SetAliasFor(uid, "X" + std::to_string(20 + op.aux), true);
    else ex.form.Erase(uid);
    const RSForm& inc = ex.form;
    RSForm fresh;
    for (auto u : inc.List()) fresh.Load(inc.Core().AsRecord(u));
    fresh.UpdateState();
    const bool acyclicTerms = !inc.Texts().TermGraph().HasLoop();
    if (!acyclicTerms) c.count("cyclic-terms");
    const Verdict v = compareWith(inc, fresh, "Load+UpdateState", name + "(X" + std::to_string(op.target + 1) + ")", acyclicTerms);
    if (v.kind != Verdict::PASS) return v;
    c.label(std::string("text-op:") + names[op.kind]);
  }
  c.nontrivial = chainEdit;
  if (chainEdit) c.label("term-edit-with-term-and-definition-dependants");
  return pbt::pass();
}

// ---- definition histories: a chain of verified terms, then formal-definition edits that may mention ANY member ------
// The general generator draws definitions from a fixed pool and closes a dependency cycle of length >= 2 over verified
// constituents only by accident; here every edit picks its mentions among the live members (lower, own, higher), so
// closing, re-opening and renaming inside cycles is the common case.
Verdict definitionHistoryProp(Ctx& c) {
  const uint64_t idSeed = static_cast<uint64_t>(c.pick(1, 1000000));
  const int n = c.ipick(2, 6);
  auto member = [&](int lo, int hi) { return "D" + std::to_string(c.ipick(lo, hi)); };
  auto expr = [&](int lo, int hi) -> std::string {  // over D<lo>..D<hi>; hi < lo: no member available
    if (hi < lo) return c.coin() ? "X1" : "X1\\X1";
    switch (c.ipick(0, 8)) {
      case 0: return member(lo, hi);
      case 1: return member(lo, hi) + U8_UNION + member(lo, hi);
      case 2: return member(lo, hi) + "\\X1";
      case 3: return "X1" U8_UNION + member(lo, hi);
      case 4: return "D{a" U8_IN "X1|a" U8_IN + member(lo, hi) + "}";
      case 5: return U8_BOOL "(" + member(lo, hi) + ")";   // raises the type: dependants may become ill-typed
      case 6: return "red(" + member(lo, hi) + ")";         // lowers it
      case 7: return "X1";
      default: return member(lo, hi) + U8_UNION;            // syntax error
    }
  };
  std::vector<std::string> defs;
  for (int i = 1; i <= n; ++i) defs.push_back(expr(1, i - 1));
  struct DOp { int kind, target; std::string text; bool flag; };
  std::vector<DOp> ops;
  const int nOps = c.ipick(1, 8);
  for (int i = 0; i < nOps; ++i) {
    DOp op; op.kind = c.ipick(0, 9); op.target = c.ipick(1, n); op.flag = c.coin();
    if (op.kind <= 5) op.text = c.chance(2, 3) ? expr(op.target + (op.target < n ? 1 : 0), n) : expr(1, n);  // mostly a HIGHER member: closes a cycle
    else if (op.kind == 6) op.text = "D" + std::to_string(c.ipick(1, n + 2));                               // rename (possibly onto a live alias: refused)
    else if (op.kind == 7) op.text = expr(1, n);                                                            // Emplace of a new term
    ops.push_back(op);
  }
  c.show << "defs:"; for (int i = 0; i < n; ++i) c.show << " D" << i + 1 << ":=" << defs[static_cast<size_t>(i)];
  c.show << " ops:";
  static const char* names[] = {"SetExpression", "SetExpression", "SetExpression", "SetExpression", "SetExpression", "SetExpression", "Rename", "Emplace", "Erase", "ResetAliases"};
  for (auto& op : ops) c.show << " " << names[op.kind] << "(D" << op.target << ",'" << op.text << "'" << (op.flag ? ",subst" : "") << ")";
  c.exec();
  Executor ex(idSeed);
  ex.form.Emplace(CstType::base);
  std::vector<EntityUID> uids;
  for (int i = 0; i < n; ++i) uids.push_back(ex.form.Emplace(CstType::term, defs[static_cast<size_t>(i)]));
  bool closedCycle = false;
  for (const auto& op : ops) {
    const auto uid = uids[static_cast<size_t>(op.target - 1)];
    if (!ex.form.Contains(uid) && op.kind != 7 && op.kind != 9) continue;
    const bool loopBefore = ex.form.RSLang().Graph().HasLoop();
    int verifiedBefore = 0; for (auto u : ex.form.List()) if (ex.form.GetParse(u).status == ccl::semantic::ParsingStatus::VERIFIED) ++verifiedBefore;
    if (op.kind <= 5) ex.form.SetExpressionFor(uid, op.text);
    else if (op.kind == 6) ex.form.SetAliasFor(uid, op.text, op.flag);
    else if (op.kind == 7) ex.form.Emplace(CstType::term, op.text);
    else if (op.kind == 8) ex.form.Erase(uid);
    else ex.form.ResetAliases();
    const RSForm& inc = ex.form;
    if (op.kind <= 5 && !loopBefore && inc.RSLang().Graph().HasLoop() && verifiedBefore >= 3) closedCycle = true;
    RSForm fresh;
    for (auto u : inc.List()) fresh.Load(inc.Core().AsRecord(u));
    fresh.UpdateState();
    const Verdict v = compareWith(inc, fresh, "Load+UpdateState", std::string(names[op.kind]) + "(D" + std::to_string(op.target) + ")", !inc.Texts().TermGraph().HasLoop());
    if (v.kind != Verdict::PASS) return v;
    c.label(std::string("def-op:") + names[op.kind]);
    if (inc.RSLang().Graph().HasLoop()) c.label("def-state:cyclic");
  }
  c.nontrivial = closedCycle;
  if (closedCycle) c.label("definition-edit-closes-cycle-over-verified-members");
  return pbt::pass();
}

}  // namespace

int main(int argc, char** argv) {
  std::vector<pbt::Prop> props;
  props.push_back({"text_history", textHistoryProp, 1500, 25000, false, false, "acyclic term-reference chains, incremental text edits vs from-scratch resolution"});
  props.push_back({"definition_history", definitionHistoryProp, 1500, 20000, false, false, "chains of verified terms; definition edits mentioning any member (closing / re-opening cycles), renames, erasures vs from-scratch analysis"});
  props.push_back({"history", historyProp, 1000, 20000, false, false, "random editing histories; incremental state vs two from-scratch rebuilds after every operation"});
  return pbt::main(argc, argv, "C07", props);
}
