// C18 - reused analysers are history-independent.
// One typed context and a sequence of 3-30 inputs (valid, near-miss mutants, function definitions, global declarations,
// purely syntactic trees, texts that do not parse, multi-line text, failing evaluations; MATH and ASCII).  Every input is
// fed, in sequence order, to ONE long-lived Parser / Auditor / Interpreter / SchemaAuditor (and through the static
// generators); the same inputs are fed in a rotated order to a second set of long-lived objects; and each input is
// fed to freshly constructed objects.  Everything observable must be byte-for-byte what the fresh object reports.
#include "model/libenv.hpp"
#include "model/rsmutate.hpp"

#include "ccl/rslang/Literals.h"
#include "ccl/rslang/Parser.h"
#include "ccl/rslang/RSGenerator.h"
#include "ccl/semantic/SchemaAuditor.h"

#include <memory>
#include <optional>

using pbt::Ctx;
using pbt::Verdict;
using namespace rs;
namespace sem = ccl::semantic;

namespace {

// ------------------------------------------------------------------------------------------------ small helpers
// like Ctx::chance, but the all-zero tape (what the shrinker aims for) means "no"
bool rare(Ctx& c, int num, int den) { return c.pick(0, den - 1) >= den - num; }
std::string esc(const std::string& s) {
  std::string o;
  for (char ch : s) { if (ch == '\n') o += "\\n"; else if (ch == '\t') o += "\\t"; else o += ch; }
  return o;
}
std::string clip(const std::string& s, size_t n = 240) { return s.size() <= n ? s : s.substr(0, n) + "...(" + std::to_string(s.size()) + " bytes)"; }
std::vector<size_t> cpStarts(const std::string& s) {
  std::vector<size_t> v;
  for (size_t i = 0; i < s.size(); ++i) if ((static_cast<unsigned char>(s[i]) & 0xC0) != 0x80) v.push_back(i);
  v.push_back(s.size());
  return v;
}
const char* synName(rl::Syntax s) { return s == rl::Syntax::MATH ? "MATH" : s == rl::Syntax::ASCII ? "ASCII" : "UNDEF"; }
const char* vcName(rl::ValueClass v) { return v == rl::ValueClass::value ? "value" : v == rl::ValueClass::props ? "props" : "invalid"; }

std::string errList(const rl::ErrorLogger& log) {
  std::string o;
  for (const auto& e : log.All()) {
    char b[40]; snprintf(b, sizeof b, "%04X@%d", e.eid, e.position); o += b;
    if (!e.params.empty()) { o += '['; for (size_t i = 0; i < e.params.size(); ++i) { if (i) o += '|'; o += e.params[i]; } o += ']'; }
    o += ';';
  }
  return o;
}
std::string typeStr(const rl::ExpressionType& t) { return std::holds_alternative<rl::LogicT>(t) ? std::string("LOGIC") : std::get<rl::Typification>(t).ToString(); }
std::string argsStr(const rl::FunctionArguments& a) {
  std::string o = std::to_string(a.size()) + ":";
  for (const auto& x : a) o += x.name + ":" + x.type.ToString() + ",";
  return o;
}
// tree with node positions and payloads, read through the public Cursor API
void treeDump(rl::SyntaxTree::Cursor c, std::string& o) {
  const auto& t = *c;
  o += '('; o += std::to_string(static_cast<int>(t.id)); o += '@'; o += std::to_string(t.pos.start); o += '-'; o += std::to_string(t.pos.finish);
  if (t.data.IsText()) { o += ' '; o += t.data.ToText(); }
  else if (t.data.IsInt()) { o += ' '; o += std::to_string(t.data.ToInt()); }
  else if (t.data.IsTuple()) { o += " <"; for (auto i : t.data.ToTuple()) { o += std::to_string(i); o += ','; } o += '>'; }
  for (rl::Index i = 0; i < c.ChildrenCount(); ++i) treeDump(c.Child(i), o);
  o += ')';
}
std::string treeDump(const rl::SyntaxTree& t) { std::string o; treeDump(t.Root(), o); return o; }
std::string tokenDump(rl::TokenStream ts) {
  std::string o;
  for (int i = 0; i < 600; ++i) {
    const auto t = ts();
    o += std::to_string(static_cast<int>(t.id)) + "@" + std::to_string(t.pos.start) + "-" + std::to_string(t.pos.finish) + " ";
    if (t.id == rl::TokenID::END || t.id == rl::TokenID::INTERRUPT) break;
  }
  return o;
}
bool withinBudget(const ob::StructuredData& d, long& budget) {
  if (--budget < 0) return false;
  if (d.IsElement()) return true;
  if (d.IsTuple()) { for (rl::Index i = 1; i <= d.T().Arity(); ++i) if (!withinBudget(d.T().Component(i), budget)) return false; return true; }
  if (d.B().Cardinality() > budget) return false;
  for (const auto& e : d.B()) if (!withinBudget(e, budget)) return false;
  return true;
}

// ------------------------------------------------------------------------------------------------ inputs
enum Kind { VALID = 0, MUTANT, FUNCDEF, GLOBALDECL, SYNTACTIC, UNPARSABLE, EVALFAIL, N_KINDS };
const char* kKind[] = {"valid", "mutant", "funcdef", "globaldecl", "syntactic", "unparsable", "evalfail"};
enum SchemaMode { EXPR_ONLY = 0, CST_ONLY, BOTH };

struct Input {
  Kind kind = VALID;
  std::string note;            // mutation operator etc.
  std::string text;
  rl::Syntax hint = rl::Syntax::MATH;
  bool ascii = false, multiline = false;
  int ctxVariant = 0;          // 0: D9 is part of the context, 1: D9 is absent
  bool lexFirst = false;       // drain Parser::Lex before Parse (all passes)
  bool abandonLex = false;     // long-lived parsers only: start lexing this text and abandon the stream before the call
  int convertOrder = 0;        // which of the six orders of the three conversion targets
  bool convert = false;        // also run ConvertTo in both directions (fresh parser + static generator inside the library)
  bool extract = false;        // steal the tree after a successful parse (Parser / SchemaAuditor), like Schema does
  bool evalOK = false;         // cheap enough for the interpreter (decided during the fresh pass, see decideEval)
  EP tree;                     // the tree the text was printed from
  bool faithful = true;        // false when the text was corrupted after printing
  SchemaMode smode = EXPR_ONLY;
  std::string alias, definition; sem::CstType cst = sem::CstType::term;
  std::string litText, litExpected;  // "B(X1*X2)"_t and the spelling of the type it denotes
};

EP genPlain(TypedGen& g, Ctx& c, int maxDepth = 3) {
  g.scope.clear(); g.everUsed.clear();
  const int rootKind = c.ipick(0, 9);
  const Ty target = rootKind < 4 ? Ty::Logic() : rootKind < 8 ? Ty::Set(g.randType(2)) : g.randType(2);
  const int depth = c.ipick(1, maxDepth);
  return target.k == Ty::LOGIC ? g.genLogic(depth) : g.genTerm(target, depth);
}
EP genFuncDef(TypedGen& g, Ctx& c) {  // [a∈X1, b∈ℬ(R1)] body
  g.scope.clear(); g.everUsed.clear();
  std::vector<EP> decl;
  const int na = c.ipick(1, 3);
  static const std::vector<std::string> names = {"a", "b", "x", "s", "\xCE\xB1"};
  for (int i = 0; i < na; ++i) {
    const int w = c.ipick(0, 4);
    Ty t = w == 0 ? Ty::Base("R1") : w == 1 ? Ty::Set(Ty::Base("R1")) : w == 2 ? Ty::Set(Ty::Base("R2")) : g.randType(2);
    const std::string n = names[static_cast<size_t>(i) + (na < 3 && rare(c, 1, 4) ? 2 : 0)] + (rare(c, 1, 5) ? "1" : "");
    bool dup = false; for (auto& l : g.scope) dup |= l.name == n;
    const std::string nn = dup ? n + "2" : n;
    g.scope.push_back({nn, t}); g.everUsed.insert(nn);
    decl.push_back(mk(TID::NT_ARG_DECL, {mkName(TID::ID_LOCAL, nn), domainExpr(t)}));
  }
  EP body = c.coin() ? g.genLogic(c.ipick(1, 2)) : g.genTerm(c.coin() ? g.scope[0].type : g.randType(2), c.ipick(1, 2));
  return mk(TID::NT_FUNC_DEFINITION, {mk(TID::NT_ARGUMENTS, decl), body});
}
EP genEvalFail(TypedGen& g, Ctx& c) {
  g.scope.clear(); g.everUsed.clear();
  EP core;
  const int w = c.ipick(0, 3);
  if (w == 0) core = mk(TID::DEBOOL, {mk(TID::SET_MINUS, {mkName(TID::ID_GLOBAL, "X1"), mkName(TID::ID_GLOBAL, "X1")})});
  else if (w == 1) {
    std::vector<const Global*> cand; for (auto& gl : g.G.globals) if (gl.type.isSet() && gl.value.items.size() != 1 && gl.name != "D9") cand.push_back(&gl);
    core = cand.empty() ? mk(TID::DEBOOL, {mk(TID::SET_MINUS, {mkName(TID::ID_GLOBAL, "X1"), mkName(TID::ID_GLOBAL, "X1")})}) : mk(TID::DEBOOL, {mkName(TID::ID_GLOBAL, c.oneof(cand)->name)});
  } else if (w == 2) core = mk(TID::CARD, {mk(TID::LIT_INTSET)});
  else core = mk(c.coin() ? TID::PLUS : TID::MULTIPLY, {mkInt(2147483647), mkInt(c.pick(2, 9))});
  switch (c.ipick(0, 4)) {
    case 0: return core;
    case 1: return mk(TID::EQUAL, {core, clone(core)});
    case 2: return mk(TID::NT_ENUMERATION, {core});
    case 3: return mk(TID::AND, {g.genLogic(1), mk(TID::EQUAL, {core, clone(core)})});
    default: return mk(TID::BOOL, {core});
  }
}

std::string makeUnparsable(Ctx& c, const std::string& base, bool ascii, std::string& note) {
  const auto cps = cpStarts(base);
  const int n = static_cast<int>(cps.size()) - 1;
  if (c.coin()) {
    const int k = c.ipick(0, std::max(0, n - 1));
    note = "truncate@" + std::to_string(k);
    return base.substr(0, cps[static_cast<size_t>(k)]);
  }
  static const std::vector<std::string> mathTok = {")", "(", "]", "}", "\xE2\x88\x80", "\xE2\x88\x88", "&", ":==", ",", "|", "@", "$", "99999999999", "pr0", "\xD0\x81", ";", "\xE2\x88\x85\xE2\x88\x85"};
  static const std::vector<std::string> asciiTok = {")", "(", "]", "}", "\\A", "\\in", "\\and", "\\defexpr", ",", "|", "@", "\\xyz", "99999999999", "pr0", ";", "?"};
  const std::string tok = ascii ? c.oneof(asciiTok) : c.oneof(mathTok);
  const int p = c.ipick(0, n);
  note = "splice '" + tok + "'@" + std::to_string(p);
  return base.substr(0, cps[static_cast<size_t>(p)]) + " " + tok + " " + base.substr(cps[static_cast<size_t>(p)]);
}

// literal typification in the forms upstream uses ("B(X1*X1)", "BB(X1)", "X1*B(X1)", "R1*R2")
void genLiteralType(Ctx& c, int depth, std::string& text, Ty& ty, bool allowTuple = true) {
  const int w = depth <= 0 ? 0 : c.ipick(0, allowTuple ? 3 : 2);
  if (w == 0) { static const std::vector<std::string> bases = {"X1", "X2", "C1", "Z", "R1", "R2"}; const auto b = c.oneof(bases); text = b; ty = Ty::Base(b); return; }
  if (w <= 2) { std::string in; Ty it; genLiteralType(c, depth - 1, in, it, true); text = "B(" + in + ")"; ty = Ty::Set(it); return; }
  std::vector<Ty> cs; const int n = c.ipick(2, 3);
  for (int i = 0; i < n; ++i) { std::string in; Ty it; genLiteralType(c, depth - 1, in, it, false); text += (i ? "*" : "") + in; cs.push_back(it); }
  ty = Ty::Tuple(cs);
}

// Cost filter for the interpreter (not an oracle).  An input that the type checker rejects costs nothing to "evaluate".  An accepted
// input is evaluated only if the reference evaluator of model/rstyped.hpp gets through its tree within a small step budget: the
// library needs about 0.1 ms per element operation under the sanitizers, and a symmetric difference of two ℬ(X1×X1) takes 12 s.
bool modelCheap(const Gamma& G, const EP& tree) {
  // shapes the interpreter refuses without evaluating anything (function definitions, structure / function declarations)
  if (tree->id == TID::NT_FUNC_DEFINITION || tree->id == TID::PUNC_STRUCT) return true;
  if (tree->id == TID::PUNC_DEFINE) return tree->kids.size() < 2 || tree->kids[0]->id != TID::ID_GLOBAL || modelCheap(G, tree->kids[1]);
  try { Evaluator ev(G); ev.budget = 1500; (void)ev.eval(tree); return true; }
  catch (const std::exception&) { return false; }
}

// ------------------------------------------------------------------------------------------------ library environment
struct Env {
  LibEnv lib;
  std::set<std::string> props;
  std::optional<rl::ExpressionType> d9type; std::optional<ob::StructuredData> d9data;
  Env(const Gamma& G, bool lazy) : lib(G, lazy) {
    for (auto& g : G.globals) if (g.construction == 1) props.insert(g.name);
    if (auto it = lib.types.find("D9"); it != lib.types.end()) d9type = it->second;
    if (auto it = lib.data.find("D9"); it != lib.data.end()) d9data = it->second;
  }
  Env(const Env&) = delete;
  // alternative bodies of the term functions (same signature and result type): bit 1 of the variant selects them, so
  // that the CONTEXT changes between two inputs while the long-lived analysers stay the same objects
  std::map<std::string, rl::SyntaxTree> mainAsts, altAsts;
  void addAlternative(const FuncDef& f, const EP& altBody) {
    std::vector<EP> decl;
    for (auto& a : f.args) decl.push_back(mk(TID::NT_ARG_DECL, {mkName(TID::ID_LOCAL, a.first), domainExpr(a.second)}));
    EP def = mk(TID::PUNC_DEFINE, {mkName(f.result.k == Ty::LOGIC ? TID::ID_PREDICATE : TID::ID_FUNCTION, f.name), mk(TID::NT_FUNC_DEFINITION, {mk(TID::NT_ARGUMENTS, decl), altBody})});
    rl::Parser p;
    if (!p.Parse(render(def), rl::Syntax::MATH)) return;
    if (auto it = lib.asts.find(f.name); it != lib.asts.end()) { mainAsts.emplace(f.name, it->second); altAsts.emplace(f.name, p.AST()); }
  }
  void setVariant(int v) {
    for (auto& [name, tree] : (v & 2) ? altAsts : mainAsts) lib.asts.insert_or_assign(name, tree);
    if (!d9type.has_value()) return;
    if ((v & 1) == 0) { lib.types.insert_or_assign("D9", *d9type); if (d9data) lib.data.insert_or_assign("D9", *d9data); }
    else { lib.types.erase("D9"); lib.data.erase("D9"); }
  }
  rl::ValueClassContext vc() const {
    return [this](const std::string& n) { return !lib.types.count(n) ? rl::ValueClass::invalid : props.count(n) ? rl::ValueClass::props : rl::ValueClass::value; };
  }
};

struct Objs {
  rl::Parser parser;
  rl::Auditor auditor;
  rl::Interpreter interp;
  sem::SchemaAuditor schema;
  explicit Objs(const Env& e)
    : auditor(e.lib, e.vc(), e.lib.astContext()), interp(e.lib, e.lib.astContext(), e.lib.dataContext()), schema(e.lib, e.vc(), e.lib.astContext()) {}
};

// ------------------------------------------------------------------------------------------------ observation of one call
struct Field { std::string name, value; bool demanded; };
struct Rec {
  std::vector<Field> f;
  std::optional<rl::ExpressionValue> value;
  bool parseOK = false, typeOK = false, funcDef = false, evaluated = false, evalOK = false, cstEarlyReturn = false;
  void add(std::string n, std::string v, bool demanded = true) { f.push_back({std::move(n), std::move(v), demanded}); }
};

std::string flagsOf(const sem::SchemaAuditor& s) { return std::string(s.IsParsed() ? "P" : "-") + (s.IsTypeCorrect() ? "T" : "-") + (s.IsValueCorrect() ? "V" : "-"); }

void observeSchemaSuccess(Rec& r, const std::string& p, sem::SchemaAuditor& s, bool extract) {
  r.add(p + "type", typeStr(s.GetType()));
  r.add(p + "args", argsStr(s.GetDeclarationArgs()));
  const bool vok = s.CheckValue();
  r.add(p + "value.verdict", vok ? "1" : "0");
  if (vok) r.add(p + "valueclass", vcName(s.GetValueClass()));
  r.add(p + "flags+value", flagsOf(s));
  r.add(p + "errors+value", errList(s.Errors()));
  r.add(p + "tree", treeDump(s.AST()));
  r.add(p + "ast2string", rl::AST2String::Apply(s.AST()));
  if (extract) { auto t = s.ExtractAST(); r.add(p + "extracted", t ? rl::AST2String::Apply(*t) : std::string("<null>")); }
}

Rec observe(Objs& o, sem::SchemaAuditor& schemaForCst, Input& in, Env& env, const Gamma* decideWith = nullptr) {
  Rec r;
  env.setVariant(in.ctxVariant);
  const std::string& text = in.text;

  // ---- Parser + static generators
  {
    if (in.lexFirst) r.add("parser.tokens", tokenDump(o.parser.Lex(text, in.hint)));
    const bool ok = o.parser.Parse(text, in.hint);
    r.parseOK = ok;
    r.add("parser.verdict", ok ? "1" : "0");
    r.add("parser.syntax", synName(o.parser.syntax));
    r.add("parser.errors", errList(o.parser.Errors()));
    if (ok) {
      const auto& ast = o.parser.AST();
      r.add("parser.tree", treeDump(ast));
      r.add("generator.ast2string", rl::AST2String::Apply(ast));
      r.add("generator.fromtree.math", rl::Generator::FromTree(ast, rl::Syntax::MATH));
      r.add("generator.fromtree.ascii", rl::Generator::FromTree(ast, rl::Syntax::ASCII));
      if (in.extract) { auto t = o.parser.ExtractAST(); r.add("parser.extracted", t ? treeDump(*t) : std::string("<null>")); }
    }
    if (in.convert) {
      // the three targets in one of the six orders: the first request of an input follows the last request of the PREVIOUS input,
      // which differs between the two orders in which the sequence is replayed.  UNDEF is a legal target value: whatever it
      // means, it means the same every time
      static const int orders[6][3] = {{0, 1, 2}, {0, 2, 1}, {1, 0, 2}, {1, 2, 0}, {2, 0, 1}, {2, 1, 0}};
      static const rl::Syntax targets[3] = {rl::Syntax::MATH, rl::Syntax::ASCII, rl::Syntax::UNDEF};
      static const char* names[3] = {"generator.convert.math", "generator.convert.ascii", "generator.convert.undef"};
      std::string out[3];
      for (int k : orders[in.convertOrder % 6]) out[k] = rl::ConvertTo(text, targets[k]);
      for (int k = 0; k < 3; ++k) r.add(names[k], out[k]);
    }
  }
  // ---- Auditor
  {
    const bool ok = o.auditor.CheckType(text, in.hint);
    r.typeOK = ok;
    r.add("auditor.verdict", ok ? "1" : "0");
    r.add("auditor.flags", std::string(o.auditor.isParsed ? "P" : "-") + (o.auditor.isTypeCorrect ? "T" : "-") + (o.auditor.isValueCorrect ? "V" : "-"));
    r.add("auditor.errors", errList(o.auditor.Errors()));
    if (ok) {
      const auto& t = o.auditor.GetType();
      r.add("auditor.type", typeStr(t));
      r.add("auditor.args", argsStr(o.auditor.GetDeclarationArgs()));
      r.funcDef = !o.auditor.GetDeclarationArgs().empty();
      if (std::holds_alternative<rl::Typification>(t)) {
        std::string s;
        for (const auto& [expr, ty] : rl::Generator::StructureFor("S1", std::get<rl::Typification>(t))) s += expr + ":" + ty.ToString() + ";";
        r.add("generator.structure", s);
      }
    } else {
      // not demanded by the statement (only "when the call succeeds"): counted when they differ
      r.add("auditor.type-after-failure", typeStr(o.auditor.GetType()), false);
      r.add("auditor.args-after-failure", argsStr(o.auditor.GetDeclarationArgs()), false);
    }
    const bool vok = o.auditor.CheckValue();
    r.add("auditor.value.verdict", vok ? "1" : "0");
    r.add("auditor.valueclass", vcName(o.auditor.GetValueClass()));
    r.add("auditor.flags+value", std::string(o.auditor.isParsed ? "P" : "-") + (o.auditor.isTypeCorrect ? "T" : "-") + (o.auditor.isValueCorrect ? "V" : "-"));
    r.add("auditor.errors+value", errList(o.auditor.Errors()));
  }
  // ---- Interpreter
  if (decideWith != nullptr) in.evalOK = in.text.size() <= 600 && (!r.typeOK || (in.faithful && modelCheap(*decideWith, in.tree)));
  if (in.evalOK) {
    r.evaluated = true;
    const auto res = o.interp.Evaluate(text, in.hint);
    r.evalOK = res.has_value();
    r.add("interpreter.verdict", res.has_value() ? "1" : "0");
    r.add("interpreter.errors", errList(o.interp.Errors()));
    if (res.has_value()) {
      if (std::holds_alternative<bool>(*res)) { r.add("interpreter.value", std::get<bool>(*res) ? "true" : "false"); r.value = res; }
      else {
        const auto& d = std::get<ob::StructuredData>(*res);
        long budget = 20000;
        if (withinBudget(d, budget)) { r.add("interpreter.value", d.ToString()); r.value = res; }
        else r.add("interpreter.value", "<large>", false);
      }
      r.add("interpreter.iterations", std::to_string(o.interp.Iterations()));
      r.add("interpreter.normalized", rl::AST2String::Apply(o.interp.NormalizedParseTree()));
    } else {
      r.add("interpreter.iterations-after-failure", std::to_string(o.interp.Iterations()), false);
    }
  }
  // ---- SchemaAuditor (protocol of Schema::ParseCst / RSFormJA: CheckValue and the result accessors only after success)
  if (in.smode != CST_ONLY) {
    auto& s = o.schema;
    const bool ok = s.CheckExpression(text, in.hint);
    r.add("schema.expr.verdict", ok ? "1" : "0");
    r.add("schema.expr.flags", flagsOf(s));
    r.add("schema.expr.syntax", synName(s.GetSyntax()));
    r.add("schema.expr.errors", errList(s.Errors()));
    if (ok) observeSchemaSuccess(r, "schema.expr.", s, in.extract);
  }
  if (in.smode != EXPR_ONLY) {
    auto& s = schemaForCst;
    const bool ok = s.CheckConstituenta(in.alias, in.definition, in.cst);
    r.cstEarlyReturn = sem::IsBaseSet(in.cst) != in.definition.empty();
    r.add("schema.cst.verdict", ok ? "1" : "0");
    r.add("schema.cst.prefixLen", std::to_string(s.prefixLen));
    r.add("schema.cst.errors", errList(s.Errors()));
    r.add("schema.cst.flags", flagsOf(s));
    r.add("schema.cst.syntax", synName(s.GetSyntax()));
    if (ok) observeSchemaSuccess(r, "schema.cst.", s, in.extract);
  }
  // ---- shared static analyser behind the _t literal
  if (!in.litText.empty()) r.add("literal_t.type", rl::operator""_t(in.litText.c_str(), in.litText.size()).ToString());
  return r;
}

struct Diff { std::string field, longVal, freshVal; bool demanded; };
std::vector<Diff> diffRecs(const Rec& l, const Rec& f) {
  std::vector<Diff> out;
  const size_t m = std::min(l.f.size(), f.f.size());
  bool aligned = true;
  for (size_t k = 0; k < m; ++k) {
    if (l.f[k].name != f.f[k].name) { out.push_back({f.f[k].name + ".presence", "reports " + l.f[k].name, "reports " + f.f[k].name, true}); aligned = false; break; }
    if (l.f[k].value != f.f[k].value) out.push_back({f.f[k].name, l.f[k].value, f.f[k].value, f.f[k].demanded});
  }
  if (aligned && l.f.size() != f.f.size()) out.push_back({"fields.count", std::to_string(l.f.size()), std::to_string(f.f.size()), true});
  if (l.value.has_value() && f.value.has_value() && !(*l.value == *f.value)) out.push_back({"interpreter.value.eq", "operator== says the values differ", "", true});
  return out;
}

std::string classOf(const Rec& fresh, const Input& in) {
  if (!fresh.parseOK) return "parse-error";
  if (!fresh.typeOK) return "type-error";
  if (fresh.funcDef) return "funcdef";  // (the interpreter refuses a bare function definition: also a failing evaluation)
  if (fresh.evaluated && !fresh.evalOK) return "eval-error";
  if (in.multiline) return "multiline";
  return "plain";
}

// ------------------------------------------------------------------------------------------------ the property
Verdict historyWith(Ctx& c, bool contextEdits) {
  TypedGen g(c);
  g.makeContext();
  // context_history: every term function gets a second body; inputs call the functions often and the body in force changes between inputs
  std::vector<std::pair<std::string, EP>> altBodies;
  if (contextEdits) {
    const auto allFuncs = g.G.funcs;
    for (size_t i = 0; i < allFuncs.size(); ++i) {
      const FuncDef& f = allFuncs[i];
      g.G.funcs.assign(allFuncs.begin(), allFuncs.begin() + static_cast<long>(i));  // a body may call only functions defined before it (no recursion)
      g.scope.clear(); g.everUsed.clear();
      for (auto& a : f.args) { g.scope.push_back({a.first, a.second}); g.everUsed.insert(a.first); }
      altBodies.emplace_back(f.name, f.result.k == Ty::LOGIC ? g.genLogic(1) : g.genTerm(f.result, 1));  // shallow: the body is evaluated by every call of every input in three passes
      g.scope.clear(); g.everUsed.clear();
    }
    g.G.funcs = allFuncs;
  }
  if (c.coin()) { Global a; a.name = "A1"; a.type = Ty::Logic(); g.G.globals.push_back(a); }
  { Global d; d.name = "D9"; d.type = g.randType(2); d.value = g.randValue(d.type, 3); g.G.globals.push_back(d); }  // the global that comes and goes
  const bool lazy = c.coin();

  const int n = rare(c, 1, 4) ? c.ipick(3, 30) : c.ipick(3, 12);
  std::vector<Input> ins;
  for (int i = 0; i < n; ++i) {
    Input in;
    const int kw = c.ipick(0, 99);
    in.kind = kw < 22 ? VALID : kw < 40 ? MUTANT : kw < 54 ? FUNCDEF : kw < 64 ? GLOBALDECL : kw < 74 ? SYNTACTIC : kw < 88 ? UNPARSABLE : EVALFAIL;
    in.ascii = rare(c, 1, 4);
    const bool wantMultiline = rare(c, 1, 3);
    EP tree;
    std::string alias; EP definitionTree;
    switch (in.kind) {
      case VALID:
        if (contextEdits && !g.G.funcs.empty() && c.chance(2, 3)) {  // a call, often under card(): the value class of the body matters
          g.scope.clear(); g.everUsed.clear();
          const auto& f = c.oneof(g.G.funcs);
          // arguments of property class (power sets) make the value audit descend into the body of the function
          std::map<std::string, Ty> inst;
          for (const char* r : {"R1", "R2"}) inst[r] = c.coin() ? Ty::Set(g.randType(1)) : g.randType(1);
          std::vector<EP> ks{mkName(f.result.k == Ty::LOGIC ? TID::ID_PREDICATE : TID::ID_FUNCTION, f.name)};
          for (auto& a : f.args) {
            const Ty t = a.second.subst(inst);
            ks.push_back(t.isSet() && t.elem().isSet() && c.chance(2, 3) ? mk(TID::BOOLEAN, {g.genTerm(t.elem(), 1)}) : g.genTerm(t, 1));
          }
          tree = mk(TID::NT_FUNC_CALL, ks);
          if (f.result.isSet() && c.coin()) tree = mk(TID::GREATER_OR_EQ, {mk(TID::CARD, {tree}), mkInt(0)});
        } else tree = genPlain(g, c);
        break;
      case MUTANT: {
        tree = genPlain(g, c);
        std::string op; tree = mutate(c, tree, g.G, op); in.note = op;
        if (rare(c, 1, 4)) { std::string op2; tree = mutate(c, tree, g.G, op2); if (!op2.empty()) in.note += "+" + op2; }
        break;
      }
      case FUNCDEF: tree = genFuncDef(g, c); if (rare(c, 1, 4)) { std::string op; tree = mutate(c, tree, g.G, op); in.note = op; } break;
      case GLOBALDECL: {
        const int w = c.ipick(0, 5);
        if (w <= 1) { alias = "D99"; definitionTree = genPlain(g, c); tree = mk(TID::PUNC_DEFINE, {mkName(TID::ID_GLOBAL, alias), definitionTree}); }
        else if (w == 2) { alias = "S99"; definitionTree = domainExpr(Ty::Set(g.randType(2))); tree = mk(TID::PUNC_STRUCT, {mkName(TID::ID_GLOBAL, alias), definitionTree}); }
        else if (w == 3) { alias = "F9"; definitionTree = genFuncDef(g, c); tree = mk(TID::PUNC_DEFINE, {mkName(TID::ID_FUNCTION, alias), definitionTree}); }
        else if (w == 4) { alias = "A9"; g.scope.clear(); g.everUsed.clear(); definitionTree = g.genLogic(c.ipick(1, 2)); tree = mk(TID::PUNC_DEFINE, {mkName(TID::ID_GLOBAL, alias), definitionTree}); }
        else { alias = "X9"; tree = mk(TID::PUNC_DEFINE, {mkName(TID::ID_GLOBAL, alias)}); }
        break;
      }
      case SYNTACTIC: { SynGen sg(c); sg.greek = !in.ascii; tree = sg.expression(c.ipick(1, 3)); break; }
      case UNPARSABLE: tree = rare(c, 1, 4) ? genFuncDef(g, c) : genPlain(g, c); break;
      case EVALFAIL: tree = genEvalFail(g, c); break;
      default: break;
    }
    PrintOpts po; po.syn = in.ascii ? Syn::ASCII : Syn::MATH;
    if (wantMultiline) { po.rnd = &c; po.whitespace = 25; po.newlines = true; po.redundantParens = 15; po.shortDeclarative = true; }
    in.text = render(tree, po);
    in.tree = tree;
    if (in.kind == UNPARSABLE) { in.text = makeUnparsable(c, in.text, in.ascii, in.note); in.faithful = false; }
    in.multiline = in.text.find('\n') != std::string::npos;
    const int hw = c.ipick(0, 19);
    in.hint = hw == 19 ? (in.ascii ? rl::Syntax::MATH : rl::Syntax::ASCII) : hw >= 17 ? rl::Syntax::UNDEF : (in.ascii ? rl::Syntax::ASCII : rl::Syntax::MATH);
    in.ctxVariant = contextEdits ? c.ipick(0, 3) : (rare(c, 1, 5) ? 1 : 0);
    in.lexFirst = rare(c, 1, 3);
    in.abandonLex = rare(c, 1, 8);
    in.extract = rare(c, 1, 3);
    in.convert = rare(c, 1, 3);
    if (contextEdits) in.convertOrder = c.ipick(0, 5);
    in.smode = static_cast<SchemaMode>(c.ipick(0, 2));
    if (in.smode != EXPR_ONLY) {
      static const std::vector<std::pair<const char*, sem::CstType>> heads = {{"D99", sem::CstType::term}, {"F9", sem::CstType::function}, {"P9", sem::CstType::predicate}, {"S99", sem::CstType::structured},
                                                                               {"A9", sem::CstType::axiom}, {"T9", sem::CstType::theorem}, {"X9", sem::CstType::base}, {"C9", sem::CstType::constant}};
      if (in.kind == GLOBALDECL && !in.ascii) {
        in.alias = alias;
        in.definition = definitionTree ? render(definitionTree, po) : std::string();
        for (auto& h : heads) if (alias == h.first) in.cst = h.second;
        if (rare(c, 1, 4)) in.cst = c.oneof(heads).second;
      } else {
        const auto& h = c.oneof(heads);
        in.alias = h.first; in.cst = rare(c, 1, 3) ? c.oneof(heads).second : h.second;
        in.definition = rare(c, 1, 8) ? std::string() : in.text;
      }
    }
    if (rare(c, 1, 4)) { Ty t; genLiteralType(c, 2, in.litText, t); in.litExpected = t.str(); }
    ins.push_back(std::move(in));
  }
  // second order: a rotation of the sequence, optionally reversed
  const int rot = c.ipick(1, n - 1);
  const bool reversed = rare(c, 1, 3);
  std::vector<int> orderB;
  for (int k = 0; k < n; ++k) orderB.push_back((k + rot) % n);
  if (reversed) std::reverse(orderB.begin(), orderB.end());

  c.show << showGamma(g.G) << (lazy ? " [lazy data]" : "") << "\n";
  for (int i = 0; i < n; ++i) {
    const auto& in = ins[static_cast<size_t>(i)];
    c.show << "  #" << i << " " << kKind[in.kind] << (in.note.empty() ? "" : "(" + in.note + ")") << (in.multiline ? " multiline" : "") << " hint=" << synName(in.hint)
           << ((in.ctxVariant & 1) ? " ctx=without-D9" : "") << ((in.ctxVariant & 2) ? " ctx=alternative-function-bodies" : "") << (in.lexFirst ? " lex" : "") << (in.abandonLex ? " abandon-lex" : "") << (in.extract ? " extract" : "") << (in.convert ? " convert" : "");
    if (in.smode != EXPR_ONLY) c.show << " cst=(" << in.alias << "," << static_cast<int>(in.cst) << (in.definition == in.text ? "" : in.definition.empty() ? ",<empty>" : ",'" + esc(in.definition) + "'") << ")" << (in.smode == CST_ONLY ? " cst-only" : "");
    if (!in.litText.empty()) c.show << " lit=" << in.litText;
    c.show << " : '" << esc(in.text) << "'\n";
  }
  c.show << "  second order: rotate " << rot << (reversed ? " reversed" : "");
  c.exec();

  Env env(g.G, lazy);
  if (!env.lib.buildError.empty()) return pbt::discard("function-text");
  for (auto& [name, body] : altBodies) if (const FuncDef* f = g.G.func(name)) env.addAlternative(*f, body);

  std::vector<Rec> ra(static_cast<size_t>(n)), rb(static_cast<size_t>(n)), rf(static_cast<size_t>(n));
  // fresh objects first: this pass also decides which inputs the interpreter sees
  for (int i = 0; i < n; ++i) {
    Objs o(env);
    sem::SchemaAuditor cstAuditor(env.lib, env.vc(), env.lib.astContext());
    rf[static_cast<size_t>(i)] = observe(o, cstAuditor, ins[static_cast<size_t>(i)], env, &g.G);
  }
  auto runLong = [&](const std::vector<int>& order, std::vector<Rec>& out) {
    Objs o(env);
    for (int idx : order) {
      auto& in = ins[static_cast<size_t>(idx)];
      if (in.abandonLex) { auto ts = o.parser.Lex(in.text, in.hint); (void)ts(); }
      out[static_cast<size_t>(idx)] = observe(o, o.schema, in, env);
    }
  };
  std::vector<int> orderA; for (int k = 0; k < n; ++k) orderA.push_back(k);
  runLong(orderA, ra);
  runLong(orderB, rb);

  // ---- oracle: long-lived == fresh, call by call, in both orders
  for (int pass = 0; pass < 2; ++pass) {
    const auto& order = pass == 0 ? orderA : orderB;
    const auto& rl_ = pass == 0 ? ra : rb;
    for (size_t pos = 0; pos < order.size(); ++pos) {
      const size_t i = static_cast<size_t>(order[pos]);
      for (const auto& d : diffRecs(rl_[i], rf[i])) {
        if (!d.demanded) { c.count("unconstrained:" + d.field); continue; }
        // known finding: CheckConstituenta returns early (base set with a definition / derived constituent without one) before any
        // per-call state is reset, so the verdict accessors and GetSyntax still describe the previous call
        if ((d.field == "schema.cst.flags" || d.field == "schema.cst.syntax") && rf[i].cstEarlyReturn && pbt::known("schema-cst-early-return-stale-state")) { c.count("known-skipped:schema-cst-early-return-stale-state"); continue; }
        const std::string pred = pos == 0 ? std::string("<first call>") : "'" + esc(ins[static_cast<size_t>(order[pos - 1])].text) + "'";
        return pbt::fail(d.field, std::string(pass == 0 ? "sequence order" : "rotated order") + ", input #" + std::to_string(i) + " '" + clip(esc(ins[i].text)) + "' after " + clip(pred) +
                                      ": long-lived object gives <" + clip(esc(d.longVal)) + ">, fresh object gives <" + clip(esc(d.freshVal)) + ">");
      }
    }
  }
  for (size_t i = 0; i < rf.size(); ++i) {
    if (ins[i].litText.empty()) continue;
    for (const auto& fld : rf[i].f) if (fld.name == "literal_t.type" && fld.value != ins[i].litExpected)
      return pbt::fail("literal_t.model", "\"" + ins[i].litText + "\"_t gives " + fld.value + ", the text denotes " + ins[i].litExpected);
  }

  // ---- classes
  std::vector<std::string> cls;
  for (size_t i = 0; i < rf.size(); ++i) { cls.push_back(classOf(rf[i], ins[i])); c.label(std::string("kind:") + kKind[ins[i].kind]); c.label("outcome:" + cls.back()); }
  for (int pass = 0; pass < 2; ++pass) {
    const auto& order = pass == 0 ? orderA : orderB;
    for (size_t pos = 1; pos < order.size(); ++pos) {
      const size_t p = static_cast<size_t>(order[pos - 1]), q = static_cast<size_t>(order[pos]);
      c.label("pair:" + cls[p] + ">" + cls[q]);
      if (ins[p].multiline) { c.nontrivial = true; c.label("pred-multiline(" + cls[p] + ")>" + cls[q]); }
      if (cls[p] == "plain") continue;
      c.nontrivial = true;
      c.label("obj:parser:after-" + cls[p]);
      c.label("obj:auditor:after-" + cls[p]);
      if (rf[q].parseOK) c.label("obj:generators:after-" + cls[p]);
      if (rf[q].evaluated) c.label("obj:interpreter:after-" + cls[p]);
      if (ins[q].smode != CST_ONLY) c.label("obj:schema-expr:after-" + cls[p]);
      if (ins[q].smode != EXPR_ONLY) c.label("obj:schema-cst:after-" + cls[p]);
    }
  }
  for (size_t i = 0; i < rf.size(); ++i) {
    if (!ins[i].evalOK) c.count("interpreter-skipped-cost");
    if (ins[i].ctxVariant & 1) c.label("ctx:without-D9");
    if (ins[i].ctxVariant & 2) c.label("ctx:alternative-function-bodies");
    if (!ins[i].litText.empty()) c.label("obj:literal_t");
  }
  return pbt::pass();
}

Verdict historyProp(Ctx& c) { return historyWith(c, false); }
Verdict contextHistoryProp(Ctx& c) { return historyWith(c, true); }

}  // namespace

int main(int argc, char** argv) {
  std::vector<pbt::Prop> props;
  props.push_back({"history", historyProp, 1200, 5000, false, false,
                   "sequences of 3-30 inputs over one typed context; long-lived objects in sequence order and in a rotated order vs fresh objects per call"});
  props.push_back({"context_history", contextHistoryProp, 600, 4000, false, false,
                   "the same with a context that changes between inputs (a global comes and goes, every term function switches between two bodies) and inputs that mostly call those functions"});
  return pbt::main(argc, argv, "C18", props);
}
