// Adaptor: builds the library-side contexts (TypeContext, DataContext, SyntaxTreeContext, ValueClassContext) from a
// model context (rs::Gamma), and converts values / types between the model and the library.
#pragma once

#include "model/rstyped.hpp"

#include "ccl/rslang/Interpreter.h"
#include "ccl/rslang/Auditor.h"
#include "ccl/rslang/StructuredData.h"

namespace rs {
namespace rl = ccl::rslang;
namespace ob = ccl::object;

inline rl::Typification toLibType(const Ty& t) {
  switch (t.k) {
    case Ty::BASE: return rl::Typification(t.base);
    case Ty::TUPLE: { std::vector<rl::Typification> cs; for (auto& c : t.comps) cs.push_back(toLibType(c)); return rl::Typification::Tuple(cs); }
    default: return toLibType(t.elem()).Bool();
  }
}
inline rl::ExpressionType toLibExprType(const Ty& t) { if (t.k == Ty::LOGIC) return rl::LogicT{}; return toLibType(t); }

inline ob::StructuredData toLibData(const Val& v) {
  switch (v.k) {
    case Val::INT: return ob::Factory::Val(static_cast<ob::DataID>(v.i));
    case Val::TUPLE: { std::vector<ob::StructuredData> cs; for (auto& c : v.items) cs.push_back(toLibData(c)); return ob::Factory::Tuple(cs); }
    default: { std::vector<ob::StructuredData> es; for (auto& e : v.items) es.push_back(toLibData(e)); return ob::Factory::Set(es); }
  }
}
// read a library value back by structure and iteration only (internal order irrelevant)
inline Val fromLibData(const ob::StructuredData& d, long* budget = nullptr) {
  if (budget && --*budget < 0) throw Budget();
  if (d.IsElement()) return Val::Int(d.E().Value());
  if (d.IsTuple()) { std::vector<Val> cs; for (rl::Index i = 1; i <= d.T().Arity(); ++i) cs.push_back(fromLibData(d.T().Component(i), budget)); Val t; t.k = Val::TUPLE; t.items = cs; return t; }
  std::vector<Val> es; for (const auto& e : d.B()) es.push_back(fromLibData(e, budget));
  const size_t n = es.size();
  Val s = Val::Set(es);
  if (s.items.size() != n) throw std::runtime_error("library set iterates a duplicate element");
  return s;
}

struct LibEnv final : rl::TypeContext {
  std::map<std::string, rl::ExpressionType> types;
  std::map<std::string, rl::FunctionArguments> fargs;
  std::map<std::string, rl::TypeTraits> traits;
  std::map<std::string, ob::StructuredData> data;
  std::map<std::string, rl::SyntaxTree> asts;
  std::set<std::string> propsGlobals;
  std::string buildError;

  // lazy: construct globals marked construction=1/2 through Factory::Boolean / Factory::Decartian
  LibEnv(const Gamma& G, bool lazy) {
    for (auto& g : G.globals) {
      types.emplace(g.name, toLibExprType(g.type));
      if (g.props) propsGlobals.insert(g.name);
      if (g.isBase) traits.emplace(g.name, g.integral ? rl::TraitsIntegral : rl::TraitsNominal);
      if (lazy && g.construction == 1) data.emplace(g.name, ob::Factory::Boolean(data.at(g.lazyParts[0])));
      else if (lazy && g.construction == 2) data.emplace(g.name, ob::Factory::Decartian({data.at(g.lazyParts[0]), data.at(g.lazyParts[1])}));
      else data.emplace(g.name, toLibData(g.value));
    }
    for (auto& f : G.funcs) {
      types.emplace(f.name, toLibExprType(f.result));
      rl::FunctionArguments args;
      for (auto& a : f.args) args.emplace_back(a.first, toLibType(a.second));
      fargs.emplace(f.name, args);
      // the tree the interpreter inlines: parsed from the global declaration text
      std::vector<EP> decl;
      for (auto& a : f.args) decl.push_back(mk(TID::NT_ARG_DECL, {mkName(TID::ID_LOCAL, a.first), domainExpr(a.second)}));
      EP def = mk(TID::PUNC_DEFINE, {mkName(f.result.k == Ty::LOGIC ? TID::ID_PREDICATE : TID::ID_FUNCTION, f.name), mk(TID::NT_FUNC_DEFINITION, {mk(TID::NT_ARGUMENTS, decl), f.body})});
      rl::Parser p;
      const std::string text = render(def);
      if (!p.Parse(text, rl::Syntax::MATH)) { buildError = "function text does not parse: " + text; continue; }
      asts.emplace(f.name, p.AST());
    }
  }

  const rl::ExpressionType* TypeFor(const std::string& n) const override { auto it = types.find(n); return it == types.end() ? nullptr : &it->second; }
  const rl::FunctionArguments* FunctionArgsFor(const std::string& n) const override { auto it = fargs.find(n); return it == fargs.end() ? nullptr : &it->second; }
  std::optional<rl::TypeTraits> TraitsFor(const rl::Typification& t) const override {
    if (!t.IsElement()) return std::nullopt;
    if (t == rl::Typification::Integer()) return rl::TraitsIntegral;
    auto it = traits.find(t.E().baseID);
    if (it == traits.end()) return std::nullopt;
    return it->second;
  }
  rl::DataContext dataContext() const {
    return [this](const std::string& n) -> std::optional<ob::StructuredData> { auto it = data.find(n); if (it == data.end()) return std::nullopt; return it->second; };
  }
  rl::SyntaxTreeContext astContext() const {
    return [this](const std::string& n) -> const rl::SyntaxTree* { auto it = asts.find(n); return it == asts.end() ? nullptr : &it->second; };
  }
  rl::ValueClassContext valueContext() const {
    return [this](const std::string& n) { return !types.count(n) ? rl::ValueClass::invalid : propsGlobals.count(n) ? rl::ValueClass::props : rl::ValueClass::value; };
  }
};

// human-readable dump of a context (part of the rendered case)
inline std::string showGamma(const Gamma& G) {
  std::string s;
  for (auto& g : G.globals) s += g.name + ":" + g.type.str() + "=" + g.value.str() + (g.construction == 1 ? "[lazy-bool]" : g.construction == 2 ? "[lazy-prod]" : "") + "; ";
  for (auto& f : G.funcs) {
    s += f.name + ":==[";
    for (size_t i = 0; i < f.args.size(); ++i) s += (i ? "," : "") + f.args[i].first + "\xE2\x88\x88" + render(domainExpr(f.args[i].second));
    s += "] " + render(f.body) + "; ";
  }
  return s;
}

}  // namespace rs

namespace rs {
// library typification -> model type, read through the public accessors only
inline Ty fromLibType(const rl::Typification& t) {
  if (t.IsElement()) return Ty::Base(t.E().baseID);
  if (t.IsTuple()) { std::vector<Ty> cs; for (rl::Index i = 1; i <= t.T().Arity(); ++i) cs.push_back(fromLibType(t.T().Component(i))); Ty r; r.k = Ty::TUPLE; r.comps = cs; return r; }
  return Ty::Set(fromLibType(t.B().Base()));
}
inline Ty fromLibExprType(const rl::ExpressionType& t) { if (std::holds_alternative<rl::LogicT>(t)) return Ty::Logic(); return fromLibType(std::get<rl::Typification>(t)); }
// deep structural check; the any-type R0 admits every value
inline bool hasTypeDeep(const Val& v, const Ty& t) {
  if (t.isAny()) return true;
  switch (t.k) {
    case Ty::BASE: return v.k == Val::INT;
    case Ty::TUPLE: if (v.k != Val::TUPLE || v.items.size() != t.comps.size()) return false; for (size_t i = 0; i < v.items.size(); ++i) if (!hasTypeDeep(v.items[i], t.comps[i])) return false; return true;
    case Ty::SET: if (v.k != Val::SET) return false; for (auto& e : v.items) if (!hasTypeDeep(e, t.elem())) return false; return true;
    default: return false;
  }
}
}  // namespace rs
