// Shared schema editing histories for C07 / C08 / C09 / C10: generation (choices only), rendering, and execution
// against a ccl::semantic::RSForm.  Operations name their targets by index into the current list (taken modulo the
// list length at execution time) and use a small alias vocabulary on purpose, so that names collide, forward
// references, references to missing or erased names, self references and cycles all occur.
#pragma once

#include "common/pbt.hpp"

#include "ccl/api/RSFormJA.h"
#include "ccl/lang/TextEnvironment.h"
#include "ccl/semantic/RSForm.h"
#include "ccl/tools/EntityGenerator.h"
#include "ccl/tools/JSON.h"
#include "ccl/rslang/SyntaxTree.h"

#include <set>

namespace sh {

using ccl::EntityUID;
using ccl::semantic::CstType;
using ccl::semantic::RSForm;

inline const char* kindName(CstType t) {
  switch (t) { case CstType::base: return "base"; case CstType::constant: return "constant"; case CstType::structured: return "structure"; case CstType::axiom: return "axiom";
    case CstType::term: return "term"; case CstType::function: return "function"; case CstType::theorem: return "theorem"; case CstType::predicate: return "predicate"; default: return "?"; }
}
inline char kindLetter(CstType t) {
  switch (t) { case CstType::base: return 'X'; case CstType::constant: return 'C'; case CstType::structured: return 'S'; case CstType::axiom: return 'A';
    case CstType::term: return 'D'; case CstType::function: return 'F'; case CstType::theorem: return 'T'; case CstType::predicate: return 'P'; default: return '?'; }
}
inline int kindPriority(CstType t) { return t == CstType::base ? 4 : t == CstType::constant ? 3 : t == CstType::structured ? 2 : 1; }

#define U8_IN "\xE2\x88\x88"
#define U8_UNION "\xE2\x88\xAA"
#define U8_BOOL "\xE2\x84\xAC"
#define U8_TIMES "\xC3\x97"
#define U8_ALL "\xE2\x88\x80"

// definitions over a small alias vocabulary: valid, invalid, forward, missing, self-referential, cyclic, duplicates
inline std::string genDefinition(pbt::Ctx& c, CstType kind) {
  static const std::vector<std::string> sets = {"X1", "X2", "D1", "D2", "D3", "C1", "X9", "D1" U8_UNION "X1", "D2\\D1", "X1" U8_UNION "X2", "Pr1(S1)", "red(S2)", "D{a" U8_IN "X1|a" U8_IN "D1}", "F1[X1]", "F1[D2]", "{D4}", "X1\\X1", "X1 \\ X1", "D3" U8_UNION "D3"};
  static const std::vector<std::string> structs = {U8_BOOL "(X1)", U8_BOOL "(X1" U8_TIMES "X2)", U8_BOOL U8_BOOL "(X1)", U8_BOOL "(X1" U8_TIMES "X1)", U8_BOOL "(D1)", "X1" U8_TIMES "X2", U8_BOOL "(C1" U8_TIMES "X1)", U8_BOOL "(X9)"};
  static const std::vector<std::string> logic = {U8_ALL "a" U8_IN "X1 a" U8_IN "D1", "D1=D2", "X1=X1", "P1[D4]", "A1", "D1" U8_IN U8_BOOL "(X1)", "card(D1)>0", "1=1", "T1"};
  static const std::vector<std::string> funcs = {"[a" U8_IN U8_BOOL "(X1)] a" U8_UNION "D1", "[a" U8_IN U8_BOOL "(R1), b" U8_IN U8_BOOL "(R1)] a\\b", "[a" U8_IN "X1] {a}", "[a" U8_IN "X1] F1[{a}]", "[a" U8_IN "X9] a"};
  static const std::vector<std::string> preds = {"[a" U8_IN "X1] a" U8_IN "D1", "[a" U8_IN U8_BOOL "(X1)] a=D1", "[a" U8_IN "X1] P1[a]"};
  static const std::vector<std::string> junk = {"", "X1" U8_UNION, "(((", "D1 D2", "1+", "\xE2\x88\x85", "debool(X1)", "D4", "R1", "Z"};
  if (kind == CstType::base || kind == CstType::constant) return c.chance(1, 6) ? c.oneof(sets) : std::string();
  if (c.chance(1, 8)) return c.oneof(junk);
  if (c.chance(1, 10)) {  // a definition of another kind: kind / definition mismatch
    static const std::vector<const std::vector<std::string>*> all = {&sets, &structs, &logic, &funcs, &preds};
    return c.oneof(*c.oneof(all));
  }
  switch (kind) {
    case CstType::structured: return c.oneof(structs);
    case CstType::term: return c.oneof(sets);
    case CstType::axiom: case CstType::theorem: return c.oneof(logic);
    case CstType::function: return c.oneof(funcs);
    case CstType::predicate: return c.oneof(preds);
    default: return c.oneof(sets);
  }
}
inline std::string genText(pbt::Ctx& c) {
  static const std::vector<std::string> texts = {"", "plain text", "@{X1|nomn,sing}", "@{D1|datv,plur} of @{X1|gent,sing}", "@{X9|nomn,sing}", "term \xD0\x96 @{D2|nomn,sing}", "@{D1|nomn,sing} @{-1|big}",
                                                 "@{D3|ablt,sing}", "@{S1|nomn,plur}", "@{D4|nomn,sing}", "@{X2|nomn,sing}!", "see @{A1|nomn,sing}"};
  return c.oneof(texts);
}
inline CstType genKind(pbt::Ctx& c) {
  static const std::vector<CstType> kinds = {CstType::base, CstType::base, CstType::constant, CstType::structured, CstType::term, CstType::term, CstType::term, CstType::axiom, CstType::function, CstType::predicate, CstType::theorem};
  return c.oneof(kinds);
}
inline std::string genAlias(pbt::Ctx& c) {
  static const std::vector<std::string> aliases = {"X1", "X2", "X3", "C1", "S1", "S2", "D1", "D2", "D3", "D4", "A1", "F1", "P1", "T1", "D11", "X11", "", "d1", "Q1", "D", "1D", "\xD0\x96" "1", "D01", "X9"};
  return c.oneof(aliases);
}

struct Rec { int uid; std::string alias; CstType kind; std::string def, conv, term, text; };
inline Rec genRec(pbt::Ctx& c) {
  Rec r; { const int w = c.ipick(0, 5); r.uid = w <= 1 ? c.ipick(1, 6) : w == 2 ? -c.ipick(1, 4) : c.ipick(100, 100000); }  // negative: re-use an erased (else a live) identifier, resolved at execution time
  r.kind = genKind(c); r.alias = c.chance(2, 3) ? std::string(1, kindLetter(r.kind)) + std::to_string(c.ipick(1, 4)) : genAlias(c);
  r.def = genDefinition(c, r.kind); r.conv = c.chance(1, 4) ? "conv " + r.alias : ""; r.term = genText(c); r.text = genText(c);
  return r;
}
inline ccl::semantic::ConceptRecord toRecord(const Rec& r, EntityUID resolved = 0) {
  ccl::semantic::ConceptRecord cr; cr.uid = r.uid < 0 ? resolved : static_cast<EntityUID>(r.uid); cr.alias = r.alias; cr.type = r.kind; cr.rs = r.def; cr.convention = r.conv;
  cr.term = ccl::lang::LexicalTerm{r.term}; cr.definition = ccl::lang::ManagedText{r.text}; return cr;
}

struct Op {
  enum Kind { EMPLACE, ERASE, SET_EXPR, SET_ALIAS, SET_TERM, SET_TEXT, SET_CONV, MOVE, INSERT_REC, INSERT_RECS, INSERT_FROM, RESET_ALIASES, TRACK, UNTRACK, MERGE, DEDUP, ERASE_MISSING, SET_FORM, DUPLICATE, LOAD, N } kind = EMPLACE;
  int target = 0, where = 0;     // list indices (modulo current length)
  CstType cst = CstType::term;
  std::string text;              // definition / alias / text
  bool flag = false;             // substitute mentions / allowEdit
  std::vector<Rec> recs;
  std::vector<int> picks;        // indices into the other schema
};
inline const char* opName(Op::Kind k) {
  static const char* n[] = {"Emplace", "Erase", "SetExpression", "SetAlias", "SetTerm", "SetText", "SetConvention", "MoveBefore", "InsertRecord", "InsertRecords", "InsertFromSchema", "ResetAliases", "Track", "StopTracking", "MergeWith", "DeleteDuplicates", "EraseMissing", "SetTermForm", "InsertDuplicateOf", "Load+UpdateState"};
  return n[k];
}

struct GenOpts { bool tracking = false; bool merges = false; bool forms = false; int maxOps = 14; bool loads = false; };

inline std::vector<Op> genHistory(pbt::Ctx& c, const GenOpts& o) {
  std::vector<Op> ops;
  const int n = c.ipick(2, o.maxOps);
  // start with a few constituents so that later ops have something to work on
  const int seedCst = c.ipick(0, 4);
  static const CstType seedKinds[] = {CstType::base, CstType::term, CstType::structured, CstType::term};
  for (int i = 0; i < seedCst; ++i) { Op op; op.kind = Op::EMPLACE; op.cst = seedKinds[i]; op.text = genDefinition(c, op.cst); ops.push_back(op); }
  for (int i = 0; i < n; ++i) {
    Op op;
    const int k = c.ipick(0, 99 + (o.tracking ? 8 : 0) + (o.merges ? 8 : 0));
    op.target = c.ipick(0, 11); op.where = c.ipick(0, 12);
    if (k < 22) { op.kind = Op::EMPLACE; op.cst = genKind(c); op.text = genDefinition(c, op.cst); }
    else if (k < 30) op.kind = Op::ERASE;
    else if (k < 50) { op.kind = Op::SET_EXPR; op.cst = genKind(c); op.text = genDefinition(c, op.cst); op.flag = c.coin(); }
    else if (k < 60) { op.kind = Op::SET_ALIAS; op.text = genAlias(c); op.flag = c.chance(3, 4); op.where = c.ipick(1, 4); }
    else if (k < 66) { op.kind = (o.forms && c.chance(1, 3)) ? Op::SET_FORM : Op::SET_TERM; op.text = genText(c); op.where = c.ipick(0, 15); }
    else if (k < 71) { op.kind = Op::SET_TEXT; op.text = genText(c); }
    else if (k < 74) { op.kind = Op::SET_CONV; op.text = c.coin() ? "convention X1" : ""; }
    else if (k < 81) op.kind = Op::MOVE;
    else if (k < 86) { op.kind = (o.loads && c.coin()) ? Op::LOAD : Op::INSERT_REC; op.recs.push_back(genRec(c)); }
    else if (k < 90) { op.kind = Op::INSERT_RECS; const int m = c.ipick(1, 3); for (int j = 0; j < m; ++j) op.recs.push_back(genRec(c)); }
    else if (k < 93) { op.kind = Op::INSERT_FROM; const int m = c.ipick(1, 3); for (int j = 0; j < m; ++j) op.picks.push_back(c.ipick(0, 5)); const int r = c.ipick(2, 4); for (int j = 0; j < r; ++j) op.recs.push_back(genRec(c)); op.flag = c.coin(); }
    else if (k < 94) op.kind = Op::RESET_ALIASES;
    else if (k < 95) op.kind = Op::ERASE_MISSING;
    else if (k < 96) op.kind = Op::DUPLICATE;
    else if (k < 100) { op.kind = Op::SET_EXPR; op.cst = CstType::term; op.text = genDefinition(c, op.cst); }
    else if (o.tracking && k < 108) { op.kind = k < 106 ? Op::TRACK : Op::UNTRACK; op.flag = c.coin(); }
    else { const int w = (k - (o.tracking ? 108 : 100)); if (w < 2) { op.kind = Op::MERGE; const int r = c.ipick(1, 3); for (int j = 0; j < r; ++j) op.recs.push_back(genRec(c)); } else if (w < 5) op.kind = Op::DUPLICATE; else op.kind = Op::DEDUP; }
    ops.push_back(op);
  }
  return ops;
}

inline std::string showRec(const Rec& r) { return "{uid=" + (r.uid < 0 ? "reuse#" + std::to_string(-r.uid) : std::to_string(r.uid)) + " " + r.alias + ":" + kindName(r.kind) + " '" + r.def + "' term='" + r.term + "' text='" + r.text + "'}"; }
inline std::string showOp(const Op& op) {
  std::string s = opName(op.kind);
  switch (op.kind) {
    case Op::EMPLACE: s += std::string("(") + kindName(op.cst) + ", '" + op.text + "')"; break;
    case Op::DUPLICATE: case Op::ERASE: case Op::TRACK: case Op::UNTRACK: s += "(#" + std::to_string(op.target) + (op.kind == Op::TRACK ? (op.flag ? ", editable" : ", locked") : "") + ")"; break;
    case Op::SET_FORM: case Op::SET_EXPR: case Op::SET_TERM: case Op::SET_TEXT: case Op::SET_CONV: s += "(#" + std::to_string(op.target) + ", '" + op.text + "')"; break;
    case Op::SET_ALIAS: s += "(#" + std::to_string(op.target) + ", '" + op.text + "'" + (op.flag ? ", substitute" : ", keep-mentions") + ")"; break;
    case Op::MOVE: s += "(#" + std::to_string(op.target) + " before #" + std::to_string(op.where) + ")"; break;
    case Op::LOAD: case Op::INSERT_REC: case Op::INSERT_RECS: case Op::MERGE: for (auto& r : op.recs) s += " " + showRec(r); break;
    case Op::INSERT_FROM: s += " other:"; for (auto& r : op.recs) s += " " + showRec(r); s += " take"; for (int p : op.picks) s += " #" + std::to_string(p); break;
    default: break;
  }
  return s;
}

// what the executor reports about one applied operation
struct Applied {
  bool skipped = false;         // nothing to apply (empty list)
  bool returned = true;         // the mutator's return value where it has one
  bool refusedByCause = false;  // the harness can name a cause for which the property demands "changes nothing"
  std::string cause;
  EntityUID uid = 0;            // target / new uid
  std::vector<EntityUID> created;
  bool effectiveErase = false;
};

struct Executor {
  RSForm form;
  explicit Executor(uint64_t idSeed) {
    ccl::tools::EntityGenerator::VerifSeed(idSeed);
    ccl::lang::TextEnvironment::Instance().skipResolving = false;
    ccl::lang::TextEnvironment::SetProcessor(std::make_unique<ccl::lang::TextProcessor>());
  }
  ~Executor() { ccl::tools::EntityGenerator::VerifUnseed(); }

  std::vector<EntityUID> erasedLog;
  // identifier for a record that asks to re-use one: an erased uid if there is one, else a live one (collision), else 7
  EntityUID resolve(const Rec& r) const {
    if (r.uid >= 0) return static_cast<EntityUID>(r.uid);
    const size_t k = static_cast<size_t>(-r.uid);
    if (!erasedLog.empty()) return erasedLog[k % erasedLog.size()];
    const auto l = list();
    return l.empty() ? 7 : l[k % l.size()];
  }
  ccl::semantic::ConceptRecord record(const Rec& r) const { return toRecord(r, resolve(r)); }
  std::vector<EntityUID> list() const { std::vector<EntityUID> v; for (const auto uid : form.List()) v.push_back(uid); return v; }
  bool aliasTaken(const std::string& a) const { return form.Core().FindAlias(a).has_value(); }
  static bool aliasWellFormedFor(const std::string& a, CstType k) {
    if (a.size() < 2 || a[0] != kindLetter(k)) return false;
    for (size_t i = 1; i < a.size(); ++i) if (a[i] < '0' || a[i] > '9') return false;
    return true;
  }

  Applied apply(const Op& op) {
    Applied r;
    const auto l = list();
    auto pickUid = [&](int idx) -> EntityUID { return l[static_cast<size_t>(idx) % l.size()]; };
    const bool needsTarget = op.kind == Op::ERASE || op.kind == Op::SET_EXPR || op.kind == Op::SET_ALIAS || op.kind == Op::SET_TERM || op.kind == Op::SET_FORM || op.kind == Op::SET_TEXT || op.kind == Op::SET_CONV || op.kind == Op::MOVE || op.kind == Op::TRACK || op.kind == Op::UNTRACK || op.kind == Op::DUPLICATE;
    if (needsTarget && l.empty()) { r.skipped = true; return r; }
    switch (op.kind) {
      case Op::EMPLACE: r.uid = form.Emplace(op.cst, op.text); r.created = {r.uid}; break;
      case Op::ERASE: {
        r.uid = pickUid(op.target);
        if (form.Mods().IsTracking(r.uid)) { r.refusedByCause = true; r.cause = "erase of a tracked constituent"; }
        r.returned = form.Erase(r.uid); r.effectiveErase = r.returned; if (r.returned) erasedLog.push_back(r.uid); break;
      }
      case Op::ERASE_MISSING: r.uid = 0x7FFFFFF0u; r.refusedByCause = !form.Contains(r.uid); r.cause = "unknown uid"; r.returned = form.Erase(r.uid); break;
      case Op::SET_EXPR: {
        r.uid = pickUid(op.target);
        // definitions follow the kind of the target more often than not
        if (form.Mods().IsTracking(r.uid)) { r.refusedByCause = true; r.cause = "definition edit of a tracked constituent"; }
        r.returned = form.SetExpressionFor(r.uid, op.text); break;
      }
      case Op::SET_ALIAS: {
        r.uid = pickUid(op.target);
        const auto kind = form.GetRS(r.uid).type;
        std::string alias = op.text;
        if (op.where <= 2) alias = std::string(1, kindLetter(kind)) + std::to_string(op.where + (op.flag ? 0 : 3));  // mostly a well-formed alias of the right kind
        const bool same = alias == form.GetRS(r.uid).alias;
        if (!same && (aliasTaken(alias) || !aliasWellFormedFor(alias, kind))) { r.refusedByCause = true; r.cause = "alias taken or not matching the kind"; }
        r.returned = form.SetAliasFor(r.uid, alias, op.flag); break;
      }
      case Op::SET_TERM: r.uid = pickUid(op.target); r.returned = form.SetTermFor(r.uid, op.text); break;
      case Op::SET_FORM: {
        // every group of grammemes: part of speech, tense, person, number, gender, case
        static const char* tags[] = {"sing,datv", "plur,nomn", "sing,gent", "plur,ablt", "VERB,3per,sing,pres", "past,femn,sing", "futr,1per,plur", "2per,pres",
                                     "NOUN,masc,accs", "ADJF,neut,loct", "PRTF,past", "INFN", "GRND,pres", "NUMR,gent", "COMP", "NPRO,1per,sing,nomn"};
        r.uid = pickUid(op.target); r.returned = form.SetTermFormFor(r.uid, op.text.empty() ? "form" : op.text, ccl::lang::Morphology(std::string_view(tags[op.where % 16]))); break;
      }
      case Op::SET_TEXT: r.uid = pickUid(op.target); r.returned = form.SetDefinitionFor(r.uid, op.text); break;
      case Op::SET_CONV: r.uid = pickUid(op.target); r.returned = form.SetConventionFor(r.uid, op.text); break;
      case Op::MOVE: {
        r.uid = pickUid(op.target);
        const size_t pos = static_cast<size_t>(op.where) % (l.size() + 1);
        auto it = form.List().begin(); for (size_t i = 0; i < pos; ++i) ++it;
        // admissible iff the list stays ordered by kind priority (base > constant > structure > rest)
        std::vector<EntityUID> after;
        for (size_t i = 0; i < l.size(); ++i) { if (i == pos) after.push_back(r.uid); if (l[i] != r.uid) after.push_back(l[i]); }
        if (pos >= l.size()) after.push_back(r.uid);
        bool ordered = true;
        for (size_t i = 1; i < after.size(); ++i) ordered = ordered && kindPriority(form.GetRS(after[i - 1]).type) >= kindPriority(form.GetRS(after[i]).type);
        if (!ordered) { r.refusedByCause = true; r.cause = "move that would break the kind order"; }
        r.returned = form.MoveBefore(r.uid, it); break;
      }
      case Op::INSERT_REC: r.uid = form.InsertCopy(record(op.recs[0])); r.created = {r.uid}; break;
      case Op::LOAD: r.uid = form.Load(record(op.recs[0])); form.UpdateState(); r.created = {r.uid}; break;  // the loading primitive + the refresh every loader performs
      case Op::INSERT_RECS: { std::vector<ccl::semantic::ConceptRecord> v; for (auto& x : op.recs) v.push_back(record(x)); r.created = form.InsertCopy(v); break; }
      case Op::INSERT_FROM: {
        RSForm other; for (auto& x : op.recs) other.InsertCopy(record(x));
        std::vector<EntityUID> ol; for (const auto uid : other.List()) ol.push_back(uid);
        if (ol.empty()) { r.skipped = true; break; }
        if (op.flag) { ccl::VectorOfEntities in; std::set<EntityUID> seen; for (int p : op.picks) { auto u = ol[static_cast<size_t>(p) % ol.size()]; if (seen.insert(u).second) in.push_back(u); } r.created = form.InsertCopy(in, other.Core()); }
        else { r.uid = form.InsertCopy(ol[static_cast<size_t>(op.picks[0]) % ol.size()], other.Core()); r.created = {r.uid}; }
        break;
      }
      case Op::DUPLICATE: {  // an exact copy (same kind, definition, convention, texts) under a fresh identifier: food for DeleteDuplicates
        r.uid = pickUid(op.target);
        auto rec = form.Core().AsRecord(r.uid); rec.uid = 0x40000000u + static_cast<EntityUID>(l.size());
        r.uid = form.InsertCopy(rec); r.created = {r.uid}; break;
      }
      case Op::RESET_ALIASES: form.ResetAliases(); break;
      case Op::TRACK: { r.uid = pickUid(op.target); ccl::semantic::TrackingFlags f; f.allowEdit = op.flag; form.Mods().Track(r.uid, f); break; }
      case Op::UNTRACK: r.uid = pickUid(op.target); form.Mods().StopTracking(r.uid); break;
      case Op::MERGE: { RSForm other; for (auto& x : op.recs) other.InsertCopy(record(x)); (void)form.Ops().MergeWith(other); break; }
      case Op::DEDUP: (void)form.Ops().DeleteDuplicates(); break;
      default: break;
    }
    return r;
  }
};

inline std::string toJson(const RSForm& f) {
  return nlohmann::ordered_json(f).dump(1, ' ', false, nlohmann::ordered_json::error_handler_t::replace);
}


// ---- comparison of an incrementally maintained schema with one rebuilt from the same content ----------------------
#define SH_CHECK(cond, oracle, msg) do { if (!(cond)) return pbt::fail(oracle, msg); } while (0)
struct View { std::string status, type, args, vclass, tree, inputs, termInputs, defInputs, term, text; };

inline std::string typeStr(const ccl::semantic::ParsingInfo& p) {
  if (!p.exprType.has_value()) return "-";
  if (std::holds_alternative<ccl::rslang::LogicT>(*p.exprType)) return "LOGIC";
  return std::get<ccl::rslang::Typification>(*p.exprType).ToString();
}
inline View viewOf(const RSForm& f, EntityUID uid) {
  View v;
  const auto& p = f.GetParse(uid);
  v.status = p.status == ccl::semantic::ParsingStatus::VERIFIED ? "verified" : p.status == ccl::semantic::ParsingStatus::INCORRECT ? "incorrect" : "unknown";
  v.type = typeStr(p);
  if (p.arguments.has_value()) for (auto& a : *p.arguments) v.args += a.name + ":" + a.type.ToString() + ",";
  v.vclass = std::to_string(static_cast<int>(p.valueClass));
  v.tree = p.ast ? ccl::rslang::AST2String::Apply(*p.ast) : std::string("-");
  std::set<std::string> in; for (auto u : f.RSLang().Graph().InputsFor(uid)) in.insert(f.Contains(u) ? f.GetRS(u).alias : "?" + std::to_string(u));
  for (auto& a : in) v.inputs += a + ",";
  auto names = [&](const ccl::graph::CGraph::UnorderedItems& us) { std::set<std::string> n; for (auto u : us) n.insert(f.Contains(u) ? f.GetRS(u).alias : "?" + std::to_string(u)); std::string o; for (auto& a : n) o += a + ","; return o; };
  v.termInputs = names(f.Texts().TermGraph().InputsFor(uid));
  v.defInputs = names(f.Texts().DefGraph().InputsFor(uid));
  v.term = f.GetText(uid).term.Nominal();
  v.text = f.GetText(uid).definition.Str();
  return v;
}

inline pbt::Verdict compareWith(const RSForm& inc, const RSForm& fresh, const std::string& how, const std::string& after, bool textsComparable) {
  std::vector<EntityUID> li, lf;
  for (auto u : inc.List()) li.push_back(u);
  for (auto u : fresh.List()) lf.push_back(u);
  SH_CHECK(li == lf, std::string("rebuild-order-") + how, "a schema rebuilt (" + how + ") from the same content has another list after " + after);
  for (auto uid : li) {
    const auto& rs = inc.GetRS(uid);
    SH_CHECK(fresh.Contains(uid) && fresh.GetRS(uid).alias == rs.alias && fresh.GetRS(uid).definition == rs.definition && fresh.GetRS(uid).type == rs.type, std::string("rebuild-content-") + how,
          "rebuilt (" + how + ") schema differs in content at " + rs.alias + " after " + after);
    const View a = viewOf(inc, uid), b = viewOf(fresh, uid);
    const std::string who = rs.alias + ":=='" + rs.definition + "' after " + after + " [vs " + how + "]";
    SH_CHECK(a.status == b.status, "stale-status", who + ": incremental says " + a.status + ", from scratch " + b.status);
    SH_CHECK(a.type == b.type, "stale-typification", who + ": incremental type " + a.type + ", from scratch " + b.type);
    SH_CHECK(a.args == b.args, "stale-arguments", who + ": incremental args " + a.args + ", from scratch " + b.args);
    SH_CHECK(a.vclass == b.vclass, "stale-value-class", who + ": incremental value class " + a.vclass + ", from scratch " + b.vclass);
    SH_CHECK(a.tree == b.tree, "stale-tree", who + ": incremental tree " + a.tree + ", from scratch " + b.tree);
    SH_CHECK(a.inputs == b.inputs, "stale-dependencies", who + ": incremental inputs {" + a.inputs + "}, from scratch {" + b.inputs + "}");
    SH_CHECK(a.termInputs == b.termInputs, "stale-term-dependencies", who + ": term references {" + a.termInputs + "}, from scratch {" + b.termInputs + "}");
    SH_CHECK(a.defInputs == b.defInputs, "stale-text-dependencies", who + ": text-definition references {" + a.defInputs + "}, from scratch {" + b.defInputs + "}");
    if (textsComparable) {
      SH_CHECK(a.term == b.term, "stale-term", who + ": resolved term '" + a.term + "', from scratch '" + b.term + "'");
      SH_CHECK(a.text == b.text, "stale-text", who + ": resolved definition text '" + a.text + "', from scratch '" + b.text + "'");
    }
  }
  return pbt::pass();
}


// a schema rebuilt from scratch from the records of `inc` in list order
inline RSForm rebuilt(const RSForm& inc) { RSForm fresh; for (auto uid : inc.List()) fresh.Load(inc.Core().AsRecord(uid)); fresh.UpdateState(); return fresh; }

}  // namespace sh
