// M1 - RSLang abstract syntax, my own printer (MATH + ASCII token tables, precedence table transcribed
// from the %left/%right block of RSParserImpl.y) with recorded code-point spans, and a purely syntactic
// random generator.  Nothing here calls the library's lexer/parser/generator; only the TokenID enum is
// reused as a set of names for node kinds.
#pragma once

#include "common/pbt.hpp"

#include "ccl/rslang/SyntaxTree.h"

#include <memory>
#include <string>
#include <vector>

namespace rs {

using TID = ccl::rslang::TokenID;

struct Expr;
using EP = std::shared_ptr<Expr>;
struct Expr {
  TID id{};
  std::string name;        // identifiers
  int64_t num = 0;         // integer literal
  std::vector<int> idx;    // pr / Pr / Fi indices
  std::vector<EP> kids;
  // filled in by the printer (code points; for ASCII text code points == bytes)
  int s0 = -1, s1 = -1;                      // core span (own text without own parentheses)
  std::vector<std::pair<int, int>> layers;   // own parenthesis layers, innermost first
};

inline EP mk(TID id, std::vector<EP> kids = {}) { auto e = std::make_shared<Expr>(); e->id = id; e->kids = std::move(kids); return e; }
inline EP mkName(TID id, std::string n) { auto e = mk(id); e->name = std::move(n); return e; }
inline EP mkInt(int64_t v) { auto e = mk(TID::LIT_INTEGER); e->num = v; return e; }
inline EP mkIdx(TID id, std::vector<int> idx, std::vector<EP> kids) { auto e = mk(id, std::move(kids)); e->idx = std::move(idx); return e; }
inline EP clone(const EP& e) { auto c = std::make_shared<Expr>(*e); for (auto& k : c->kids) k = clone(k); return c; }

// ------------------------------------------------------------------------------------------------ names
inline const char* kindName(TID id) {
  switch (id) {
    case TID::ID_LOCAL: return "LOCAL"; case TID::ID_GLOBAL: return "GLOBAL"; case TID::ID_FUNCTION: return "FUNCTION";
    case TID::ID_PREDICATE: return "PREDICATE"; case TID::ID_RADICAL: return "RADICAL"; case TID::LIT_INTEGER: return "INT";
    case TID::LIT_INTSET: return "Z"; case TID::LIT_EMPTYSET: return "EMPTYSET"; case TID::PLUS: return "PLUS"; case TID::MINUS: return "MINUS";
    case TID::MULTIPLY: return "MULTIPLY"; case TID::GREATER: return "GREATER"; case TID::LESSER: return "LESSER";
    case TID::GREATER_OR_EQ: return "GREATER_OR_EQ"; case TID::LESSER_OR_EQ: return "LESSER_OR_EQ"; case TID::EQUAL: return "EQUAL";
    case TID::NOTEQUAL: return "NOTEQUAL"; case TID::FORALL: return "FORALL"; case TID::EXISTS: return "EXISTS"; case TID::NOT: return "NOT";
    case TID::EQUIVALENT: return "EQUIVALENT"; case TID::IMPLICATION: return "IMPLICATION"; case TID::OR: return "OR"; case TID::AND: return "AND";
    case TID::IN: return "IN"; case TID::NOTIN: return "NOTIN"; case TID::SUBSET: return "SUBSET"; case TID::SUBSET_OR_EQ: return "SUBSET_OR_EQ";
    case TID::NOTSUBSET: return "NOTSUBSET"; case TID::DECART: return "DECART"; case TID::UNION: return "UNION";
    case TID::INTERSECTION: return "INTERSECTION"; case TID::SET_MINUS: return "SET_MINUS"; case TID::SYMMINUS: return "SYMMINUS";
    case TID::BOOLEAN: return "BOOLEAN"; case TID::BIGPR: return "BIGPR"; case TID::SMALLPR: return "SMALLPR"; case TID::FILTER: return "FILTER";
    case TID::CARD: return "CARD"; case TID::BOOL: return "BOOL"; case TID::DEBOOL: return "DEBOOL"; case TID::REDUCE: return "REDUCE";
    case TID::ITERATE: return "ITERATE"; case TID::ASSIGN: return "ASSIGN"; case TID::PUNC_DEFINE: return "DEFINE"; case TID::PUNC_STRUCT: return "STRUCT";
    case TID::NT_ENUM_DECL: return "ENUM_DECL"; case TID::NT_TUPLE: return "TUPLE"; case TID::NT_ENUMERATION: return "ENUMERATION";
    case TID::NT_TUPLE_DECL: return "TUPLE_DECL"; case TID::NT_ARG_DECL: return "ARG_DECL"; case TID::NT_FUNC_DEFINITION: return "FUNC_DEFINITION";
    case TID::NT_ARGUMENTS: return "ARGUMENTS"; case TID::NT_FUNC_CALL: return "FUNC_CALL"; case TID::NT_DECLARATIVE_EXPR: return "DECLARATIVE";
    case TID::NT_IMPERATIVE_EXPR: return "IMPERATIVE"; case TID::NT_RECURSIVE_FULL: return "REC_FULL"; case TID::NT_RECURSIVE_SHORT: return "REC_SHORT";
    default: return "?";
  }
}

inline bool isIdent(TID id) { return id == TID::ID_LOCAL || id == TID::ID_GLOBAL || id == TID::ID_FUNCTION || id == TID::ID_PREDICATE || id == TID::ID_RADICAL; }
inline bool isArith(TID id) { return id == TID::PLUS || id == TID::MINUS || id == TID::MULTIPLY; }
inline bool isSetBin(TID id) { return id == TID::UNION || id == TID::INTERSECTION || id == TID::SET_MINUS || id == TID::SYMMINUS; }
inline bool isSetexprBinary(TID id) { return isArith(id) || isSetBin(id) || id == TID::DECART; }
inline bool isLogicBin(TID id) { return id == TID::EQUIVALENT || id == TID::IMPLICATION || id == TID::OR || id == TID::AND; }
inline bool isPredicateOp(TID id) {
  switch (id) {
    case TID::IN: case TID::NOTIN: case TID::SUBSET: case TID::SUBSET_OR_EQ: case TID::NOTSUBSET: case TID::EQUAL: case TID::NOTEQUAL:
    case TID::GREATER: case TID::LESSER: case TID::GREATER_OR_EQ: case TID::LESSER_OR_EQ: case TID::ITERATE: case TID::ASSIGN: return true;
    default: return false;
  }
}
inline bool isTextFn(TID id) { return id == TID::BOOL || id == TID::DEBOOL || id == TID::REDUCE || id == TID::BIGPR || id == TID::SMALLPR || id == TID::CARD; }

// my transcription of the grammar's precedence block (low .. high)
inline int prec(TID id) {
  switch (id) {
    case TID::PLUS: case TID::MINUS: return 1;
    case TID::MULTIPLY: return 2;
    case TID::EQUIVALENT: return 4;
    case TID::IMPLICATION: return 5;
    case TID::OR: return 6;
    case TID::AND: return 7;
    case TID::DECART: case TID::UNION: case TID::INTERSECTION: case TID::SET_MINUS: case TID::SYMMINUS: return 8;
    default: return 0;
  }
}

// canonical S-expression of a model tree (what the parser must build)
inline void sexpr(const Expr& e, std::string& o) {
  o += '('; o += kindName(e.id);
  if (isIdent(e.id)) { o += ' '; o += e.name; }
  if (e.id == TID::LIT_INTEGER) { o += ' '; o += std::to_string(e.num); }
  if (e.id == TID::BIGPR || e.id == TID::SMALLPR || e.id == TID::FILTER) { for (int i : e.idx) { o += ' '; o += std::to_string(i); } }
  for (const auto& k : e.kids) { o += ' '; sexpr(*k, o); }
  o += ')';
}
inline std::string sexpr(const EP& e) { std::string o; sexpr(*e, o); return o; }

// the same rendering of a library tree, read through the public Cursor API only
inline void sexprLib(ccl::rslang::SyntaxTree::Cursor c, std::string& o, const std::function<std::string(const std::string&)>& localMap = nullptr) {
  const auto& t = *c;
  o += '('; o += kindName(t.id);
  if (isIdent(t.id)) { o += ' '; o += (t.data.IsText() ? (localMap && t.id == TID::ID_LOCAL ? localMap(t.data.ToText()) : t.data.ToText()) : std::string("<no-text>")); }
  if (t.id == TID::LIT_INTEGER) { o += ' '; o += t.data.IsInt() ? std::to_string(t.data.ToInt()) : std::string("<no-int>"); }
  if (t.id == TID::BIGPR || t.id == TID::SMALLPR || t.id == TID::FILTER) {
    if (t.data.IsTuple()) for (auto i : t.data.ToTuple()) { o += ' '; o += std::to_string(i); } else o += " <no-indices>";
  }
  for (ccl::rslang::Index i = 0; i < c.ChildrenCount(); ++i) { o += ' '; sexprLib(c.Child(i), o, localMap); }
  o += ')';
}
inline std::string sexprLib(const ccl::rslang::SyntaxTree& t, const std::function<std::string(const std::string&)>& localMap = nullptr) {
  std::string o; sexprLib(t.Root(), o, localMap); return o;
}

// documented transliteration of Greek letters in local names for ASCII output (alpha..omega)
inline std::string translit(const std::string& name) {
  static const char* table = "abgdezhviklmnxoprsstqfcjw";  // U+03B1 .. U+03C9
  std::string o;
  for (size_t i = 0; i < name.size();) {
    const unsigned char c = name[i];
    if (c < 0x80) { o += static_cast<char>(c); ++i; continue; }
    const unsigned char d = name[i + 1];
    const int cp = ((c & 0x1F) << 6) | (d & 0x3F);
    o += table[cp - 0x3B1];
    i += 2;
  }
  return o;
}

// ------------------------------------------------------------------------------------------------ printer
enum class Syn { MATH, ASCII };

inline std::string tokText(TID id, Syn s) {
  const bool m = s == Syn::MATH;
  switch (id) {
    case TID::PLUS: return m ? "+" : "\\plus"; case TID::MINUS: return m ? "-" : "\\minus"; case TID::MULTIPLY: return m ? "*" : "\\multiply";
    case TID::GREATER: return m ? ">" : "\\gr"; case TID::LESSER: return m ? "<" : "\\ls";
    case TID::GREATER_OR_EQ: return m ? "\xE2\x89\xA5" : "\\ge"; case TID::LESSER_OR_EQ: return m ? "\xE2\x89\xA4" : "\\le";
    case TID::EQUAL: return m ? "=" : "\\eq"; case TID::NOTEQUAL: return m ? "\xE2\x89\xA0" : "\\noteq";
    case TID::FORALL: return m ? "\xE2\x88\x80" : "\\A"; case TID::EXISTS: return m ? "\xE2\x88\x83" : "\\E";
    case TID::NOT: return m ? "\xC2\xAC" : "\\neg"; case TID::AND: return m ? "&" : "\\and"; case TID::OR: return m ? "\xE2\x88\xA8" : "\\or";
    case TID::IMPLICATION: return m ? "\xE2\x87\x92" : "\\impl"; case TID::EQUIVALENT: return m ? "\xE2\x87\x94" : "\\equiv";
    case TID::IN: return m ? "\xE2\x88\x88" : "\\in"; case TID::NOTIN: return m ? "\xE2\x88\x89" : "\\notin";
    case TID::SUBSET: return m ? "\xE2\x8A\x82" : "\\subset"; case TID::SUBSET_OR_EQ: return m ? "\xE2\x8A\x86" : "\\subseteq";
    case TID::NOTSUBSET: return m ? "\xE2\x8A\x84" : "\\notsubset";
    case TID::DECART: return m ? "\xC3\x97" : "*"; case TID::UNION: return m ? "\xE2\x88\xAA" : "\\union";
    case TID::INTERSECTION: return m ? "\xE2\x88\xA9" : "\\intersect"; case TID::SET_MINUS: return m ? "\\" : "\\setminus";
    case TID::SYMMINUS: return m ? "\xE2\x88\x86" : "\\symmdiff"; case TID::BOOLEAN: return m ? "\xE2\x84\xAC" : "B";
    case TID::BIGPR: return "Pr"; case TID::SMALLPR: return "pr"; case TID::FILTER: return "Fi"; case TID::CARD: return "card";
    case TID::BOOL: return "bool"; case TID::DEBOOL: return "debool"; case TID::REDUCE: return "red";
    case TID::DECLARATIVE: return "D"; case TID::RECURSIVE: return "R"; case TID::IMPERATIVE: return "I";
    case TID::LIT_INTSET: return "Z"; case TID::LIT_EMPTYSET: return m ? "\xE2\x88\x85" : "{}";
    case TID::ITERATE: return m ? ":\xE2\x88\x88" : "\\from"; case TID::ASSIGN: return m ? ":=" : "\\assign";
    case TID::PUNC_DEFINE: return m ? ":==" : "\\defexpr"; case TID::PUNC_STRUCT: return m ? "::=" : "\\deftype";
    default: return "?";
  }
}

struct PrintOpts {
  Syn syn = Syn::MATH;
  pbt::Ctx* rnd = nullptr;     // source of random layout choices (nullptr: canonical layout)
  int redundantParens = 0;     // chance in percent of an extra parenthesis layer where the grammar allows one
  int whitespace = 0;          // chance in percent of extra whitespace between tokens
  bool newlines = false;       // allow newlines among the extra whitespace
  bool shortDeclarative = false;  // may print {x in S | P} without the D prefix when the binder is a single local
};

class Printer {
public:
  std::string out;
  int cp = 0;
  int layersAdded = 0, newlinesAdded = 0, multibyteTokens = 0;
  struct IdTok { size_t byte; size_t len; TID id; };
  std::vector<IdTok> idents;  // every identifier token emitted, with its byte offset (for the renaming checks)
  explicit Printer(PrintOpts o) : opt(o) {}

  void print(Expr& e) { node(e, false, false); }

private:
  PrintOpts opt;
  bool lastWord = false;  // previous token ends with an identifier character (or is a backslash word)

  bool roll(int pct) { return pct > 0 && opt.rnd && opt.rnd->ipick(0, 99) < pct; }
  void raw(const std::string& s) {
    out += s;
    for (unsigned char c : s) if ((c & 0xC0) != 0x80) ++cp;
  }
  void gap() {
    if (!roll(opt.whitespace)) return;
    const int n = opt.rnd->ipick(1, 3);
    for (int i = 0; i < n; ++i) {
      const int k = opt.rnd->ipick(0, opt.newlines ? 3 : 2);
      if (k == 3) { raw("\n"); ++newlinesAdded; } else raw(k == 1 ? "\t" : " ");
    }
    lastWord = false;
  }
  static bool wordStart(const std::string& t) { const unsigned char c = t[0]; return std::isalnum(c) || c == '_' || c >= 0x80 && (c == 0xCE || c == 0xCF); }
  static bool wordEnd(const std::string& t) {
    const unsigned char c = t.back();
    if (std::isalnum(c) || c == '_') return true;
    if (t.size() >= 2) { const unsigned char b = t[t.size() - 2]; if ((b == 0xCE || b == 0xCF) && (c & 0xC0) == 0x80) return true; }
    return false;
  }
  // emit one token; returns the code-point position where it starts
  int tok(const std::string& t) {
    gap();
    const bool backslashWord = t[0] == '\\' && t.size() > 1;
    if ((lastWord && (wordStart(t) || backslashWord)) ) raw(" ");
    if (backslashWord && !out.empty() && out.back() != ' ' && out.back() != '\n' && out.back() != '\t') raw(" ");
    const int at = cp;
    raw(t);
    for (unsigned char c : t) if (c >= 0x80) { ++multibyteTokens; break; }
    lastWord = wordEnd(t) || backslashWord;
    return at;
  }
  int tok(TID id) { return tok(tokText(id, opt.syn)); }

  std::string identText(const Expr& e) const { return (e.id == TID::ID_LOCAL && opt.syn == Syn::ASCII) ? translit(e.name) : e.name; }
  static std::string idxText(const Expr& e) {
    std::string s;
    for (size_t i = 0; i < e.idx.size(); ++i) { if (i) s += ','; s += std::to_string(e.idx[i]); }
    return s;
  }

  // print child with `need` parentheses required; `allowExtra` tells whether the grammar admits (more) layers here
  // logicParenOK: the grammar admits "( logic )" only for operands of logical connectives and for the body of
  // a negation / quantifier (logic_par is part of logic_all and logic_no_binary only)
  void child(Expr& k, bool need, bool logicParenOK = false) { node(k, need, logicParenOK); }

  static bool parenthesisable(const Expr& e) { return isSetexprBinary(e.id) || isLogicBin(e.id) || isPredicateOp(e.id); }
  static bool multiLayer(const Expr& e) { return isSetexprBinary(e.id); }

  void node(Expr& e, bool need, bool logicParenOK) {
    int layers = need ? 1 : 0;
    if (parenthesisable(e)) {
      if (multiLayer(e)) { while (layers < 3 && roll(opt.redundantParens)) ++layers; }
      else if (layers == 0 && logicParenOK && e.id != TID::ITERATE && e.id != TID::ASSIGN && roll(opt.redundantParens)) layers = 1;
    }
    if (!need) layersAdded += layers; else layersAdded += layers - 1;
    std::vector<int> starts;
    for (int i = 0; i < layers; ++i) starts.push_back(tok("("));
    core(e);
    e.layers.clear();
    std::vector<int> ends;
    for (int i = 0; i < layers; ++i) { tok(")"); ends.push_back(cp); }
    for (int i = 0; i < layers; ++i) e.layers.emplace_back(starts[layers - 1 - i], ends[i]);  // innermost first
  }

  void list(std::vector<EP>& v, size_t from, size_t to) {
    for (size_t i = from; i < to; ++i) { if (i > from) tok(","); child(*v[i], false); }
  }

  void core(Expr& e) {
    const int before = cp;
    int start = -1;
    auto first = [&](int at) { if (start < 0) start = at; };
    switch (e.id) {
      case TID::ID_LOCAL: case TID::ID_GLOBAL: case TID::ID_FUNCTION: case TID::ID_PREDICATE: case TID::ID_RADICAL: {
        const std::string t = identText(e);
        first(tok(t));
        idents.push_back({out.size() - t.size(), t.size(), e.id});
        break;
      }
      case TID::LIT_INTEGER: first(tok(std::to_string(e.num))); break;
      case TID::LIT_INTSET: case TID::LIT_EMPTYSET: first(tok(e.id)); break;

      case TID::PLUS: case TID::MINUS: case TID::MULTIPLY: case TID::UNION: case TID::INTERSECTION: case TID::SET_MINUS: case TID::SYMMINUS: {
        Expr& l = *e.kids[0]; Expr& r = *e.kids[1];
        child(l, isSetexprBinary(l.id) && prec(l.id) < prec(e.id));
        tok(e.id);
        child(r, isSetexprBinary(r.id) && prec(r.id) <= prec(e.id));
        break;
      }
      case TID::DECART: {
        for (size_t i = 0; i < e.kids.size(); ++i) {
          Expr& k = *e.kids[i];
          if (i) tok(TID::DECART);
          const bool need = i == 0 ? (isSetexprBinary(k.id) && (prec(k.id) < 8 || k.id == TID::DECART)) : (isSetexprBinary(k.id) && prec(k.id) <= 8);
          child(k, need);
        }
        break;
      }
      case TID::EQUIVALENT: case TID::IMPLICATION: case TID::OR: case TID::AND: {
        Expr& l = *e.kids[0]; Expr& r = *e.kids[1];
        child(l, isLogicBin(l.id) && prec(l.id) < prec(e.id), true);
        tok(e.id);
        child(r, isLogicBin(r.id) && prec(r.id) <= prec(e.id), true);
        break;
      }
      case TID::NOT: first(tok(e.id)); child(*e.kids[0], isLogicBin(e.kids[0]->id), true); break;
      case TID::FORALL: case TID::EXISTS:
        first(tok(e.id)); child(*e.kids[0], false); tok(TID::IN); child(*e.kids[1], false);
        child(*e.kids[2], isLogicBin(e.kids[2]->id), true);
        break;
      case TID::IN: case TID::NOTIN: case TID::SUBSET: case TID::SUBSET_OR_EQ: case TID::NOTSUBSET: case TID::EQUAL: case TID::NOTEQUAL:
      case TID::GREATER: case TID::LESSER: case TID::GREATER_OR_EQ: case TID::LESSER_OR_EQ: case TID::ITERATE: case TID::ASSIGN:
        child(*e.kids[0], false); tok(e.id); child(*e.kids[1], false); break;

      case TID::BOOLEAN:
        first(tok(e.id));
        if (e.kids[0]->id == TID::BOOLEAN && !(opt.rnd && roll(30))) child(*e.kids[0], false);
        else { tok("("); child(*e.kids[0], false); tok(")"); }
        break;
      case TID::BOOL: case TID::DEBOOL: case TID::REDUCE: case TID::CARD:
        first(tok(e.id)); tok("("); child(*e.kids[0], false); tok(")"); break;
      case TID::BIGPR: case TID::SMALLPR:
        first(tok(tokText(e.id, opt.syn) + idxText(e))); tok("("); child(*e.kids[0], false); tok(")"); break;
      case TID::FILTER:
        first(tok(tokText(e.id, opt.syn) + idxText(e))); tok("["); list(e.kids, 0, e.kids.size() - 1); tok("]");
        tok("("); child(*e.kids.back(), false); tok(")"); break;
      case TID::NT_FUNC_CALL:
        child(*e.kids[0], false); tok("["); list(e.kids, 1, e.kids.size()); tok("]"); break;
      case TID::NT_TUPLE: case TID::NT_TUPLE_DECL:
        first(tok("(")); list(e.kids, 0, e.kids.size()); tok(")"); break;
      case TID::NT_ENUMERATION:
        first(tok("{")); list(e.kids, 0, e.kids.size()); tok("}"); break;
      case TID::NT_ENUM_DECL: list(e.kids, 0, e.kids.size()); break;
      case TID::NT_DECLARATIVE_EXPR: {
        const bool shortForm = opt.shortDeclarative && e.kids[0]->id == TID::ID_LOCAL && opt.rnd && opt.rnd->coin();
        if (!shortForm) { first(tok(TID::DECLARATIVE)); tok("{"); } else first(tok("{"));
        child(*e.kids[0], false); tok(TID::IN); child(*e.kids[1], false); tok("|"); child(*e.kids[2], false); tok("}");
        break;
      }
      case TID::NT_RECURSIVE_FULL: case TID::NT_RECURSIVE_SHORT:
        first(tok(TID::RECURSIVE)); tok("{"); child(*e.kids[0], false); tok(TID::ASSIGN); child(*e.kids[1], false);
        for (size_t i = 2; i < e.kids.size(); ++i) { tok("|"); child(*e.kids[i], false); }
        tok("}"); break;
      case TID::NT_IMPERATIVE_EXPR:
        first(tok(TID::IMPERATIVE)); tok("{"); child(*e.kids[0], false); tok("|");
        for (size_t i = 1; i < e.kids.size(); ++i) { if (i > 1) tok(";"); child(*e.kids[i], false); }
        tok("}"); break;
      case TID::NT_ARGUMENTS: list(e.kids, 0, e.kids.size()); break;
      case TID::NT_ARG_DECL: child(*e.kids[0], false); tok(TID::IN); child(*e.kids[1], false); break;
      case TID::NT_FUNC_DEFINITION:
        first(tok("[")); child(*e.kids[0], false); tok("]"); child(*e.kids[1], false); break;
      case TID::PUNC_DEFINE: case TID::PUNC_STRUCT:
        child(*e.kids[0], false); tok(e.id); if (e.kids.size() > 1) child(*e.kids[1], false); break;
      default: first(tok("?")); break;
    }
    // span: from the first token of the node (own token or first child's outermost text) to the current position
    if (start < 0) start = firstChildStart(e, before);
    e.s0 = start; e.s1 = cp;
  }
  static int firstChildStart(const Expr& e, int fallback) {
    if (e.kids.empty()) return fallback;
    const Expr& k = *e.kids[0];
    return k.layers.empty() ? k.s0 : k.layers.back().first;
  }
};

inline std::string render(const EP& e, PrintOpts o = {}) { Printer p(o); p.print(*e); return p.out; }

// ------------------------------------------------------------------------------------------------ syntactic generator
// Generates every shape the grammar admits (types ignored on purpose).
struct SynGen {
  pbt::Ctx& c;
  bool greek = true;          // allow Greek letters in local names
  int64_t maxInt = 2147483647;  // integer literals are drawn from [0, maxInt]
  bool cornerIndices = false;   // also produce projection / filter indices 0, 32767, 32768, 70000 (C04: must be handled or rejected cleanly)
  explicit SynGen(pbt::Ctx& ctx) : c(ctx) {}

  std::string localName() {
    static const std::vector<std::string> ascii = {"a", "b", "x", "y", "z1", "t_2", "_k", "ab", "sigma", "w0"};
    static const std::vector<std::string> gr = {"\xCE\xB1", "\xCE\xB2", "\xCF\x83", "\xCF\x89" "1", "\xCE\xBE" "a", "x\xCE\xB4", "\xCF\x80", "\xCE\xBF"};
    if (greek && c.chance(1, 4)) return c.oneof(gr);
    return c.oneof(ascii);
  }
  EP local() { return mkName(TID::ID_LOCAL, localName()); }
  EP global() {
    static const std::vector<std::string> names = {"X1", "X2", "C1", "S1", "S2", "D1", "D11", "A1", "T1", "X10"};
    return mkName(TID::ID_GLOBAL, c.oneof(names));
  }
  std::vector<int> indices(int maxN) {
    static const std::vector<int> corners = {0, 32767, 32768, 70000};
    std::vector<int> v; const int n = c.ipick(1, maxN);
    for (int i = 0; i < n; ++i) v.push_back((cornerIndices && c.chance(1, 5)) ? c.oneof(corners) : c.ipick(1, c.chance(1, 6) ? 12 : 3));
    return v;
  }

  EP variable(int depth) {  // LOCAL | tuple declaration
    if (depth <= 0 || c.chance(2, 3)) return local();
    std::vector<EP> k; const int n = c.ipick(2, 3);
    for (int i = 0; i < n; ++i) k.push_back(variable(depth - 1));
    return mk(TID::NT_TUPLE_DECL, k);
  }
  EP variablePack(int depth) {
    if (c.chance(3, 4)) return variable(depth);
    std::vector<EP> k; const int n = c.ipick(2, 3);
    for (int i = 0; i < n; ++i) k.push_back(variable(depth));
    return mk(TID::NT_ENUM_DECL, k);
  }

  EP setexpr(int depth) {
    if (depth <= 0) {
      switch (c.ipick(0, 5)) {
        case 0: return local();
        case 1: return global();
        case 2: return mkInt(c.chance(1, 5) ? c.pick(0, maxInt) : c.pick(0, 9));
        case 3: return mk(c.coin() ? TID::LIT_EMPTYSET : TID::LIT_INTSET);
        case 4: return mkName(TID::ID_RADICAL, "R" + std::to_string(c.ipick(1, 3)));
        default: return local();
      }
    }
    const int k = c.ipick(0, 99);
    if (k < 10) return setexpr(0);
    if (k < 48) {  // binary operators (arithmetic, set, product)
      static const std::vector<TID> ops = {TID::PLUS, TID::MINUS, TID::MULTIPLY, TID::UNION, TID::INTERSECTION, TID::SET_MINUS, TID::SYMMINUS, TID::DECART};
      const TID op = c.oneof(ops);
      if (op == TID::DECART) {
        std::vector<EP> ks; const int n = c.ipick(2, 4);
        for (int i = 0; i < n; ++i) ks.push_back(setexpr(depth - 1));
        return mk(TID::DECART, ks);
      }
      return mk(op, {setexpr(depth - 1), setexpr(depth - 1)});
    }
    if (k < 54) { EP e = mk(TID::BOOLEAN, {setexpr(depth - 1)}); return e; }
    if (k < 62) { static const std::vector<TID> fns = {TID::BOOL, TID::DEBOOL, TID::REDUCE, TID::CARD}; return mk(c.oneof(fns), {setexpr(depth - 1)}); }
    if (k < 68) return mkIdx(c.coin() ? TID::BIGPR : TID::SMALLPR, indices(3), {setexpr(depth - 1)});
    if (k < 72) {
      auto idx = indices(3);
      std::vector<EP> ks; const int n = c.coin() ? static_cast<int>(idx.size()) : 1;
      for (int i = 0; i < n; ++i) ks.push_back(setexpr(depth - 1));
      ks.push_back(setexpr(depth - 1));
      return mkIdx(TID::FILTER, idx, ks);
    }
    if (k < 77) { std::vector<EP> ks{mkName(TID::ID_FUNCTION, "F" + std::to_string(c.ipick(1, 3)))}; const int n = c.ipick(1, 3); for (int i = 0; i < n; ++i) ks.push_back(setexpr(depth - 1)); return mk(TID::NT_FUNC_CALL, ks); }
    if (k < 82) { std::vector<EP> ks; const int n = c.ipick(2, 3); for (int i = 0; i < n; ++i) ks.push_back(setexpr(depth - 1)); return mk(TID::NT_TUPLE, ks); }
    if (k < 87) { std::vector<EP> ks; const int n = c.ipick(1, 3); for (int i = 0; i < n; ++i) ks.push_back(setexpr(depth - 1)); return mk(TID::NT_ENUMERATION, ks); }
    if (k < 91) return mk(TID::NT_DECLARATIVE_EXPR, {variable(1), setexpr(depth - 1), logic(depth - 1)});
    if (k < 94) return mk(TID::NT_RECURSIVE_SHORT, {variable(1), setexpr(depth - 1), setexpr(depth - 1)});
    if (k < 97) return mk(TID::NT_RECURSIVE_FULL, {variable(1), setexpr(depth - 1), logic(depth - 1), setexpr(depth - 1)});
    {
      std::vector<EP> ks{setexpr(depth - 1)};
      const int n = c.ipick(1, 3);
      for (int i = 0; i < n; ++i) {
        const int w = c.ipick(0, 2);
        if (w == 0) ks.push_back(mk(TID::ITERATE, {variable(1), setexpr(depth - 1)}));
        else if (w == 1) ks.push_back(mk(TID::ASSIGN, {variable(1), setexpr(depth - 1)}));
        else ks.push_back(logic(depth - 1));
      }
      return mk(TID::NT_IMPERATIVE_EXPR, ks);
    }
  }

  EP logic(int depth) {
    static const std::vector<TID> preds = {TID::IN, TID::NOTIN, TID::SUBSET, TID::SUBSET_OR_EQ, TID::NOTSUBSET, TID::EQUAL, TID::NOTEQUAL,
                                           TID::GREATER, TID::LESSER, TID::GREATER_OR_EQ, TID::LESSER_OR_EQ};
    if (depth <= 0) return mk(c.oneof(preds), {setexpr(0), setexpr(0)});
    const int k = c.ipick(0, 99);
    if (k < 30) return mk(c.oneof(preds), {setexpr(depth - 1), setexpr(depth - 1)});
    if (k < 65) { static const std::vector<TID> ops = {TID::EQUIVALENT, TID::IMPLICATION, TID::OR, TID::AND}; return mk(c.oneof(ops), {logic(depth - 1), logic(depth - 1)}); }
    if (k < 77) return mk(TID::NOT, {logic(depth - 1)});
    if (k < 93) return mk(c.coin() ? TID::FORALL : TID::EXISTS, {variablePack(1), setexpr(depth - 1), logic(depth - 1)});
    { std::vector<EP> ks{mkName(TID::ID_PREDICATE, "P" + std::to_string(c.ipick(1, 3)))}; const int n = c.ipick(1, 3); for (int i = 0; i < n; ++i) ks.push_back(setexpr(depth - 1)); return mk(TID::NT_FUNC_CALL, ks); }
  }

  EP functionDefinition(int depth) {
    std::vector<EP> args; const int n = c.ipick(1, 3);
    for (int i = 0; i < n; ++i) args.push_back(mk(TID::NT_ARG_DECL, {local(), setexpr(depth > 0 ? 1 : 0)}));
    return mk(TID::NT_FUNC_DEFINITION, {mk(TID::NT_ARGUMENTS, args), c.coin() ? setexpr(depth) : logic(depth)});
  }

  // a whole expression: plain logic/setexpr, function definition, or a global declaration
  EP expression(int depth) {
    const int k = c.ipick(0, 99);
    if (k < 45) return setexpr(depth);
    if (k < 80) return logic(depth);
    if (k < 86) return functionDefinition(depth);
    static const std::vector<std::pair<TID, const char*>> heads = {{TID::ID_GLOBAL, "X1"}, {TID::ID_GLOBAL, "D1"}, {TID::ID_GLOBAL, "S1"}, {TID::ID_FUNCTION, "F1"}, {TID::ID_PREDICATE, "P1"}, {TID::ID_GLOBAL, "A1"}};
    const auto& h = c.oneof(heads);
    EP head = mkName(h.first, h.second);
    const int w = c.ipick(0, 9);
    if (w == 0) return mk(TID::PUNC_DEFINE, {head});
    EP body = w < 3 ? functionDefinition(depth) : (c.coin() ? setexpr(depth) : logic(depth));
    return mk(c.chance(1, 4) ? TID::PUNC_STRUCT : TID::PUNC_DEFINE, {head, body});
  }
};

}  // namespace rs
