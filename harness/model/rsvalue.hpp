// rsvalue.hpp - model M3 (values): an independent reference model of RSLang structured data.
//
//   rsv::Type    basic element of a named base set / integer, tuple of types, set of a type
//   rsv::Value   Int | Tuple(vector<Value>) | Set(vector<Value> sorted by the canonical order rsv::cmp, unique)
//
// The model is plain mathematics on std::vector; it never calls the code under test.  Only the
// bridge functions at the end of the file (toLib / realize / fromLib / conforms) touch the library:
//
//   genType, genValue         random typifications / values of a type drawn from a pbt::Ctx
//   plan + realize            model value -> ccl::object::StructuredData through a randomly chosen construction
//                             (element order shuffled, duplicates, Factory::Set vs repeated AddElement, SetV,
//                             Singleton, Factory::Boolean / Factory::Decartian when the value is a full power
//                             set / product).  plan() only draws choices, realize() only calls the library, so
//                             a harness can render the plan into ctx.show before the library is touched.
//   fromLib                   library value -> model value by iterating (internal order is irrelevant)
//   conforms                  deep structural type check of a library value against a Type
//   setUnion ... product      the set-theoretic reference operations
//   allValues                 every value of a type over a finite universe (exhaustive sub-spaces)
//
// Conventions shared with the library (documented by upstream tests, not taken from its code):
//   * a "tuple" of one component is that component (Factory::Tuple, Typification::Tuple);
//   * tuple indices in projections are 1-based (Typification::PR_START).
#pragma once

#include "common/pbt.hpp"

#include "ccl/rslang/StructuredData.h"
#include "ccl/rslang/Typification.h"

#include <algorithm>
#include <cstdint>
#include <optional>
#include <string>
#include <vector>

namespace rsv {

namespace obj = ccl::object;
namespace rl = ccl::rslang;

// ================================================================================================ types
struct Type {
  enum Kind { BASE, INT, TUPLE, SET } kind = BASE;
  std::string name = "X1";   // BASE: name of the base set ("X1", "X2", "C1"); INT: "Z"
  std::vector<Type> kids;    // TUPLE: >= 2 component types; SET: exactly one (the element type)

  static Type base(std::string n) { Type t; t.kind = BASE; t.name = std::move(n); return t; }
  static Type integer() { Type t; t.kind = INT; t.name = "Z"; return t; }
  static Type set(Type elem) { Type t; t.kind = SET; t.name.clear(); t.kids.push_back(std::move(elem)); return t; }
  // a tuple of one component is the component itself
  static Type tuple(std::vector<Type> comps) {
    if (comps.size() == 1) return comps.front();
    Type t; t.kind = TUPLE; t.name.clear(); t.kids = std::move(comps); return t;
  }
  bool isBasic() const { return kind == BASE || kind == INT; }
  bool isSet() const { return kind == SET; }
  bool isTuple() const { return kind == TUPLE; }
  const Type& elem() const { return kids.front(); }  // SET only
};

inline bool operator==(const Type& a, const Type& b) {
  if (a.kind != b.kind) return false;
  if (a.isBasic()) return a.name == b.name;
  return a.kids == b.kids;
}
inline bool operator!=(const Type& a, const Type& b) { return !(a == b); }

// ASCII rendering, e.g. B(X1*B(Z))
inline std::string str(const Type& t) {
  switch (t.kind) {
    case Type::BASE: case Type::INT: return t.name;
    case Type::SET: return "B(" + str(t.elem()) + ")";
    case Type::TUPLE: {
      std::string o;
      for (size_t i = 0; i < t.kids.size(); ++i) { if (i) o += "*"; o += t.kids[i].isTuple() ? "(" + str(t.kids[i]) + ")" : str(t.kids[i]); }
      return o;
    }
  }
  return "?";
}

// nesting of set / tuple constructors (basic = 0)
inline int depth(const Type& t) {
  int d = 0;
  for (const auto& k : t.kids) d = std::max(d, depth(k));
  return t.isBasic() ? 0 : d + 1;
}
inline bool containsSet(const Type& t) {
  if (t.isSet()) return true;
  for (const auto& k : t.kids) if (containsSet(k)) return true;
  return false;
}
// a set type somewhere below a tuple constructor
inline bool setInsideTuple(const Type& t, bool underTuple = false) {
  if (t.isSet() && underTuple) return true;
  for (const auto& k : t.kids) if (setInsideTuple(k, underTuple || t.isTuple())) return true;
  return false;
}

// Header of the compact encoding as documented by upstream (testSDCompact.CreateHeader): pre-order walk,
// "B" per set constructor, the base name per basic type, nothing for tuples.
inline void headerInto(const Type& t, std::vector<std::string>& out) {
  if (t.isBasic()) { out.push_back(t.name); return; }
  if (t.isSet()) out.emplace_back("B");
  for (const auto& k : t.kids) headerInto(k, out);
}
inline std::vector<std::string> header(const Type& t) { std::vector<std::string> h; headerInto(t, h); return h; }

// Random typification: nesting depth <= maxDepth, tuple arity <= maxArity.  Pick 0 everywhere = "X1".
inline Type genType(pbt::Ctx& c, int maxDepth = 4, int maxArity = 3) {
  const int k = maxDepth <= 0 ? 0 : c.ipick(0, 5);
  if (k <= 1) {
    static const std::vector<std::string> names{"X1", "X2", "C1", "Z"};
    const auto& n = c.oneof(names);
    return n == "Z" ? Type::integer() : Type::base(n);
  }
  if (k <= 3) return Type::set(genType(c, maxDepth - 1, maxArity));
  const int arity = c.ipick(2, std::max(2, maxArity));
  std::vector<Type> comps;
  for (int i = 0; i < arity; ++i) comps.push_back(genType(c, maxDepth - 1, maxArity));
  return Type::tuple(std::move(comps));
}
// a random set type (for the set-algebra operations): B(genType(depth-1))
inline Type genSetType(pbt::Ctx& c, int maxDepth = 4, int maxArity = 3) { return Type::set(genType(c, maxDepth - 1, maxArity)); }

// ================================================================================================ values
struct Value {
  enum Kind { INT, TUPLE, SET } kind = INT;
  int64_t num = 0;
  std::vector<Value> items;  // TUPLE: components (>= 2); SET: elements sorted by cmp, no duplicates

  bool isInt() const { return kind == INT; }
  bool isTuple() const { return kind == TUPLE; }
  bool isSet() const { return kind == SET; }
  size_t card() const { return items.size(); }  // SET only
};

// Canonical total order of the model: kind, then  INT by number, TUPLE by arity then lexicographically,
// SET by cardinality then lexicographically over the sorted elements.  (The property does not prescribe the
// library's order; this one is only used to normalise model sets.)
inline int cmp(const Value& a, const Value& b) {
  if (a.kind != b.kind) return a.kind < b.kind ? -1 : 1;
  if (a.kind == Value::INT) return a.num < b.num ? -1 : a.num > b.num ? 1 : 0;
  if (a.items.size() != b.items.size()) return a.items.size() < b.items.size() ? -1 : 1;
  for (size_t i = 0; i < a.items.size(); ++i) if (const int r = cmp(a.items[i], b.items[i]); r != 0) return r;
  return 0;
}
inline bool operator==(const Value& a, const Value& b) { return cmp(a, b) == 0; }
inline bool operator!=(const Value& a, const Value& b) { return cmp(a, b) != 0; }
inline bool operator<(const Value& a, const Value& b) { return cmp(a, b) < 0; }

inline Value mkInt(int64_t n) { Value v; v.kind = Value::INT; v.num = n; return v; }
inline Value mkTuple(std::vector<Value> comps) {
  if (comps.size() == 1) return comps.front();
  Value v; v.kind = Value::TUPLE; v.items = std::move(comps); return v;
}
inline Value mkSet(std::vector<Value> elems) {
  Value v; v.kind = Value::SET;
  std::sort(elems.begin(), elems.end());
  elems.erase(std::unique(elems.begin(), elems.end()), elems.end());
  v.items = std::move(elems);
  return v;
}
inline Value emptySet() { Value v; v.kind = Value::SET; return v; }

// same text form as upstream documents for ToString: 3, (3, (3, 5)), {3, 5}, {}
inline std::string str(const Value& v) {
  if (v.isInt()) return std::to_string(v.num);
  std::string o(1, v.isTuple() ? '(' : '{');
  for (size_t i = 0; i < v.items.size(); ++i) { if (i) o += ", "; o += str(v.items[i]); }
  return o + (v.isTuple() ? ')' : '}');
}
// nesting of set / tuple constructors in the value (an integer is 0, {} is 1, {{}} is 2, {(1,2)} is 2)
inline int depth(const Value& v) {
  if (v.isInt()) return 0;
  int d = 0;
  for (const auto& k : v.items) d = std::max(d, depth(k));
  return d + 1;
}
// an empty set somewhere below the top level
inline bool hasInnerEmpty(const Value& v, bool top = true) {
  if (v.isSet() && v.items.empty()) return !top;
  for (const auto& k : v.items) if (hasInnerEmpty(k, false)) return true;
  return false;
}
// a set (possibly empty) somewhere inside a tuple
inline bool hasSetInsideTuple(const Value& v, bool underTuple = false) {
  if (v.isSet() && underTuple) return true;
  for (const auto& k : v.items) if (hasSetInsideTuple(k, underTuple || v.isTuple())) return true;
  return false;
}
inline size_t nodeCount(const Value& v) { size_t n = 1; for (const auto& k : v.items) n += nodeCount(k); return n; }

// model-level typing judgment
inline bool hasType(const Value& v, const Type& t) {
  switch (t.kind) {
    case Type::BASE: case Type::INT: return v.isInt();
    case Type::TUPLE:
      if (!v.isTuple() || v.items.size() != t.kids.size()) return false;
      for (size_t i = 0; i < v.items.size(); ++i) if (!hasType(v.items[i], t.kids[i])) return false;
      return true;
    case Type::SET:
      if (!v.isSet()) return false;
      for (const auto& e : v.items) if (!hasType(e, t.elem())) return false;
      return true;
  }
  return false;
}

// ------------------------------------------------------------------------------------------------ reference operations
inline bool contains(const Value& s, const Value& e) { return std::binary_search(s.items.begin(), s.items.end(), e); }
inline bool isSubset(const Value& a, const Value& b) { for (const auto& e : a.items) if (!contains(b, e)) return false; return true; }
inline Value setUnion(const Value& a, const Value& b) { auto v = a.items; v.insert(v.end(), b.items.begin(), b.items.end()); return mkSet(std::move(v)); }
inline Value setIntersect(const Value& a, const Value& b) { std::vector<Value> v; for (const auto& e : a.items) if (contains(b, e)) v.push_back(e); return mkSet(std::move(v)); }
inline Value setDiff(const Value& a, const Value& b) { std::vector<Value> v; for (const auto& e : a.items) if (!contains(b, e)) v.push_back(e); return mkSet(std::move(v)); }
inline Value setSymDiff(const Value& a, const Value& b) { return setUnion(setDiff(a, b), setDiff(b, a)); }
// Pr_{i1,..,ik}(S) for a set of tuples, 1-based indices; one index yields the bare components
inline Value projection(const Value& s, const std::vector<int>& indices) {
  std::vector<Value> v;
  for (const auto& t : s.items) {
    std::vector<Value> comps;
    for (const int i : indices) comps.push_back(t.items.at(static_cast<size_t>(i - 1)));
    v.push_back(mkTuple(std::move(comps)));
  }
  return mkSet(std::move(v));
}
// red(S): union of the elements of a set of sets
inline Value reduce(const Value& s) { std::vector<Value> v; for (const auto& e : s.items) v.insert(v.end(), e.items.begin(), e.items.end()); return mkSet(std::move(v)); }
inline Value singleton(const Value& e) { return mkSet({e}); }
// debool(S) is defined only for one-element sets
inline std::optional<Value> debool(const Value& s) { if (s.items.size() != 1) return std::nullopt; return s.items.front(); }
inline Value powerset(const Value& s) {
  const size_t n = s.items.size();
  std::vector<Value> all;
  for (uint64_t m = 0; m < (uint64_t{1} << n); ++m) {
    std::vector<Value> sub;
    for (size_t i = 0; i < n; ++i) if (m >> i & 1) sub.push_back(s.items[i]);
    all.push_back(mkSet(std::move(sub)));
  }
  return mkSet(std::move(all));
}
// F1 x ... x Fk (k >= 2): the set of all tuples
inline Value product(const std::vector<Value>& factors) {
  std::vector<std::vector<Value>> rows{{}};
  for (const auto& f : factors) {
    std::vector<std::vector<Value>> next;
    for (const auto& r : rows) for (const auto& e : f.items) { auto x = r; x.push_back(e); next.push_back(std::move(x)); }
    rows = std::move(next);
  }
  std::vector<Value> v;
  for (auto& r : rows) v.push_back(mkTuple(std::move(r)));
  return mkSet(std::move(v));
}

// S is the full power set of some base?  (returns the base)
inline std::optional<Value> powersetBase(const Value& s) {
  if (!s.isSet() || s.items.empty()) return std::nullopt;
  for (const auto& e : s.items) if (!e.isSet()) return std::nullopt;
  const Value base = reduce(s);
  if (base.items.size() > 20 || s.items.size() != (size_t{1} << base.items.size())) return std::nullopt;
  return base;  // 2^n distinct subsets of an n-element set are all of them
}
// S is a full Cartesian product of >= 2 non-empty factors?  (returns the factors)
inline std::optional<std::vector<Value>> productFactors(const Value& s) {
  if (!s.isSet() || s.items.empty() || !s.items.front().isTuple()) return std::nullopt;
  const size_t k = s.items.front().items.size();
  for (const auto& e : s.items) if (!e.isTuple() || e.items.size() != k) return std::nullopt;
  std::vector<Value> factors;
  size_t total = 1;
  for (size_t i = 0; i < k; ++i) { factors.push_back(projection(s, {static_cast<int>(i + 1)})); total *= factors.back().items.size(); }
  if (total != s.items.size()) return std::nullopt;
  return factors;
}

// every value of type t whose integers come from `universe`; nullopt if there are more than `cap`
inline std::optional<std::vector<Value>> allValues(const Type& t, const std::vector<int64_t>& universe, size_t cap = 70000) {
  std::vector<Value> out;
  if (t.isBasic()) { for (auto u : universe) out.push_back(mkInt(u)); return out; }
  if (t.isTuple()) {
    std::vector<std::vector<Value>> rows{{}};
    for (const auto& k : t.kids) {
      const auto kv = allValues(k, universe, cap);
      if (!kv || rows.size() * kv->size() > cap) return std::nullopt;
      std::vector<std::vector<Value>> next;
      for (const auto& r : rows) for (const auto& e : *kv) { auto x = r; x.push_back(e); next.push_back(std::move(x)); }
      rows = std::move(next);
    }
    for (auto& r : rows) out.push_back(mkTuple(std::move(r)));
    return out;
  }
  const auto ev = allValues(t.elem(), universe, cap);
  if (!ev || ev->size() > 16 || (size_t{1} << ev->size()) > cap) return std::nullopt;
  Value base = mkSet(*ev);
  return powerset(base).items;
}

// ------------------------------------------------------------------------------------------------ generation
struct GenOpts {
  int maxSet = 4;        // generated element count of an enumerated set (before duplicates collapse)
  int ids = 3;           // base elements are 1..ids, integers -1..ids: small, so that collisions happen
  int emptyPct = 12;     // chance of {} at every set position
  int shapedPct = 12;    // chance of a deliberate full power set / full product where the type admits one
  bool specials = false; // sprinkle 0, negatives, the unknown-count marker value and int32 limits into basic positions
};

inline int64_t genBasic(pbt::Ctx& c, const Type& t, const GenOpts& o) {
  if (o.specials && c.chance(1, 12)) {
    static const std::vector<int64_t> sp{0, -1, 10000000, 9999999, 10000001, INT32_MAX, INT32_MIN, 100};
    return c.oneof(sp);
  }
  return t.kind == Type::INT ? c.pick(-1, o.ids) : c.pick(1, o.ids);
}

inline Value genValue(pbt::Ctx& c, const Type& t, const GenOpts& o = {}) {
  switch (t.kind) {
    case Type::BASE: case Type::INT: return mkInt(genBasic(c, t, o));
    case Type::TUPLE: {
      std::vector<Value> comps;
      for (const auto& k : t.kids) comps.push_back(genValue(c, k, o));
      return mkTuple(std::move(comps));
    }
    case Type::SET: {
      const int r = c.ipick(0, 99);
      if (r >= 100 - o.emptyPct) return emptySet();
      if (r >= 100 - o.emptyPct - o.shapedPct) {
        GenOpts small = o; small.maxSet = std::min(o.maxSet, 3); small.shapedPct = 0;
        if (t.elem().isSet()) return powerset(genValue(c, t.elem(), small));
        if (t.elem().isTuple()) {
          std::vector<Value> factors;
          for (const auto& k : t.elem().kids) factors.push_back(genValue(c, Type::set(k), small));
          return product(factors);
        }
      }
      const int n = c.ipick(0, o.maxSet);
      std::vector<Value> elems;
      for (int i = 0; i < n; ++i) elems.push_back(genValue(c, t.elem(), o));
      return mkSet(std::move(elems));
    }
  }
  return mkInt(0);
}

// A value "near" v of the same type: one element removed / added / replaced somewhere (for inequality and order tests)
inline Value genNeighbour(pbt::Ctx& c, const Value& v, const Type& t, const GenOpts& o = {}) {
  if (t.isBasic()) return mkInt(genBasic(c, t, o));
  if (t.isTuple()) {
    auto comps = v.items;
    const size_t i = static_cast<size_t>(c.pick(0, static_cast<int64_t>(comps.size()) - 1));
    comps[i] = genNeighbour(c, comps[i], t.kids[i], o);
    return mkTuple(std::move(comps));
  }
  auto elems = v.items;
  const int how = elems.empty() ? 1 : c.ipick(0, 3);
  if (how == 0) elems.erase(elems.begin() + c.pick(0, static_cast<int64_t>(elems.size()) - 1));
  else if (how == 1) elems.push_back(genValue(c, t.elem(), o));
  else if (how == 2) elems.back() = genNeighbour(c, elems.back(), t.elem(), o);  // differs in the last element
  else { const size_t i = static_cast<size_t>(c.pick(0, static_cast<int64_t>(elems.size()) - 1)); elems[i] = genNeighbour(c, elems[i], t.elem(), o); }
  return mkSet(std::move(elems));
}

// ================================================================================================ bridge to the library
inline rl::Typification toLib(const Type& t) {
  switch (t.kind) {
    case Type::BASE: return rl::Typification(t.name);
    case Type::INT: return rl::Typification::Integer();
    case Type::SET: return toLib(t.elem()).Bool();
    case Type::TUPLE: {
      std::vector<rl::Typification> comps;
      for (const auto& k : t.kids) comps.push_back(toLib(k));
      return rl::Typification::Tuple(std::move(comps));
    }
  }
  return rl::Typification("X1");
}

// ------------------------------------------------------------------------------------------------ construction plans
enum class Repr { EAGER, MIXED, LAZY };  // never lazy / random / Boolean+Decartian wherever the value admits them

struct Plan {
  enum Style {
    VAL,        // Factory::Val
    TUPLE,      // Factory::Tuple(parts)
    TUPLE_V,    // Factory::TupleV (all components integers)
    EMPTY,      // Factory::EmptySet()
    DEFAULT,    // default-constructed StructuredData (documented to be the empty set)
    SET_LIST,   // Factory::Set(parts)  - parts in insertion order, may repeat equal elements
    SET_ADD,    // EmptySet + ModifyB().AddElement(part) per part
    SET_V,      // Factory::SetV (all elements integers)
    SINGLETON,  // Factory::Singleton(parts[0])
    BOOLEAN,    // Factory::Boolean(parts[0])          lazy power set
    DECARTIAN   // Factory::Decartian(parts)           lazy product
  } style = VAL;
  int64_t num = 0;
  std::vector<Plan> parts;
};

struct BuildLog {
  int lazyNodes = 0;      // Boolean / Decartian constructions used
  int setNodes = 0;
  bool shuffled = false, duplicates = false, addElement = false;
};

inline std::string str(const Plan& p) {
  static const char* names[] = {"", "T", "TV", "Empty", "Default", "Set", "Add", "SetV", "Single", "Bool", "Dec"};
  if (p.style == Plan::VAL) return std::to_string(p.num);
  std::string o = names[p.style];
  if (p.style == Plan::EMPTY || p.style == Plan::DEFAULT) return o;
  o += "[";
  for (size_t i = 0; i < p.parts.size(); ++i) { if (i) o += " "; o += str(p.parts[i]); }
  return o + "]";
}

inline Plan plan(pbt::Ctx& c, const Value& v, Repr repr = Repr::MIXED, BuildLog* log = nullptr) {
  Plan p;
  if (v.isInt()) { p.style = Plan::VAL; p.num = v.num; return p; }
  if (v.isTuple()) {
    bool allInt = true;
    for (const auto& k : v.items) allInt = allInt && k.isInt();
    p.style = allInt && c.chance(1, 4) ? Plan::TUPLE_V : Plan::TUPLE;
    for (const auto& k : v.items) p.parts.push_back(plan(c, k, repr, log));
    return p;
  }
  if (log) ++log->setNodes;
  if (v.items.empty()) { p.style = c.chance(1, 6) ? Plan::DEFAULT : Plan::EMPTY; return p; }
  if (repr != Repr::EAGER) {
    const bool want = repr == Repr::LAZY || c.chance(1, 2);
    if (want) {
      if (const auto base = powersetBase(v)) {
        p.style = Plan::BOOLEAN; p.parts.push_back(plan(c, *base, repr, log));
        if (log) ++log->lazyNodes;
        return p;
      }
      if (const auto factors = productFactors(v)) {
        p.style = Plan::DECARTIAN;
        for (const auto& f : *factors) p.parts.push_back(plan(c, f, repr, log));
        if (log) ++log->lazyNodes;
        return p;
      }
    }
  }
  // enumerated: 0 = Factory::Set in canonical order
  const int style = c.ipick(0, 5);
  if (style == 5 && v.items.size() == 1) { p.style = Plan::SINGLETON; p.parts.push_back(plan(c, v.items.front(), repr, log)); return p; }
  std::vector<size_t> order;
  for (size_t i = 0; i < v.items.size(); ++i) order.push_back(i);
  if (style >= 1) {
    if (style >= 2) {  // shuffle
      for (size_t i = order.size(); i > 1; --i) std::swap(order[i - 1], order[static_cast<size_t>(c.pick(0, static_cast<int64_t>(i) - 1))]);
      if (log && order.size() > 1) log->shuffled = true;
    }
    if (style >= 3) {  // duplicates at random positions (each is planned again: an equal element, built differently)
      const int extra = c.ipick(1, 2);
      for (int i = 0; i < extra; ++i) {
        const size_t which = static_cast<size_t>(c.pick(0, static_cast<int64_t>(v.items.size()) - 1));
        order.insert(order.begin() + c.pick(0, static_cast<int64_t>(order.size())), which);
      }
      if (log) log->duplicates = true;
    }
  }
  bool allInt = true;
  for (const auto& k : v.items) allInt = allInt && k.isInt();
  if (style == 1 || style == 4) { p.style = Plan::SET_ADD; if (log) log->addElement = true; }
  else if (allInt && c.chance(1, 3)) p.style = Plan::SET_V;
  else p.style = Plan::SET_LIST;
  for (const size_t i : order) p.parts.push_back(plan(c, v.items[i], repr, log));
  return p;
}

// plain construction without choices: Factory::Set over the canonical element order
inline Plan planCanonical(const Value& v) {
  Plan p;
  if (v.isInt()) { p.style = Plan::VAL; p.num = v.num; return p; }
  p.style = v.isTuple() ? Plan::TUPLE : v.items.empty() ? Plan::EMPTY : Plan::SET_LIST;
  for (const auto& k : v.items) p.parts.push_back(planCanonical(k));
  return p;
}

inline obj::StructuredData realize(const Plan& p) {
  using obj::Factory;
  std::vector<obj::StructuredData> parts;
  if (p.style != Plan::TUPLE_V && p.style != Plan::SET_V && p.style != Plan::SET_ADD) for (const auto& k : p.parts) parts.push_back(realize(k));
  switch (p.style) {
    case Plan::VAL: return Factory::Val(static_cast<obj::DataID>(p.num));
    case Plan::TUPLE: return Factory::Tuple(parts);
    case Plan::TUPLE_V: case Plan::SET_V: {
      std::vector<obj::DataID> ids;
      for (const auto& k : p.parts) ids.push_back(static_cast<obj::DataID>(k.num));
      return p.style == Plan::TUPLE_V ? Factory::TupleV(ids) : Factory::SetV(ids);
    }
    case Plan::EMPTY: return Factory::EmptySet();
    case Plan::DEFAULT: return obj::StructuredData{};
    case Plan::SET_LIST: return Factory::Set(parts);
    case Plan::SET_ADD: {
      auto r = Factory::EmptySet();
      for (const auto& k : p.parts) r.ModifyB().AddElement(realize(k));
      return r;
    }
    case Plan::SINGLETON: return Factory::Singleton(parts.front());
    case Plan::BOOLEAN: return Factory::Boolean(parts.front());
    case Plan::DECARTIAN: return Factory::Decartian(parts);
  }
  return Factory::EmptySet();
}
inline obj::StructuredData buildCanonical(const Value& v) { return realize(planCanonical(v)); }

// ------------------------------------------------------------------------------------------------ library -> model
struct ReadInfo {
  bool duplicate = false;     // some set yielded the same element twice while iterating
  bool cardMismatch = false;  // some set yielded a number of elements different from its Cardinality()
  bool truncated = false;     // iteration stopped at the safety limit
  std::string where;          // rendering of the first offending set
  bool clean() const { return !duplicate && !cardMismatch && !truncated; }
};

// Converts by iterating, so the internal order / representation of the library value is irrelevant.
// Every element is copied out of the iterator before anything else is done with it.
inline Value fromLib(const obj::StructuredData& d, ReadInfo* info = nullptr, size_t limit = 200000) {
  if (d.IsElement()) return mkInt(d.E().Value());
  if (d.IsTuple()) {
    std::vector<Value> comps;
    const int arity = d.T().Arity();
    for (int i = 0; i < arity; ++i) comps.push_back(fromLib(d.T().Component(static_cast<rl::Index>(rl::Typification::PR_START + i)), info, limit));
    Value v; v.kind = Value::TUPLE; v.items = std::move(comps);  // keep arity as reported (no collapsing)
    return v;
  }
  const auto& set = d.B();
  std::vector<Value> elems;
  size_t n = 0;
  const auto end = set.end();
  for (auto it = set.begin(); it != end; ++it) {
    if (++n > limit) { if (info) { info->truncated = true; if (info->where.empty()) info->where = "iteration exceeded limit"; } break; }
    const obj::StructuredData e = *it;
    elems.push_back(fromLib(e, info, limit));
  }
  Value v = mkSet(elems);
  if (info) {
    if (v.items.size() != elems.size() && !info->duplicate) { info->duplicate = true; if (info->where.empty()) info->where = "duplicate while iterating " + str(v); }
    if (static_cast<int64_t>(n) != static_cast<int64_t>(set.Cardinality()) && !info->cardMismatch) {
      info->cardMismatch = true;
      if (info->where.empty()) info->where = "iterated " + std::to_string(n) + " elements, Cardinality()=" + std::to_string(set.Cardinality()) + " for " + str(v);
    }
  }
  return v;
}

// Deep structural check of a library value against a type: every element of every set, every tuple component.
// Returns "" when the value conforms, otherwise a description of the first mismatch.
inline std::string conforms(const obj::StructuredData& d, const Type& t, const std::string& path = "value", size_t limit = 200000) {
  switch (t.kind) {
    case Type::BASE: case Type::INT:
      return d.IsElement() ? "" : path + " is not a basic element (type " + str(t) + ")";
    case Type::TUPLE: {
      if (!d.IsTuple()) return path + " is not a tuple (type " + str(t) + ")";
      if (d.T().Arity() != static_cast<int>(t.kids.size())) return path + " has arity " + std::to_string(d.T().Arity()) + " (type " + str(t) + ")";
      for (size_t i = 0; i < t.kids.size(); ++i) {
        const auto r = conforms(d.T().Component(static_cast<rl::Index>(rl::Typification::PR_START + i)), t.kids[i], path + "." + std::to_string(i + 1), limit);
        if (!r.empty()) return r;
      }
      return "";
    }
    case Type::SET: {
      if (!d.IsCollection()) return path + " is not a set (type " + str(t) + ")";
      size_t n = 0;
      const auto end = d.B().end();
      for (auto it = d.B().begin(); it != end; ++it) {
        if (++n > limit) return path + " iteration exceeded limit";
        const obj::StructuredData e = *it;
        const auto r = conforms(e, t.elem(), path + "[" + std::to_string(n - 1) + "]", limit);
        if (!r.empty()) return r;
      }
      if (static_cast<int64_t>(n) != static_cast<int64_t>(d.B().Cardinality())) return path + " iterates " + std::to_string(n) + " elements but Cardinality()=" + std::to_string(d.B().Cardinality());
      return "";
    }
  }
  return "";
}

}  // namespace rsv
