// reftext.hpp - reference model M6: text references "@{...}" in UTF-8 texts.
//
// Written from the documentation of the reference grammar (header comments, the upstream unit tests
// testReference / testRefsManager / testManagedText / testMorphology / testLexicalTerm) - it never calls the
// library under test.  It provides
//   * code-point helpers over std::string (UTF-8, well-formed input only),
//   * classify(): the well-formedness rules of one candidate "@{...}" and its canonical spelling,
//   * scan():     the top-level candidate occurrences of a text (brace counting), with code-point ranges,
//   * candidateAt(): validation of an occurrence reported at a given position (for nested occurrences),
//   * the documented resolution rules (entity / collaboration) over a small term-context model,
//   * a segment matcher that compares a written-back text with "gaps + canonical spellings"
//     (the order of the tags inside an entity reference is not pinned by the documentation: upstream's own
//     test accepts "sing,datv" or "datv,sing"; any permutation of the exact tag set is accepted),
//   * Shadow: a shadow text + reference list for Insert / EraseIn histories, with the documented
//     accept / refuse rules.
//
// Where the documentation is silent and several answers are defensible the model answers Kind::Unspecified
// (classification) or Expect::Free (edit acceptance); the harness skips the comparison and counts it.
#pragma once

#include <cstdint>
#include <initializer_list>
#include <map>
#include <optional>
#include <set>
#include <string>
#include <string_view>
#include <utility>
#include <vector>

namespace m6 {

// ------------------------------------------------------------------------------------------------ UTF-8
inline size_t cpLen(unsigned char b) { return b < 0x80 ? 1 : (b >> 5) == 6 ? 2 : (b >> 4) == 14 ? 3 : 4; }

// length of the well-formed UTF-8 sequence starting at s[i] (RFC 3629: no overlong forms, no surrogates, <= U+10FFFF), 0 if none
inline size_t strictSeqLen(const std::string& s, size_t i) {
  const auto at = [&](size_t k) -> unsigned { return k < s.size() ? static_cast<unsigned char>(s[k]) : 0x100u; };
  const auto cont = [&](size_t k) { return (at(k) & ~0x3Fu) == 0x80u; };
  const unsigned c = at(i);
  if (c < 0x80) return 1;
  if (c >= 0xC2 && c <= 0xDF) return cont(i + 1) ? 2 : 0;
  if (c >= 0xE0 && c <= 0xEF) {
    if (!cont(i + 1) || !cont(i + 2)) return 0;
    if (c == 0xE0 && at(i + 1) < 0xA0) return 0;   // overlong
    if (c == 0xED && at(i + 1) >= 0xA0) return 0;  // surrogate
    return 3;
  }
  if (c >= 0xF0 && c <= 0xF4) {
    if (!cont(i + 1) || !cont(i + 2) || !cont(i + 3)) return 0;
    if (c == 0xF0 && at(i + 1) < 0x90) return 0;   // overlong
    if (c == 0xF4 && at(i + 1) >= 0x90) return 0;  // beyond U+10FFFF
    return 4;
  }
  return 0;
}
inline bool validUtf8(const std::string& s) {
  for (size_t i = 0; i < s.size();) { const size_t n = strictSeqLen(s, i); if (n == 0) return false; i += n; }
  return true;
}

// replace every byte that is not part of a well-formed sequence by '?'
inline std::string sanitizeUtf8(const std::string& s) {
  std::string o;
  for (size_t i = 0; i < s.size();) {
    const size_t n = strictSeqLen(s, i);
    if (n) { o.append(s, i, n); i += n; } else { o += '?'; ++i; }
  }
  return o;
}

// byte offset of every code point, plus s.size() as the last entry
inline std::vector<size_t> cpOffsets(const std::string& s) {
  std::vector<size_t> o;
  size_t i = 0;
  while (i < s.size()) { o.push_back(i); i += cpLen(static_cast<unsigned char>(s[i])); }
  o.push_back(s.size());
  return o;
}
inline int cpCount(const std::string& s) { return static_cast<int>(cpOffsets(s).size()) - 1; }
inline std::vector<std::string> cpSplit(const std::string& s) {
  std::vector<std::string> r;
  const auto o = cpOffsets(s);
  for (size_t i = 0; i + 1 < o.size(); ++i) r.push_back(s.substr(o[i], std::min(o[i + 1], s.size()) - o[i]));
  return r;
}
// code points [a,b) of s ("" when out of range)
inline std::string cpSubstr(const std::string& s, int a, int b) {
  const auto o = cpOffsets(s);
  const int n = static_cast<int>(o.size()) - 1;
  if (a < 0 || b > n || a >= b) return {};
  return s.substr(o[a], std::min(o[b], s.size()) - o[a]);
}
inline bool hasMultibyte(const std::string& s) { for (unsigned char c : s) if (c >= 0x80) return true; return false; }

// ------------------------------------------------------------------------------------------------ grammemes
// documented grammeme names in enumeration order (the order of the canonical spelling produced upstream)
inline const std::vector<std::string>& tagNames() {
  static const std::vector<std::string> t = {
      "NOUN", "NPRO", "INFN", "VERB", "ADJF", "ADJS", "PRTF", "PRTS", "ADVB", "GRND", "COMP", "PRED", "NUMR", "CONJ", "INTJ", "PRCL", "PREP", "PNCT",
      "pres", "past", "futr", "1per", "2per", "3per", "sing", "plur", "masc", "femn", "neut", "nomn", "gent", "datv", "ablt", "accs", "loct"};
  return t;
}
inline int tagIndex(std::string_view name) {
  if (name.size() != 4) return -1;  // every grammeme name has four characters
  const auto& t = tagNames();
  for (size_t i = 0; i < t.size(); ++i) if (t[i] == name) return static_cast<int>(i);
  return -1;
}
// a set of grammeme indices (0..34) as a bit mask; iteration is in enumeration order
class TagSet {
  uint64_t bits = 0;

public:
  TagSet() = default;
  TagSet(std::initializer_list<int> init) { for (int t : init) insert(t); }
  struct Inserted { bool second; };
  Inserted insert(int t) { if (t < 0 || t > 63) return {false}; const uint64_t b = uint64_t{1} << t; const bool fresh = !(bits & b); bits |= b; return {fresh}; }
  size_t count(int t) const { return t >= 0 && t < 64 && ((bits >> t) & 1) ? 1 : 0; }
  size_t size() const { size_t n = 0; for (uint64_t b = bits; b; b &= b - 1) ++n; return n; }
  bool empty() const { return bits == 0; }
  bool operator==(const TagSet& o) const { return bits == o.bits; }
  bool operator!=(const TagSet& o) const { return bits != o.bits; }
  bool operator<(const TagSet& o) const { return bits < o.bits; }
  struct Iter {
    uint64_t rest;
    int operator*() const { return __builtin_ctzll(rest); }
    Iter& operator++() { rest &= rest - 1; return *this; }
    bool operator!=(const Iter& o) const { return rest != o.rest; }
  };
  Iter begin() const { return {bits}; }
  Iter end() const { return {0}; }
};
inline std::string tagsString(const TagSet& tags) {
  std::string o;
  for (int t : tags) { if (!o.empty()) o += ','; o += tagNames()[static_cast<size_t>(t)]; }
  return o;
}

inline bool isSpaceC(char ch) { return ch == ' ' || ch == '\t' || ch == '\n' || ch == '\v' || ch == '\f' || ch == '\r'; }
inline bool isDigitC(char ch) { return ch >= '0' && ch <= '9'; }
inline bool isAlphaC(char ch) { return (ch >= 'a' && ch <= 'z') || (ch >= 'A' && ch <= 'Z'); }
inline std::string_view trim(std::string_view s) {
  size_t a = 0, b = s.size();
  while (a < b && isSpaceC(s[a])) ++a;
  while (b > a && isSpaceC(s[b - 1])) --b;
  return s.substr(a, b - a);
}
// fields of s separated by d (views into s: s must outlive the result)
inline std::vector<std::string_view> split(std::string_view s, char d) {
  std::vector<std::string_view> r;
  size_t from = 0;
  for (size_t i = 0; i <= s.size(); ++i) if (i == s.size() || s[i] == d) { r.push_back(s.substr(from, i - from)); from = i + 1; }
  return r;
}

// ------------------------------------------------------------------------------------------------ one candidate
enum class Kind { Malformed, Entity, Collab, Unspecified };

struct Parsed {
  Kind kind = Kind::Malformed;
  const char* why = "";    // reason (Malformed / Unspecified)
  std::string entity;      // Entity
  TagSet tags;             // Entity
  long long offset = 0;    // Collab
  std::string nominal;     // Collab
  bool legacy = false;     // entity written in a 3/4-field form
  bool offsetBeyondInt16 = false, offsetBeyondInt32 = false;  // collaboration-shaped, offset not representable

  bool wellFormed() const { return kind == Kind::Entity || kind == Kind::Collab; }
  std::string canonical() const {
    if (kind == Kind::Entity) return "@{" + entity + "|" + tagsString(tags) + "}";
    if (kind == Kind::Collab) return "@{" + std::to_string(offset) + "|" + nominal + "}";
    return {};
  }
  bool sameRef(const Parsed& o) const {
    if (kind != o.kind) return false;
    if (kind == Kind::Entity) return entity == o.entity && tags == o.tags;
    if (kind == Kind::Collab) return offset == o.offset && nominal == o.nominal;
    return true;
  }
};
inline Parsed malformed(const char* why) { Parsed p; p.kind = Kind::Malformed; p.why = why; return p; }
inline Parsed unspecified(const char* why) { Parsed p; p.kind = Kind::Unspecified; p.why = why; return p; }

// optional '-' followed by at least one decimal digit (no '+', no blanks)
inline bool isIntegerText(std::string_view s) {
  size_t i = 0;
  if (!s.empty() && s[0] == '-') i = 1;
  if (i >= s.size()) return false;
  for (; i < s.size(); ++i) if (!isDigitC(s[i])) return false;
  return true;
}

// `cand` is exactly one candidate: "@{" inner "}" with the final '}' matching the opening brace.
inline Parsed classify(std::string_view cand) {
  if (cand.size() < 3 || cand[0] != '@' || cand[1] != '{' || cand.back() != '}') return malformed("not a candidate");
  const std::string_view inner = cand.substr(2, cand.size() - 3);
  if (inner.empty()) return malformed("empty");
  const auto f = split(inner, '|');
  const size_t n = f.size();
  if (n < 2) return malformed("one field");
  if (n > 4) return malformed("more than four fields");
  if (f[0].empty()) return malformed("empty first field");
  if (isAlphaC(f[0][0])) {
    // entity reference: name | tags
    // documented names are identifiers (X1, D11, abc ...); blanks (trimmed or not?), braces, '@' or non-ASCII letters inside
    // a name are undocumented - a name with a brace would even make the canonical spelling unbalanced
    for (char ch : f[0]) if (!isAlphaC(ch) && !isDigitC(ch) && ch != '_') return unspecified("entity name is not an identifier");
    Parsed p;
    p.entity = std::string(f[0]);
    if (n == 2) {
      for (const auto raw : split(f[1], ',')) { const int t = tagIndex(trim(raw)); if (t >= 0) p.tags.insert(t); }
    } else {
      // legacy form: name | tag | tag [| number] - every field is one tag, a trailing numeric field is ignored
      p.legacy = true;
      size_t last = n - 1;
      if (f[last].empty()) return unspecified("legacy form with empty last field");  // must not fault; valid or not is undocumented
      if (isDigitC(f[last][0])) {
        for (char ch : f[last]) if (!isDigitC(ch)) return unspecified("legacy trailing field starts with a digit but is not a number");
        --last;  // numeric legacy field ignored
      }
      for (size_t i = 1; i <= last; ++i) {
        if (f[i].empty()) return unspecified("legacy form with empty tag field");
        if (f[i].find(',') != std::string_view::npos) return unspecified("comma list inside a legacy tag field");
        const int t = tagIndex(trim(f[i]));
        if (t >= 0) p.tags.insert(t);
      }
    }
    if (p.tags.empty()) return malformed("no recognised grammeme");
    p.kind = Kind::Entity;
    return p;
  }
  if (isIntegerText(f[0])) {
    if (n != 2) return malformed("integer first field but not two fields");
    Parsed p;
    // value with saturation
    bool neg = f[0][0] == '-';
    long long v = 0;
    bool big = false;
    for (size_t i = neg ? 1 : 0; i < f[0].size(); ++i) { v = v * 10 + (f[0][i] - '0'); if (v > 4000000000LL) { big = true; v = 4000000000LL; } }
    if (neg) v = -v;
    p.offset = v;
    p.nominal = std::string(f[1]);
    if (big || v > 2147483647LL || v < -2147483648LL) p.offsetBeyondInt32 = true;
    if (v > 32767 || v < -32768) p.offsetBeyondInt16 = true;
    if (p.offsetBeyondInt16) {
      // the offset type is a 16-bit integer: rejecting the reference or keeping the exact value are both defensible
      p.kind = Kind::Unspecified;
      p.why = "collaboration offset outside int16";
      return p;
    }
    p.kind = Kind::Collab;
    return p;
  }
  return malformed("first field is neither a name nor an integer");
}

// ------------------------------------------------------------------------------------------------ occurrences
struct Occ {
  int start = 0, finish = 0;      // code-point range [start, finish)
  size_t bstart = 0, bfinish = 0; // byte range
  bool closed = true;             // false: "@{" never closes, the region runs to the end of the text
  std::string spelling;           // the candidate as written
  Parsed p;                       // classification (Malformed when !closed)
};

// index of the '}' matching the '{' at byte `open`, or npos
inline size_t matchBrace(const std::string& t, size_t open) {
  int depth = 0;
  for (size_t i = open; i < t.size(); ++i) {
    if (t[i] == '{') ++depth;
    else if (t[i] == '}') { if (--depth == 0) return i; }
  }
  return std::string::npos;
}

struct Scan {
  std::vector<Occ> top;        // top-level candidate regions, left to right
  bool unspecified = false;    // some top-level candidate has no documented classification
  bool hasNested = false;      // some "@{" starts inside another candidate region
  bool hasUnclosed = false;
  bool hasAdjacent = false;    // two well-formed top-level references with nothing between them
  int textCps = 0;
  std::vector<const Occ*> refs() const { std::vector<const Occ*> r; for (auto& o : top) if (o.closed && o.p.wellFormed()) r.push_back(&o); return r; }
};

inline int cpIndexOfByte(const std::vector<size_t>& offs, size_t byte) {
  // offs is sorted; byte is always a code-point boundary here
  size_t lo = 0, hi = offs.size() - 1;
  while (lo < hi) { size_t mid = (lo + hi) / 2; if (offs[mid] < byte) lo = mid + 1; else hi = mid; }
  return static_cast<int>(lo);
}

inline Scan scan(const std::string& text) {
  Scan s;
  const auto offs = cpOffsets(text);
  s.textCps = static_cast<int>(offs.size()) - 1;
  size_t i = 0;
  const Occ* prevRef = nullptr;
  while (true) {
    const size_t j = text.find("@{", i);
    if (j == std::string::npos) break;
    Occ o;
    o.bstart = j;
    o.start = cpIndexOfByte(offs, j);
    const size_t k = matchBrace(text, j + 1);
    if (k == std::string::npos) {
      o.closed = false; o.bfinish = text.size(); o.finish = s.textCps; o.spelling = text.substr(j);
      o.p = malformed("unclosed");
      s.hasUnclosed = true;
    } else {
      o.bfinish = k + 1; o.finish = cpIndexOfByte(offs, k + 1); o.spelling = text.substr(j, k + 1 - j);
      o.p = classify(o.spelling);
    }
    if (text.find("@{", j + 2) < o.bfinish) s.hasNested = true;
    if (o.p.kind == Kind::Unspecified) s.unspecified = true;
    const bool closed = o.closed;
    i = o.bfinish;
    s.top.push_back(std::move(o));
    if (!closed) break;
  }
  for (auto& o : s.top) {
    if (o.closed && o.p.wellFormed()) {
      if (prevRef && prevRef->finish == o.start) s.hasAdjacent = true;
      prevRef = &o;
    }
  }
  return s;
}

// the candidate that starts exactly at code point `start` and ends at `finish` (validation of a reported occurrence)
inline std::optional<Occ> candidateAt(const std::string& text, const std::vector<size_t>& offs, int start, int finish) {
  const int n = static_cast<int>(offs.size()) - 1;
  if (start < 0 || finish > n || start >= finish) return std::nullopt;
  const size_t j = offs[static_cast<size_t>(start)];
  if (text.compare(j, 2, "@{") != 0) return std::nullopt;
  const size_t k = matchBrace(text, j + 1);
  if (k == std::string::npos || k + 1 != offs[static_cast<size_t>(finish)]) return std::nullopt;
  Occ o;
  o.start = start; o.finish = finish; o.bstart = j; o.bfinish = k + 1; o.spelling = text.substr(j, k + 1 - j);
  o.p = classify(o.spelling);
  return o;
}

inline std::optional<Occ> candidateAt(const std::string& text, int start, int finish) { return candidateAt(text, cpOffsets(text), start, finish); }

// true if some "@{" is preceded by a maximal run of '@' of even length (counting its own '@'): "@@{", "@@@@{" ...
inline bool hasEvenAtRunBeforeBrace(const std::string& text) {
  for (size_t i = 0; i + 1 < text.size(); ++i) {
    if (text[i] != '@' || text[i + 1] != '{') continue;
    size_t run = 0;
    for (size_t k = i + 1; k > 0 && text[k - 1] == '@'; --k) ++run;
    if (run % 2 == 0) return true;
  }
  return false;
}

// any bracket-matched "@{...}" (top-level or nested) satisfying `pred`
template <class Pred> bool anyCandidate(const std::string& text, Pred pred) {
  for (size_t j = text.find("@{"); j != std::string::npos; j = text.find("@{", j + 1)) {
    const size_t k = matchBrace(text, j + 1);
    if (k == std::string::npos) continue;
    if (pred(text.substr(j, k + 1 - j))) return true;
  }
  return false;
}

// ------------------------------------------------------------------------------------------------ written-back text
struct Seg {
  bool isRef = false;
  std::string lit;  // literal bytes (gap, or a reference that keeps its original spelling)
  Parsed ref;       // reference expected in canonical spelling (tag order free)
};
inline Seg litSeg(std::string s) { Seg g; g.lit = std::move(s); return g; }
inline Seg refSeg(Parsed p) { Seg g; g.isRef = true; g.ref = std::move(p); return g; }

// "" if `got` is the concatenation of the segments, else a description of the first difference
inline std::string matchSegs(const std::string& got, const std::vector<Seg>& segs) {
  size_t pos = 0;
  for (size_t si = 0; si < segs.size(); ++si) {
    const Seg& g = segs[si];
    if (!g.isRef || g.ref.kind != Kind::Entity) {
      const std::string want = g.isRef ? g.ref.canonical() : g.lit;
      if (got.compare(pos, want.size(), want) != 0) return "segment " + std::to_string(si) + " at byte " + std::to_string(pos) + ": want '" + want + "'";
      pos += want.size();
      continue;
    }
    const std::string head = "@{" + g.ref.entity + "|";
    if (got.compare(pos, head.size(), head) != 0) return "segment " + std::to_string(si) + " at byte " + std::to_string(pos) + ": want '" + g.ref.canonical() + "'";
    pos += head.size();
    const size_t close = got.find('}', pos);
    if (close == std::string::npos) return "segment " + std::to_string(si) + ": reference not closed";
    TagSet seen;
    size_t count = 0;
    for (const auto t : split(std::string_view(got).substr(pos, close - pos), ',')) {
      const int ix = tagIndex(t);
      ++count;
      if (ix < 0 || !seen.insert(ix).second) return "segment " + std::to_string(si) + ": tag list '" + got.substr(pos, close - pos) + "' want a permutation of '" + tagsString(g.ref.tags) + "'";
    }
    if (seen != g.ref.tags || count != g.ref.tags.size()) return "segment " + std::to_string(si) + ": tag list '" + got.substr(pos, close - pos) + "' want a permutation of '" + tagsString(g.ref.tags) + "'";
    pos = close + 1;
  }
  if (pos != got.size()) return "trailing text after the last segment at byte " + std::to_string(pos);
  return {};
}

// ------------------------------------------------------------------------------------------------ resolution rules
struct TermModel {
  std::string nominal;                      // resolved text of the term
  std::map<TagSet, std::string> manual;     // manual forms
};
struct ContextModel {
  std::map<std::string, TermModel> terms;
};

// A deterministic "text processor" used by the harness (installed into the library as a TextProcessor subclass and
// evaluated directly by the model).  Results differ in code-point and byte length from the input.
inline std::string demoInflect(const std::string& target, const TagSet& tags) {
  if (target.empty()) return {};
  std::string r = target;
  const auto has = [&](const char* n) { return tags.count(tagIndex(n)) > 0; };
  if (has("ablt")) return {};                                   // "no such form": the nominal text is used instead
  if (has("datv")) { const auto c = cpSplit(r); if (c.size() >= 2) r = r.substr(c[0].size()); }  // drop the first code point
  if (has("gent")) r += "-of";
  if (has("accs")) r = "\xC2\xAB" + r + "\xC2\xBB";             // « »
  if (has("loct")) r += "\xF0\x9F\x98\x80";                     // one 4-byte code point
  if (has("plur")) r += "\xD1\x8B";                             // one 2-byte code point
  return r;
}
inline std::string demoDependant(const std::string& dep, const std::string& main) {
  if (dep == "void") return {};
  if (cpCount(main) % 2 == 1) return dep + "\xD0\xBE\xD0\xB9";  // two 2-byte code points
  if (main.size() > 6) return dep + "~";
  return dep;
}

inline std::string resolveEntityText(const Parsed& ref, const ContextModel& ctx) {
  static const std::string kEmpty = "!Empty reference!";
  if (ref.entity.empty()) return kEmpty;
  const auto it = ctx.terms.find(ref.entity);
  if (it == ctx.terms.end()) return "!Cannot find entity: '" + ref.entity + "'!";
  const TermModel& t = it->second;
  std::string form;
  const auto m = t.manual.find(ref.tags);
  if (m != t.manual.end()) form = m->second;
  else form = demoInflect(t.nominal, ref.tags);
  if (form.empty()) form = t.nominal;
  return form.empty() ? kEmpty : form;
}

// master of the collaboration at index `at`: the |offset|-th entity reference after (offset>0) / before (offset<0) it
inline int findMaster(const std::vector<Parsed>& refs, size_t at, long long offset) {
  if (offset == 0) return -1;
  long long left = offset > 0 ? offset : -offset;
  if (offset > 0) { for (size_t i = at + 1; i < refs.size(); ++i) if (refs[i].kind == Kind::Entity && --left == 0) return static_cast<int>(i); }
  else { for (size_t i = at; i-- > 0;) if (refs[i].kind == Kind::Entity && --left == 0) return static_cast<int>(i); }
  return -1;
}
inline std::string resolveCollabText(const Parsed& ref, const std::string* masterResolved) {
  static const std::string kEmpty = "!Empty reference!";
  if (ref.nominal.empty()) return kEmpty;
  if (!masterResolved) return "!Invalid offset for " + ref.nominal + ": '" + std::to_string(ref.offset) + "'!";
  const std::string r = demoDependant(ref.nominal, *masterResolved);
  return r.empty() ? kEmpty : r;
}
inline std::vector<std::string> resolveAll(const std::vector<Parsed>& refs, const ContextModel& ctx) {
  std::vector<std::string> out(refs.size());
  for (size_t i = 0; i < refs.size(); ++i) if (refs[i].kind == Kind::Entity) out[i] = resolveEntityText(refs[i], ctx);
  for (size_t i = 0; i < refs.size(); ++i) {
    if (refs[i].kind != Kind::Collab) continue;
    const int m = findMaster(refs, i, refs[i].offset);
    out[i] = resolveCollabText(refs[i], m >= 0 ? &out[static_cast<size_t>(m)] : nullptr);
  }
  return out;
}

// expected result of resolving `text` whose references are `occs` (ordered, disjoint byte ranges)
struct Resolved {
  std::string text;
  std::vector<std::pair<int, int>> ranges;  // code-point range of every replacement in `text`
  std::vector<std::string> pieces;          // resolution of every reference
  std::vector<std::string> gaps;            // refs.size()+1 gaps of the original text
};
inline Resolved resolveText(const std::string& text, const std::vector<Occ>& occs, const ContextModel& ctx) {
  Resolved r;
  std::vector<Parsed> refs;
  for (auto& o : occs) refs.push_back(o.p);
  r.pieces = resolveAll(refs, ctx);
  size_t cur = 0;
  int cp = 0;
  for (size_t i = 0; i < occs.size(); ++i) {
    const std::string gap = text.substr(cur, occs[i].bstart - cur);
    r.gaps.push_back(gap);
    r.text += gap; cp += cpCount(gap);
    const int len = cpCount(r.pieces[i]);
    r.ranges.emplace_back(cp, cp + len);
    r.text += r.pieces[i]; cp += len;
    cur = occs[i].bfinish;
  }
  r.gaps.push_back(text.substr(cur));
  r.text += r.gaps.back();
  return r;
}

// ------------------------------------------------------------------------------------------------ shadow text
enum class Expect { MustAccept, MustRefuse, Free };

struct ShadowRef {
  int start = 0, finish = 0;
  std::string resolved;
  Parsed ref;
};

struct Shadow {
  std::vector<std::string> cps;  // the plain (resolved) text, one entry per code point
  std::vector<ShadowRef> refs;   // ordered by start

  int size() const { return static_cast<int>(cps.size()); }
  std::string str() const { std::string s; for (auto& c : cps) s += c; return s; }
  std::string sub(int a, int b) const { std::string s; for (int i = std::max(a, 0); i < b && i < size(); ++i) s += cps[static_cast<size_t>(i)]; return s; }

  // Insert(ref, pos): refused when pos lies inside a reference or on one of its borders (documented by
  // UTRefsManager.Insert: positions 3,4,6,7 of a reference at [3,7) are refused, 2 and 8 accepted)
  Expect predictInsert(int pos) const {
    for (auto& r : refs) if (r.start <= pos && pos <= r.finish) return Expect::MustRefuse;
    return Expect::MustAccept;
  }
  void applyInsert(int pos, const Parsed& ref, const std::string& resolved) {
    const auto pieces = cpSplit(resolved);
    const int len = static_cast<int>(pieces.size());
    cps.insert(cps.begin() + pos, pieces.begin(), pieces.end());
    size_t at = 0;
    while (at < refs.size() && refs[at].start < pos) ++at;
    for (size_t i = at; i < refs.size(); ++i) { refs[i].start += len; refs[i].finish += len; }
    ShadowRef n; n.start = pos; n.finish = pos + len; n.resolved = resolved; n.ref = ref;
    refs.insert(refs.begin() + static_cast<long>(at), n);
  }
  size_t insertIndex(int pos) const { size_t at = 0; while (at < refs.size() && refs[at].start < pos) ++at; return at; }

  struct EraseOutcome { Expect e = Expect::Free; int a = 0, b = 0; std::string why; };
  // EraseIn([a,b), expand): rules documented by UTRefsManager.EraseRefsRange / EraseRefsExpand and the class comment
  // ("positions do not overlap, are separated by at least 1 symbol"):
  //  * expand and [a,b) inside one reference: the range becomes that reference;
  //  * a reference partially covered (or strictly containing the range): refused;
  //  * references fully covered are removed, later ones shift left;
  //  * refused when a surviving reference ends exactly at a and another starts exactly at b (they would touch).
  EraseOutcome predictErase(int a, int b, bool expand) const {
    EraseOutcome o; o.a = a; o.b = b;
    if (a == b) { o.e = Expect::Free; o.why = "empty range"; return o; }
    if (expand) for (auto& r : refs) if (r.start <= a && b <= r.finish) { o.a = a = r.start; o.b = b = r.finish; break; }
    bool leftTouch = false, rightTouch = false, removesRef = false;
    for (auto& r : refs) {
      const bool overlap = std::max(a, r.start) < std::min(b, r.finish);
      const bool contained = a <= r.start && r.finish <= b;
      if (overlap && !contained) { o.e = Expect::MustRefuse; o.why = "partial overlap"; return o; }
      if (overlap) removesRef = true;
      if (!overlap && r.finish == a) leftTouch = true;
      if (!overlap && r.start == b) rightTouch = true;
    }
    if (leftTouch && rightTouch) {
      // documented (EraseIn{7,11} in UTRefsManager.EraseRefsRange) for a plain gap between two references; when the range
      // also covers references that already touch their neighbours nothing is documented
      if (removesRef) { o.e = Expect::Free; o.why = "covers a reference that touches both neighbours"; return o; }
      o.e = Expect::MustRefuse; o.why = "would join two references"; return o;
    }
    o.e = Expect::MustAccept;
    return o;
  }
  void applyErase(int a, int b) {
    const int len = b - a;
    std::vector<ShadowRef> keep;
    for (auto& r : refs) {
      if (a <= r.start && r.finish <= b && r.start < r.finish) continue;  // covered
      ShadowRef n = r;
      if (r.start >= b) { n.start -= len; n.finish -= len; }
      keep.push_back(n);
    }
    refs = keep;
    cps.erase(cps.begin() + std::max(0, std::min(a, size())), cps.begin() + std::max(0, std::min(b, size())));
  }
  bool touchesRef(int a, int b) const { for (auto& r : refs) if (a <= r.finish && b >= r.start) return true; return false; }
};

}  // namespace m6
