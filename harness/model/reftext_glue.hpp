// reftext_glue.hpp - adapters between the reference model M6 (reftext.hpp) and the library's text-reference API,
// shared by harness/props/C17.cpp and harness/fuzz/fz_ref.cpp:
//   * DemoProcessor: a TextProcessor whose inflection is the pure function m6::demoInflect / m6::demoDependant,
//   * TermContext:   an EntityTermContext over a std::map (ordered: no unordered iteration anywhere),
//   * resetTextEnvironment(): puts the process-wide TextEnvironment into a known state (call at the top of every case),
//   * view(): a plain-data view of a ccl::lang::Reference,
//   * compareExtraction / compareParse / checkStructure: the comparisons of library results with the model that both
//     the rapidcheck harness and the fuzz target apply (they return an oracle id + message, "" = agreement),
//   * knownClass(): the matcher of the listed known findings of C17.
#pragma once

#include "model/reftext.hpp"

#include <unordered_map>  // EntityTermContext.hpp uses it without including it

#include "ccl/lang/EntityTermContext.hpp"
#include "ccl/lang/LexicalTerm.h"
#include "ccl/lang/ManagedText.h"
#include "ccl/lang/Reference.h"
#include "ccl/lang/RefsManager.h"
#include "ccl/lang/TextEnvironment.h"

#include <map>
#include <memory>

namespace glue {

inline m6::TagSet toTagSet(const ccl::lang::Morphology& m) {
  m6::TagSet t;
  for (const auto g : m.tags) t.insert(m6::tagIndex(std::string(ccl::lang::Grammem2Str(g))));
  return t;
}
inline ccl::lang::Morphology toMorphology(const m6::TagSet& tags) {
  ccl::lang::Morphology m;
  for (int t : tags) m.tags.insert(ccl::lang::Str2Grammem(m6::tagNames()[static_cast<size_t>(t)]));
  return m;
}

struct DemoProcessor final : ccl::lang::TextProcessor {
  [[nodiscard]] std::string Inflect(const std::string& target, const ccl::lang::Morphology& form) const override {
    return m6::demoInflect(target, toTagSet(form));
  }
  [[nodiscard]] std::string InflectDependant(const std::string& dependant, const std::string& main) const override {
    return m6::demoDependant(dependant, main);
  }
};

inline void resetTextEnvironment() {
  ccl::lang::TextEnvironment::SetProcessor(std::make_unique<DemoProcessor>());
  ccl::lang::TextEnvironment::Instance().skipResolving = false;
}

class TermContext final : public ccl::lang::EntityTermContext {
  std::map<std::string, ccl::lang::LexicalTerm> terms;

public:
  TermContext() = default;
  explicit TermContext(const m6::ContextModel& model) {
    for (const auto& [name, t] : model.terms) {
      ccl::lang::LexicalTerm term{t.nominal};
      for (const auto& [tags, text] : t.manual) term.SetForm(toMorphology(tags), text);
      terms.emplace(name, std::move(term));
    }
  }
  [[nodiscard]] const ccl::lang::LexicalTerm* At(const std::string& entity) const override {
    const auto it = terms.find(entity);
    return it == terms.end() ? nullptr : &it->second;
  }
  [[nodiscard]] bool Contains(const std::string& entity) const override { return terms.count(entity) > 0; }
};

struct RefView {
  int type = 0;  // 0 invalid, 1 entity, 2 collaboration
  std::string entity;
  m6::TagSet tags;
  long long offset = 0;
  std::string nominal;
  int start = 0, finish = 0;
  std::string resolved;
  std::string spelled;  // ToString()
};
inline RefView view(const ccl::lang::Reference& r) {
  RefView v;
  v.start = r.position.start; v.finish = r.position.finish;
  v.resolved = r.resolvedText;
  v.spelled = r.ToString();
  if (r.IsEntity()) { v.type = 1; v.entity = std::string(r.GetEntity()); v.tags = toTagSet(r.GetForm()); }
  else if (r.IsCollaboration()) { v.type = 2; v.offset = r.GetOffset(); v.nominal = r.GetNominal(); }
  return v;
}
// "" if the library reference denotes the same reference as the model's, else what differs
inline std::string sameAsModel(const RefView& v, const m6::Parsed& p) {
  if (p.kind == m6::Kind::Entity) {
    if (v.type != 1) return "want an entity reference";
    if (v.entity != p.entity) return "entity '" + v.entity + "' want '" + p.entity + "'";
    if (v.tags != p.tags) return "tags '" + m6::tagsString(v.tags) + "' want '" + m6::tagsString(p.tags) + "'";
    return {};
  }
  if (p.kind == m6::Kind::Collab) {
    if (v.type != 2) return "want a collaboration reference";
    if (v.offset != p.offset) return "offset " + std::to_string(v.offset) + " want " + std::to_string(p.offset);
    if (v.nominal != p.nominal) return "text '" + v.nominal + "' want '" + p.nominal + "'";
    return {};
  }
  return v.type == 0 ? "" : "want no reference";
}


// ------------------------------------------------------------------------------------------------ comparisons
inline std::string esc(const std::string& s) {
  std::string o;
  for (char ch : s) {
    if (ch == '\n') o += "\\n"; else if (ch == '\t') o += "\\t"; else if (ch == '\r') o += "\\r"; else if (ch == 0) o += "\\0"; else o += ch;
  }
  return o;
}
inline std::string rng(int a, int b) { return "[" + std::to_string(a) + "," + std::to_string(b) + ")"; }

struct Failure {
  std::string oracle, msg;
  bool failed() const { return !oracle.empty(); }
};
#define GLUE_CHECK(cond, oracle, msg) do { if (!(cond)) return ::glue::Failure{oracle, msg}; } while (0)

// Compares Reference::ExtractAll(text) (`found`) with the model.  `expected` receives the reference list every later
// oracle uses: the top-level well-formed occurrences, plus - validated - occurrences the library chose to report inside
// malformed regions (not demanded, but anything reported must itself be well-formed).
inline Failure compareExtraction(const std::string& text, const m6::Scan& sc, const std::vector<ccl::lang::Reference>& found,
                                 std::vector<m6::Occ>& expected, int& nestedReported) {
  std::vector<RefView> L;
  std::vector<m6::Occ> occs;
  int prevFinish = 0;
  const auto offs = m6::cpOffsets(text);
  for (size_t i = 0; i < found.size(); ++i) {
    auto v = view(found[i]);
    const auto at = [&] { return "reference " + std::to_string(i) + " " + rng(v.start, v.finish) + " " + esc(v.spelled); };
    GLUE_CHECK(v.type != 0, "reported-invalid", at() + ": invalid reference reported");
    GLUE_CHECK(0 <= v.start && v.start < v.finish && v.finish <= sc.textCps, "range-in-text", at() + " outside the text of " + std::to_string(sc.textCps) + " code points");
    GLUE_CHECK(v.start >= prevFinish, "ranges-ordered-disjoint", at() + " starts before the previous reference ends at " + std::to_string(prevFinish));
    prevFinish = v.finish;
    auto occ = m6::candidateAt(text, offs, v.start, v.finish);
    GLUE_CHECK(occ.has_value(), "reported-not-an-occurrence", at() + ": the code points " + rng(v.start, v.finish) + " are '" + esc(m6::cpSubstr(text, v.start, v.finish)) + "', not a @{...} occurrence");
    GLUE_CHECK(occ->p.kind != m6::Kind::Malformed, "reported-malformed", at() + ": '" + esc(occ->spelling) + "' is malformed (" + occ->p.why + ")");
    if (occ->p.kind == m6::Kind::Unspecified) {
      if (occ->p.offsetBeyondInt16)
        GLUE_CHECK(v.type == 2 && v.offset == occ->p.offset, "offset-not-representable", "'" + esc(occ->spelling) + "' reported as " + esc(v.spelled) + ": the written offset is neither rejected nor kept");
    } else {
      const auto d = sameAsModel(v, occ->p);
      GLUE_CHECK(d.empty(), "reference-content", at() + " from '" + esc(occ->spelling) + "': " + d);
      if (v.spelled != occ->p.canonical()) {  // any order of the tags is accepted
        const auto sp = m6::matchSegs(v.spelled, {m6::refSeg(occ->p)});
        GLUE_CHECK(sp.empty(), "canonical-spelling", at() + ": ToString is not the canonical spelling '" + esc(occ->p.canonical()) + "': " + sp);
      }
    }
    L.push_back(std::move(v));
    occs.push_back(std::move(*occ));
  }
  if (sc.unspecified) {
    expected = occs;
    return {};
  }
  size_t li = 0;
  for (const auto& o : sc.top) {
    GLUE_CHECK(li >= L.size() || L[li].start >= o.start, "spurious-reference", "reference reported at " + rng(L[li].start, L[li].finish) + " where the text has no occurrence");
    if (o.closed && o.p.wellFormed()) {
      GLUE_CHECK(li < L.size() && L[li].start == o.start && L[li].finish == o.finish, "reference-missed",
                 "well-formed occurrence '" + esc(o.spelling) + "' at " + rng(o.start, o.finish) + " not reported" +
                     (li < L.size() ? " (next reported: " + rng(L[li].start, L[li].finish) + ")" : " (nothing more reported)"));
      expected.push_back(o);
      ++li;
    } else {
      while (li < L.size() && L[li].start < o.finish) {
        GLUE_CHECK(L[li].start > o.start && L[li].finish <= o.finish, "spurious-reference", "reference " + rng(L[li].start, L[li].finish) + " straddles the malformed region " + rng(o.start, o.finish));
        ++nestedReported;
        expected.push_back(occs[li]);
        ++li;
      }
    }
  }
  GLUE_CHECK(li == L.size(), "spurious-reference", "reference reported at " + rng(L[std::min(li, L.size() - 1)].start, L[std::min(li, L.size() - 1)].finish) + " after the last occurrence of the text");
  return {};
}

// Reference::Parse / ToString on every closed top-level candidate of the text.
// canonicalOnly: only re-parse the canonical spelling of well-formed candidates that are not written canonically (for callers
// that already compared ExtractAll, which hands exactly these candidate strings to Parse).
inline Failure compareParse(const m6::Scan& sc, bool canonicalOnly = false) {
  for (const auto& o : sc.top) {
    if (!o.closed || o.p.kind == m6::Kind::Unspecified) continue;
    if (canonicalOnly && (!o.p.wellFormed() || o.p.canonical() == o.spelling)) continue;
    const auto r = ccl::lang::Reference::Parse(o.spelling);
    const auto v = view(r);
    GLUE_CHECK(r.IsValid() == o.p.wellFormed(), "parse-validity",
               "Parse('" + esc(o.spelling) + "') valid=" + (r.IsValid() ? "true" : "false") + " want " + (o.p.wellFormed() ? std::string("well-formed") : std::string("malformed: ") + o.p.why));
    if (!o.p.wellFormed()) continue;
    const auto d = sameAsModel(v, o.p);
    GLUE_CHECK(d.empty(), "parse-content", "Parse('" + esc(o.spelling) + "'): " + d);
    const auto sp0 = m6::matchSegs(v.spelled, {m6::refSeg(o.p)});
    GLUE_CHECK(sp0.empty(), "canonical-spelling", "ToString(Parse('" + esc(o.spelling) + "')) = '" + esc(v.spelled) + "' want '" + esc(o.p.canonical()) + "'");
    const auto canon = o.p.canonical();
    const auto r2 = ccl::lang::Reference::Parse(canon);
    const auto d2 = sameAsModel(view(r2), o.p);
    GLUE_CHECK(d2.empty(), "canonical-reparse", "Parse('" + esc(canon) + "') (canonical spelling of '" + esc(o.spelling) + "'): " + d2);
    const auto sp = m6::matchSegs(r2.ToString(), {m6::refSeg(o.p)});
    GLUE_CHECK(sp.empty(), "canonical-fixpoint", "ToString(Parse('" + esc(canon) + "')) = '" + esc(r2.ToString()) + "'");
  }
  return {};
}

// recorded ranges lie in the (resolved) text, are ordered and disjoint, and delimit the recorded resolution
inline Failure checkStructure(const std::string& resolved, const std::vector<ccl::lang::Reference>& refs, const std::string& what) {
  const auto offs = m6::cpOffsets(resolved);
  const int n = static_cast<int>(offs.size()) - 1;
  int prev = 0;
  for (size_t i = 0; i < refs.size(); ++i) {
    const auto& p = refs[i].position;
    const auto at = [&] { return what + " reference " + std::to_string(i) + " " + rng(p.start, p.finish); };
    GLUE_CHECK(0 <= p.start && p.start <= p.finish && p.finish <= n, "range-in-text", at() + " outside the resolved text of " + std::to_string(n) + " code points");
    GLUE_CHECK(p.start >= prev, "ranges-ordered-disjoint", at() + " starts before the previous one ends at " + std::to_string(prev));
    const size_t b0 = offs[static_cast<size_t>(p.start)], b1 = offs[static_cast<size_t>(p.finish)];
    GLUE_CHECK(resolved.compare(b0, b1 - b0, refs[i].resolvedText) == 0, "range-delimits",
               at() + " shows '" + esc(resolved.substr(b0, b1 - b0)) + "' but the reference resolved to '" + esc(refs[i].resolvedText) + "'");
    prev = p.finish;
  }
  return {};
}

// ------------------------------------------------------------------------------------------------ known findings of C17
inline bool legacyEmptyLastShape(std::string_view cand) {
  if (cand.size() <= 3 || cand[cand.size() - 2] != '|') return false;
  const auto f = m6::split(cand.substr(2, cand.size() - 3), '|');
  return (f.size() == 3 || f.size() == 4) && !f[0].empty() && m6::isAlphaC(f[0][0]) && f.back().empty();
}
// key of the listed known finding whose class contains this text ("" if none); `known` = pbt::known / fuzz::known
template <class KnownFn> std::string knownClass(const std::string& text, const m6::Scan& sc, KnownFn known) {
  if (known("double-at") && m6::hasEvenAtRunBeforeBrace(text)) return "double-at";
  for (const auto& o : sc.top) {
    if (!o.closed) continue;
    if (known("legacy-empty-last") && legacyEmptyLastShape(o.spelling)) return "legacy-empty-last";
    if (known("offset-beyond-int32") && o.p.offsetBeyondInt32) return "offset-beyond-int32";
    if (known("offset-int16-wrap") && o.p.offsetBeyondInt16 && !o.p.offsetBeyondInt32) return "offset-int16-wrap";
  }
  return {};
}

}  // namespace glue
