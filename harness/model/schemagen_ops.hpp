// schemagen_ops.hpp - shared generator of small RSForm schemas and an independent "mention" model for the
// schema-operation properties C12 (synthesis / merge / equation) and C13 (basis / maximal part).
//
// Generator: 1-3 base sets X, 0-1 constant C, 0-2 structures S, 0-N terms / axioms / functions with dependency chains.
// The order in which definitions are generated (dependency rank) is decoupled from the creation order (= list order of
// the non-basic constituents), and admissible MoveBefore calls shuffle the list further.  Some definitions are
// deliberately incorrect (syntax error, type mismatch, self reference, cycle, empty) or mention missing names.
// Everything is built through the public RSForm API (Emplace / Set*For / MoveBefore / UpdateState).
//
// Model: a tokenizer for global identifiers ([XCSADFPT][0-9]+ delimited by non-word bytes) in formal texts and for the
// entity name of @{NAME|tags} references in natural-language texts; snapshots of a schema (plain rows); mention
// resolution by alias lookup; a "rewrite" comparison (old text -> new text must differ only in alias tokens, and every
// alias token that resolved in the old schema must be the alias of its image).  None of this calls the library's own
// mention extraction, translation or graph code.
#pragma once

#include "common/pbt.hpp"

#include "ccl/semantic/RSForm.h"
#include "ccl/tools/JSON.h"

#include <functional>
#include <map>
#include <memory>
#include <optional>
#include <set>
#include <string>
#include <vector>

namespace sgen {

using ccl::EntityUID;
using ccl::semantic::CstType;
using ccl::semantic::ParsingStatus;
using ccl::semantic::RSForm;
using JSON = nlohmann::ordered_json;

// ---------------------------------------------------------------------------------------------------------------
// tokenizer
inline char letterOf(CstType t) {
  switch (t) {
    case CstType::base: return 'X';
    case CstType::constant: return 'C';
    case CstType::structured: return 'S';
    case CstType::axiom: return 'A';
    case CstType::term: return 'D';
    case CstType::function: return 'F';
    case CstType::theorem: return 'T';
    case CstType::predicate: return 'P';
    default: return '?';
  }
}
inline bool isAliasLetter(char ch) { return ch == 'X' || ch == 'C' || ch == 'S' || ch == 'A' || ch == 'D' || ch == 'F' || ch == 'P' || ch == 'T'; }
inline bool isDigit(char ch) { return ch >= '0' && ch <= '9'; }
inline bool isWordByte(char ch) { return isDigit(ch) || (ch >= 'a' && ch <= 'z') || (ch >= 'A' && ch <= 'Z') || ch == '_'; }

struct Seg { bool alias{false}; std::string s; };

// formal texts (definitions, conventions, typification strings): alias tokens delimited by non-word bytes
inline std::vector<Seg> splitFormal(const std::string& s) {
  std::vector<Seg> out;
  std::string lit;
  size_t i = 0;
  while (i < s.size()) {
    if (isAliasLetter(s[i]) && (i == 0 || !isWordByte(s[i - 1])) && i + 1 < s.size() && isDigit(s[i + 1])) {
      size_t j = i + 1;
      while (j < s.size() && isDigit(s[j])) ++j;
      if (j == s.size() || !isWordByte(s[j])) {
        out.push_back({false, lit}); lit.clear();
        out.push_back({true, s.substr(i, j - i)});
        i = j;
        continue;
      }
    }
    lit += s[i++];
  }
  out.push_back({false, lit});
  return out;  // literal, alias, literal, alias, ..., literal
}
// natural-language texts: the entity name of every "@{NAME|" reference
inline std::vector<Seg> splitRefs(const std::string& s) {
  std::vector<Seg> out;
  std::string lit;
  size_t i = 0;
  while (i < s.size()) {
    if (s[i] == '@' && i + 3 < s.size() && s[i + 1] == '{' && isAliasLetter(s[i + 2]) && isDigit(s[i + 3])) {
      size_t j = i + 3;
      while (j < s.size() && isDigit(s[j])) ++j;
      if (j < s.size() && s[j] == '|') {
        lit += "@{";
        out.push_back({false, lit}); lit.clear();
        out.push_back({true, s.substr(i + 2, j - i - 2)});
        i = j;
        continue;
      }
    }
    lit += s[i++];
  }
  out.push_back({false, lit});
  return out;
}
inline std::vector<std::string> aliasesOf(const std::vector<Seg>& segs) {
  std::vector<std::string> r;
  for (const auto& g : segs) if (g.alias) r.push_back(g.s);
  return r;
}

// ---------------------------------------------------------------------------------------------------------------
// snapshots
struct Row {
  EntityUID uid{};
  std::string alias;
  CstType type{CstType::base};
  std::string def, conv, term, text;
  ParsingStatus status{ParsingStatus::UNKNOWN};
  bool typed{false};   // exprType present
  bool logic{false};   // exprType is LOGIC
  std::string typ;     // typification string when typed && !logic
  int vclass{0};
  std::string args;    // function arguments "name:type,..."
  std::string str() const { return alias + "#" + std::to_string(uid) + "[" + def + "|" + conv + "|" + term + "|" + text + "]"; }
};
struct Snap {
  std::vector<Row> rows;  // list order
  std::map<std::string, size_t> byAlias;
  std::map<EntityUID, size_t> byUid;
  std::string json;
  bool aliasClash{false};  // two rows with one alias (never expected)
  const Row* find(EntityUID u) const { auto it = byUid.find(u); return it == byUid.end() ? nullptr : &rows[it->second]; }
  const Row* findAlias(const std::string& a) const { auto it = byAlias.find(a); return it == byAlias.end() ? nullptr : &rows[it->second]; }
  bool fullyCorrect() const { for (auto& r : rows) if (r.status != ParsingStatus::VERIFIED) return false; return true; }
  std::string str() const { std::string o; for (auto& r : rows) o += r.str() + " "; return o; }
};
inline Snap snapshot(const RSForm& s) {
  Snap sn;
  for (const auto uid : s.List()) {
    Row r;
    const auto& rs = s.GetRS(uid); const auto& tx = s.GetText(uid); const auto& p = s.GetParse(uid);
    r.uid = uid; r.alias = rs.alias; r.type = rs.type; r.def = rs.definition; r.conv = rs.convention;
    r.term = tx.term.Text().Raw(); r.text = tx.definition.Raw();
    r.status = p.status; r.typed = p.exprType.has_value(); r.vclass = static_cast<int>(p.valueClass);
    if (r.typed) { if (const auto* t = p.Typification(); t != nullptr) r.typ = t->ToString(); else r.logic = true; }
    if (p.arguments.has_value()) for (const auto& a : p.arguments.value()) r.args += a.name + ":" + a.type.ToString() + ",";
    if (!sn.byAlias.emplace(r.alias, sn.rows.size()).second) sn.aliasClash = true;
    sn.byUid.emplace(r.uid, sn.rows.size());
    sn.rows.push_back(std::move(r));
  }
  sn.json = JSON(s).dump();
  return sn;
}

enum Field { F_DEF = 0, F_CONV, F_TERM, F_TEXT };
inline const std::string& fieldOf(const Row& r, int f) { return f == F_DEF ? r.def : f == F_CONV ? r.conv : f == F_TERM ? r.term : r.text; }
inline const char* fieldName(int f) { static const char* n[] = {"definition", "convention", "term", "text definition"}; return n[f]; }
inline std::vector<Seg> splitField(const std::string& s, int f) { return (f == F_DEF || f == F_CONV) ? splitFormal(s) : splitRefs(s); }

// uids mentioned (and resolved by alias lookup) in the given fields of a row
inline std::set<EntityUID> mentions(const Snap& sn, const Row& r, std::initializer_list<int> fields, std::set<std::string>* unresolved = nullptr) {
  std::set<EntityUID> out;
  for (int f : fields)
    for (const auto& a : aliasesOf(splitField(fieldOf(r, f), f))) {
      if (const Row* t = sn.findAlias(a); t != nullptr) out.insert(t->uid);
      else if (unresolved) unresolved->insert(a);
    }
  return out;
}
inline bool hasUnresolved(const Snap& sn) {
  for (const auto& r : sn.rows) { std::set<std::string> u; mentions(sn, r, {F_DEF, F_CONV, F_TERM, F_TEXT}, &u); if (!u.empty()) return true; }
  return false;
}

// Compare an old text with its supposed rewrite.  `expect(alias)` returns the alias the token must have become when the old
// token resolved in the old schema, nullopt when it did not resolve (then any alias token is accepted and *wild is raised).
// Returns "" when the new text is a faithful rewrite, else a description.
inline std::string rewriteMismatch(const std::vector<Seg>& oldSegs, const std::vector<Seg>& newSegs,
                                   const std::function<std::optional<std::string>(const std::string&)>& expect, int* wild = nullptr) {
  if (oldSegs.size() != newSegs.size()) return "token structure differs";
  for (size_t i = 0; i < oldSegs.size(); ++i) {
    if (oldSegs[i].alias != newSegs[i].alias) return "token structure differs";
    if (!oldSegs[i].alias) { if (oldSegs[i].s != newSegs[i].s) return "text outside identifiers differs ('" + oldSegs[i].s + "' vs '" + newSegs[i].s + "')"; continue; }
    const auto want = expect(oldSegs[i].s);
    if (!want.has_value()) { if (wild) ++*wild; continue; }
    if (want.value() != newSegs[i].s) return "mention " + oldSegs[i].s + " became " + newSegs[i].s + ", its image is " + want.value();
  }
  return "";
}

// ---------------------------------------------------------------------------------------------------------------
// generator
struct Item {
  CstType type{CstType::base};
  std::string alias;  // alias the API will issue (checked when building)
  std::string def, conv, term, text;
  int sort{0};        // generator-side guess, used only to bias towards well-typed material: 0 none, 1 Set(b1), 2 Rel(b1,b2), 3 Func(ℬ(b1))->Set(b1)
  std::string b1, b2;
  std::string str() const { return alias + " [" + def + "] c[" + conv + "] t[" + term + "] d[" + text + "]"; }
};
struct Move { int what{0}; int where{0}; };  // where == items.size(): end of the list
struct Spec {
  std::vector<Item> items;  // creation order
  std::vector<Move> moves;
  std::string str(const std::string& indent = "  ") const {
    std::string o;
    for (const auto& it : items) o += indent + it.str() + "\n";
    if (!moves.empty()) { o += indent + "moves:"; for (auto& m : moves) o += " " + items[static_cast<size_t>(m.what)].alias + "<" + (m.where >= static_cast<int>(items.size()) ? std::string("end") : items[static_cast<size_t>(m.where)].alias); o += "\n"; }
    return o;
  }
  int indexOfAlias(const std::string& a) const { for (size_t i = 0; i < items.size(); ++i) if (items[i].alias == a) return static_cast<int>(i); return -1; }
};
struct GenOpts {
  int minRest = 0;
  int maxRest = 4;        // terms / axioms / functions
  int maxMoves = 4;
  bool texts = true;      // conventions, terms, text definitions (with references)
  int incorrectPct = 26;  // share of deliberately incorrect definitions
};

// debugging aid: VERIF_PRINT_CASE=1 VERIF_VERBOSE=1 build/bin/Cxx --replay <file> prints the rendered case (crash cases keep a stale rendering)
inline void debugShow(pbt::Ctx& c) { if (std::getenv("VERIF_PRINT_CASE")) std::cerr << "--- case\n" << c.show.str() << "\n---\n"; }

inline bool rare(pbt::Ctx& c, int den) { return c.ipick(0, den - 1) == den - 1; }

namespace detail {
struct P { std::string alias; int sort; std::string b1, b2; bool derived{false}; };
inline std::vector<P> poolOf(const Spec& sp, int except = -1) {
  std::vector<P> pool;
  for (size_t i = 0; i < sp.items.size(); ++i) if (static_cast<int>(i) != except && sp.items[i].sort != 0) pool.push_back({sp.items[i].alias, sp.items[i].sort, sp.items[i].b1, sp.items[i].b2, sp.items[i].type != CstType::base && sp.items[i].type != CstType::constant && sp.items[i].type != CstType::structured});
  return pool;
}
inline const P& pickSort(pbt::Ctx& c, const std::vector<P>& pool, int sort, const std::string& base, const P& fallback) {
  std::vector<const P*> cand, derived;
  for (const auto& p : pool) if (p.sort == sort && (base.empty() || p.b1 == base)) { cand.push_back(&p); if (p.derived) derived.push_back(&p); }
  if (cand.empty()) return fallback;
  if (!derived.empty() && derived.size() < cand.size() && c.ipick(0, 2) != 0) cand = derived;  // prefer chains through derived constituents
  return *cand[static_cast<size_t>(c.ipick(0, static_cast<int>(cand.size()) - 1))];
}
}  // namespace detail

// definition of one non-basic item; `pool` = typed material it may use, `later` = aliases generated after it (cycle material)
inline void genDefinition(pbt::Ctx& c, Item& it, const std::vector<detail::P>& pool, const std::vector<std::string>& later, const GenOpts& o) {
  using detail::P;
  static const P kX1{"X1", 1, "X1", "", false};
  const bool correct = c.ipick(0, 99) < 100 - o.incorrectPct;  // small picks: intended-correct
  const P& a = detail::pickSort(c, pool, 1, "", kX1);
  const P& b = detail::pickSort(c, pool, 1, a.b1, a);
  it.sort = 0; it.b1.clear(); it.b2.clear();
  auto goodDef = [&]() -> std::string {
    switch (it.type) {
      case CstType::axiom:
      case CstType::theorem:
        switch (c.ipick(0, 3)) {
          case 0: return a.alias + "=" + b.alias;
          case 1: return a.alias + "≠∅";
          case 2: return a.alias + "⊆" + b.alias;
          default: return "∀a∈" + a.alias + " a∈" + b.alias;
        }
      case CstType::function:
        it.sort = 3; it.b1 = a.b1;
        return "[a∈ℬ(" + a.b1 + ")] a" + (c.coin() ? "\\" : "∪") + a.alias;
      default: break;
    }
    switch (c.ipick(0, 6)) {
      case 0: it.sort = 1; it.b1 = a.b1; return a.alias;
      case 1: it.sort = 1; it.b1 = a.b1; { static const char* ops[] = {"∪", "∩", "\\"}; return a.alias + ops[c.ipick(0, 2)] + b.alias; }
      case 2: { const P& d = detail::pickSort(c, pool, 1, "", kX1); it.sort = 2; it.b1 = a.b1; it.b2 = d.b1; return a.alias + "×" + d.alias; }
      case 3: {
        const P& r = detail::pickSort(c, pool, 2, "", kX1);
        if (r.sort != 2) { it.sort = 1; it.b1 = a.b1; return a.alias + "∪" + a.alias; }
        const bool first = c.coin();
        it.sort = 1; it.b1 = first ? r.b2 : r.b1;  // coin()==false -> Pr1
        return std::string(first ? "Pr2(" : "Pr1(") + r.alias + ")";
      }
      case 4: {
        const P& f = detail::pickSort(c, pool, 3, "", kX1);
        if (f.sort != 3) { it.sort = 1; it.b1 = a.b1; return a.alias + "\\" + a.alias; }
        const P& arg = detail::pickSort(c, pool, 1, f.b1, kX1);
        it.sort = 1; it.b1 = f.b1;
        return f.alias + "[" + arg.alias + "]";
      }
      case 5: it.sort = 1; it.b1 = a.b1; return a.alias + "∩" + b.alias;
      default: return "ℬ(" + a.alias + ")";
    }
  };
  if (correct) { it.def = goodDef(); return; }
  const int fam = c.ipick(0, 7);
  const bool isStmt = it.type == CstType::axiom || it.type == CstType::theorem;
  const bool isFunc = it.type == CstType::function;
  static const char* missing[] = {"X9", "D8", "S7", "X3"};  // X3 may or may not exist
  switch (fam) {
    case 0: {
      const std::string m = missing[c.ipick(0, 3)];
      it.def = isStmt ? m + "=" + a.alias : isFunc ? "[a∈ℬ(" + m + ")] a" : (c.coin() ? m + "∪" + a.alias : m);
      break;
    }
    case 1: it.def = goodDef() + "∪"; break;
    case 2: it.def = isStmt ? "Pr1(" + a.alias + ")=" + a.alias : isFunc ? "[a∈ℬ(" + a.b1 + ")] Pr1(a)" : "Pr1(" + a.alias + ")"; break;
    case 3: it.def = isStmt ? it.alias + "=" + a.alias : isFunc ? "[a∈ℬ(" + a.b1 + ")] " + it.alias + "[a]" : it.alias + "∪" + a.alias; break;
    case 4: {
      if (later.empty()) { it.def = isStmt ? "D8=" + a.alias : isFunc ? "[a∈ℬ(X9)] a" : "D8∪" + a.alias; break; }
      const auto& l = later[static_cast<size_t>(c.ipick(0, static_cast<int>(later.size()) - 1))];
      it.def = isStmt ? l + "=" + a.alias : isFunc ? "[a∈ℬ(" + a.b1 + ")] a∪" + l : l + "∪" + a.alias;
      break;
    }
    case 5: it.def.clear(); break;
    default: {  // a token the lexer cannot classify in the MIDDLE of the definition: the mentions after it are mentions all the same
      static const char* junk[] = {" # ", "\xE2\x88\xAA{99999999999}\xE2\x88\xAA", " ? ", " \xD0\x96 ", "\xE2\x88\xAApr0(", " $"};
      it.def = a.alias + junk[c.ipick(0, 5)] + b.alias + (fam == 7 ? "\xE2\x88\xAA" + a.alias : "");
      break;
    }
  }
  it.sort = 0;
}

inline std::string genRefTo(const std::string& alias) { return "@{" + alias + "|sing,nomn}"; }

inline void genTexts(pbt::Ctx& c, Spec& sp, size_t i) {
  auto& it = sp.items[i];
  const int n = static_cast<int>(sp.items.size());
  auto anyAlias = [&]() -> std::string { const int k = c.ipick(0, n); return k == n ? std::string("X9") : sp.items[static_cast<size_t>(k)].alias; };
  { const int k = c.ipick(0, 7); it.conv = k < 5 ? "" : k == 5 ? "c1" : k == 6 ? "c2" : "see " + anyAlias(); }
  {
    const int k = c.ipick(0, 9);
    if (k < 4) it.term.clear();
    else if (k < 7) it.term = "t" + std::to_string(k - 3);
    else if (k < 9) it.term = i == 0 ? std::string("t1") : genRefTo(sp.items[static_cast<size_t>(c.ipick(0, static_cast<int>(i) - 1))].alias) + " w";  // only earlier items: no term cycles
    else it.term = genRefTo("X9") + " q";
  }
  { const int k = c.ipick(0, 7); it.text = k < 5 ? "" : k == 5 ? "d1" : k == 6 ? "about " + genRefTo(anyAlias()) : "d2 " + genRefTo("X9"); }
}

inline Spec genSpec(pbt::Ctx& c, const GenOpts& o = {}) {
  using detail::P;
  Spec sp;
  const int nX = c.ipick(1, 3);
  const int nC = rare(c, 4) ? 1 : 0;
  const int nS = c.ipick(0, 2);
  const int nR = c.ipick(o.minRest, o.maxRest);
  for (int i = 0; i < nX; ++i) { Item it; it.type = CstType::base; it.alias = "X" + std::to_string(i + 1); it.sort = 1; it.b1 = it.alias; sp.items.push_back(it); }
  for (int i = 0; i < nC; ++i) { Item it; it.type = CstType::constant; it.alias = "C" + std::to_string(i + 1); it.sort = 1; it.b1 = it.alias; sp.items.push_back(it); }
  auto baseName = [&]() { return "X" + std::to_string(c.ipick(1, nX)); };
  for (int i = 0; i < nS; ++i) {
    Item it; it.type = CstType::structured; it.alias = "S" + std::to_string(i + 1);
    const int k = c.ipick(0, 9);
    if (k < 4) { it.b1 = baseName(); it.def = "ℬ(" + it.b1 + ")"; it.sort = 1; }
    else if (k < 7) { it.b1 = baseName(); it.b2 = baseName(); it.def = "ℬ(" + it.b1 + "×" + it.b2 + ")"; it.sort = 2; }
    else if (k == 7) { it.b1 = nC ? std::string("C1") : baseName(); it.def = "ℬ(" + it.b1 + ")"; it.sort = 1; }
    else if (k == 8) { it.def = baseName(); it.sort = 0; }
    else { it.def = "ℬ(X9)"; it.sort = 0; }
    sp.items.push_back(it);
  }
  const size_t firstRest = sp.items.size();
  int nD = 0, nA = 0, nF = 0;
  for (int i = 0; i < nR; ++i) {
    Item it;
    const int k = c.ipick(0, 9);
    if (k < 6) { it.type = CstType::term; it.alias = "D" + std::to_string(++nD); }
    else if (k < 8) { it.type = CstType::axiom; it.alias = "A" + std::to_string(++nA); }
    else { it.type = CstType::function; it.alias = "F" + std::to_string(++nF); }
    sp.items.push_back(it);
  }
  // dependency rank: the order in which definitions are generated is a permutation of the creation order
  std::vector<size_t> remaining, order;
  for (size_t i = firstRest; i < sp.items.size(); ++i) remaining.push_back(i);
  while (!remaining.empty()) { const int k = c.ipick(0, static_cast<int>(remaining.size()) - 1); order.push_back(remaining[static_cast<size_t>(k)]); remaining.erase(remaining.begin() + k); }
  for (size_t r = 0; r < order.size(); ++r) {
    std::vector<P> pool;
    for (size_t i = 0; i < firstRest; ++i) if (sp.items[i].sort != 0) pool.push_back({sp.items[i].alias, sp.items[i].sort, sp.items[i].b1, sp.items[i].b2});
    for (size_t q = 0; q < r; ++q) { const auto& d = sp.items[order[q]]; if (d.sort != 0) pool.push_back({d.alias, d.sort, d.b1, d.b2, true}); }
    std::vector<std::string> later;
    for (size_t q = r + 1; q < order.size(); ++q) later.push_back(sp.items[order[q]].alias);
    genDefinition(c, sp.items[order[r]], pool, later, o);
  }
  if (o.texts) for (size_t i = 0; i < sp.items.size(); ++i) genTexts(c, sp, i);
  const int n = static_cast<int>(sp.items.size());
  const int nM = c.ipick(0, o.maxMoves);
  for (int i = 0; i < nM; ++i) { Move m; m.what = c.ipick(0, n - 1); m.where = c.ipick(0, n); sp.moves.push_back(m); }
  return sp;
}

// next alias the API will issue for a kind, given the items already in the spec (no erasures happen while building)
inline std::string nextAlias(const Spec& sp, CstType t) {
  int n = 0;
  for (const auto& it : sp.items) if (it.type == t) ++n;
  return std::string(1, letterOf(t)) + std::to_string(n + 1);
}

// ---------------------------------------------------------------------------------------------------------------
// building through the RSForm API
inline bool applyTexts(RSForm& s, EntityUID uid, const Item& it) {
  if (!it.conv.empty()) s.SetConventionFor(uid, it.conv);
  if (!it.term.empty()) s.SetTermFor(uid, it.term);
  if (!it.text.empty()) s.SetDefinitionFor(uid, it.text);
  return true;
}
inline void applyMoves(RSForm& s, const std::vector<Move>& moves, const std::vector<EntityUID>& uids) {
  for (const auto& m : moves) {
    if (m.what < 0 || m.what >= static_cast<int>(uids.size())) continue;
    const auto where = m.where >= static_cast<int>(uids.size()) ? s.List().end() : s.List().Find(uids[static_cast<size_t>(m.where)]);
    s.MoveBefore(uids[static_cast<size_t>(m.what)], where);  // refused (false) when the kind ordering would be violated
  }
}
// returns false when the API issued an alias the generator did not predict (harness problem: the case is discarded)
inline bool build(RSForm& s, const Spec& sp, std::vector<EntityUID>& uids) {
  uids.clear();
  for (const auto& it : sp.items) {
    const auto uid = s.Emplace(it.type, it.def);
    if (s.GetRS(uid).alias != it.alias) return false;
    uids.push_back(uid);
  }
  for (size_t i = 0; i < sp.items.size(); ++i) applyTexts(s, uids[i], sp.items[i]);
  applyMoves(s, sp.moves, uids);
  s.UpdateState();  // statuses from scratch: incremental re-analysis is another property's subject
  return true;
}

}  // namespace sgen
