// M2/M3 - types, values, typed contexts, a type-directed expression generator and a naive set-theoretic
// evaluator for RSLang.  Independent of the library's TypeAuditor / ASTInterpreter: values are plain
// ints / vectors / sorted vectors, evaluation is by enumeration and substitution.
#pragma once

#include "model/rsast.hpp"

#include <map>
#include <set>
#include <stdexcept>

namespace rs {

// ------------------------------------------------------------------------------------------------ types
struct Ty {
  enum K { BASE, TUPLE, SET, LOGIC } k = BASE;
  std::string base;        // BASE: "X1", "C1", "Z", "R1" (radical), "R0" (any)
  std::vector<Ty> comps;   // TUPLE components / SET element (comps[0])
  static Ty Base(std::string n) { Ty t; t.k = BASE; t.base = std::move(n); return t; }
  static Ty Tuple(std::vector<Ty> c) { if (c.size() == 1) return c[0]; Ty t; t.k = TUPLE; t.comps = std::move(c); return t; }
  static Ty Set(Ty e) { Ty t; t.k = SET; t.comps = {std::move(e)}; return t; }
  static Ty Logic() { Ty t; t.k = LOGIC; return t; }
  const Ty& elem() const { return comps[0]; }
  bool isSet() const { return k == SET; }
  bool isTuple() const { return k == TUPLE; }
  bool isBase() const { return k == BASE; }
  bool isAny() const { return k == BASE && base == "R0"; }
  bool operator==(const Ty& o) const { return k == o.k && base == o.base && comps == o.comps; }
  bool operator!=(const Ty& o) const { return !(*this == o); }
  bool operator<(const Ty& o) const { return str() < o.str(); }
  int depth() const { int d = 0; for (auto& c : comps) d = std::max(d, c.depth()); return (k == BASE || k == LOGIC) ? 0 : d + 1; }
  // spelling of Typification::ToString as documented by upstream's testTypification
  std::string str() const {
    switch (k) {
      case LOGIC: return "LOGIC";
      case BASE: return base;
      case TUPLE: { std::string s; for (size_t i = 0; i < comps.size(); ++i) { if (i) s += "\xC3\x97"; s += comps[i].isTuple() ? "(" + comps[i].str() + ")" : comps[i].str(); } return s; }
      case SET: return elem().isSet() ? "\xE2\x84\xAC" + elem().str() : "\xE2\x84\xAC(" + elem().str() + ")";
    }
    return "?";
  }
  bool mentions(const std::string& b) const { if (k == BASE) return base == b; for (auto& c : comps) if (c.mentions(b)) return true; return false; }
  bool hasRadical() const { if (k == BASE) return base.size() > 1 && base[0] == 'R' && base[1] != '0'; for (auto& c : comps) if (c.hasRadical()) return true; return false; }
  Ty subst(const std::map<std::string, Ty>& m) const {
    if (k == BASE) { auto it = m.find(base); return it == m.end() ? *this : it->second; }
    Ty t = *this; for (auto& c : t.comps) c = c.subst(m); return t;
  }
};

// "typification expression" whose value is the set of all objects of type t (used as argument / structure domains)
inline EP domainExpr(const Ty& t) {
  switch (t.k) {
    case Ty::BASE:
      if (t.base == "Z") return mk(TID::LIT_INTSET);
      if (t.base.size() > 1 && t.base[0] == 'R') return mkName(TID::ID_RADICAL, t.base);
      return mkName(TID::ID_GLOBAL, t.base);
    case Ty::SET: return mk(TID::BOOLEAN, {domainExpr(t.elem())});
    case Ty::TUPLE: { std::vector<EP> k; for (auto& c : t.comps) k.push_back(domainExpr(c)); return mk(TID::DECART, k); }
    default: return mk(TID::LIT_EMPTYSET);
  }
}

// ------------------------------------------------------------------------------------------------ values
struct Val {
  enum K { INT, TUPLE, SET } k = INT;
  int64_t i = 0;
  std::vector<Val> items;  // tuple components / set elements (sorted, unique)
  static Val Int(int64_t v) { Val x; x.k = INT; x.i = v; return x; }
  static Val Tuple(std::vector<Val> c) { if (c.size() == 1) return c[0]; Val x; x.k = TUPLE; x.items = std::move(c); return x; }
  static Val Set(std::vector<Val> e) { Val x; x.k = SET; std::sort(e.begin(), e.end()); e.erase(std::unique(e.begin(), e.end()), e.end()); x.items = std::move(e); return x; }
  static Val Empty() { Val x; x.k = SET; return x; }
  int cmp(const Val& o) const {
    if (k != o.k) return k < o.k ? -1 : 1;
    if (k == INT) return i < o.i ? -1 : i > o.i ? 1 : 0;
    if (k == SET && items.size() != o.items.size()) return items.size() < o.items.size() ? -1 : 1;
    for (size_t n = 0; n < items.size() && n < o.items.size(); ++n) { const int c = items[n].cmp(o.items[n]); if (c) return c; }
    return items.size() < o.items.size() ? -1 : items.size() > o.items.size() ? 1 : 0;
  }
  bool operator<(const Val& o) const { return cmp(o) < 0; }
  bool operator==(const Val& o) const { return cmp(o) == 0; }
  bool operator!=(const Val& o) const { return cmp(o) != 0; }
  bool contains(const Val& e) const { return std::binary_search(items.begin(), items.end(), e); }
  std::string str() const {
    if (k == INT) return std::to_string(i);
    std::string s = k == TUPLE ? "(" : "{";
    for (size_t n = 0; n < items.size(); ++n) { if (n) s += ","; s += items[n].str(); }
    return s + (k == TUPLE ? ")" : "}");
  }
  int depth() const { int d = 0; for (auto& x : items) d = std::max(d, x.depth()); return k == INT ? 0 : d + 1; }
};

// does value v have the structure of type t (deep)
inline bool hasType(const Val& v, const Ty& t) {
  switch (t.k) {
    case Ty::BASE: return v.k == Val::INT;
    case Ty::TUPLE: if (v.k != Val::TUPLE || v.items.size() != t.comps.size()) return false; for (size_t i = 0; i < v.items.size(); ++i) if (!hasType(v.items[i], t.comps[i])) return false; return true;
    case Ty::SET: if (v.k != Val::SET) return false; for (auto& e : v.items) if (!hasType(e, t.elem())) return false; return true;
    default: return false;
  }
}

// ------------------------------------------------------------------------------------------------ contexts
struct FuncDef {
  std::string name;                                 // F1.. / P1..
  std::vector<std::pair<std::string, Ty>> args;     // declared (possibly templated) argument types
  Ty result;                                        // LOGIC for predicates
  EP body;
};
struct Global {
  std::string name;
  Ty type;       // type of the identifier as an expression (X1 : SET(BASE X1))
  Val value;
  int construction = 0;  // 0 enumerated, 1 lazy power set of `lazyOf`, 2 lazy product of `lazyFactors`
  std::vector<std::string> lazyParts;
  bool isBase = false, integral = false;
  bool props = false;    // value class 'props' (a property, e.g. a power set: may be tested for membership but not enumerated)
};
struct Gamma {
  std::vector<Global> globals;
  std::vector<FuncDef> funcs;
  const Global* find(const std::string& n) const { for (auto& g : globals) if (g.name == n) return &g; return nullptr; }
  const FuncDef* func(const std::string& n) const { for (auto& f : funcs) if (f.name == n) return &f; return nullptr; }
  bool integralBase(const std::string& b) const { if (b == "Z") return true; auto* g = find(b); return g && g->integral; }
};

struct Budget : std::runtime_error { Budget() : std::runtime_error("evaluation budget exceeded") {} };

// ------------------------------------------------------------------------------------------------ reference evaluator
struct Outcome {
  bool hasValue = false;   // a definite (non-error) outcome exists
  Val v;                   // term value
  bool b = false;          // formula value
  bool mayDebool = false;  // failing with "debool of a non-singleton" is admissible
  bool mayLimit = false;   // failing with a documented resource limit is admissible
  static Outcome Value(Val x) { Outcome o; o.hasValue = true; o.v = std::move(x); return o; }
  static Outcome Truth(bool x) { Outcome o; o.hasValue = true; o.b = x; return o; }
  static Outcome Debool() { Outcome o; o.mayDebool = true; return o; }
  static Outcome Limit() { Outcome o; o.mayLimit = true; return o; }
  void absorbErrors(const Outcome& x) { mayDebool |= x.mayDebool; mayLimit |= x.mayLimit; }
  bool pureError() const { return !hasValue; }
};

class Evaluator {
public:
  const Gamma& G;
  long steps = 0, budget = 400000;
  static constexpr int64_t kIntMax = 2147483647LL, kIntMin = -2147483648LL;
  static constexpr size_t kBoolLimit = 30;      // documented: power set of >= 30 elements is refused
  static constexpr size_t kSetLimit = 200000;   // model-side guard: larger intermediate sets make the case a discard

  struct Binding { bool isThunk = false; Val v; EP expr; std::shared_ptr<std::map<std::string, Binding>> env; };
  using Env = std::map<std::string, Binding>;

  explicit Evaluator(const Gamma& g) : G(g) {}

  Outcome eval(const EP& e) { Env env; return ev(*e, env); }

private:
  void tick(long n = 1) { steps += n; if (steps > budget) throw Budget(); }

  Outcome strict(std::vector<Outcome>& outs) {  // error summary of strictly evaluated children; hasValue iff all have
    Outcome r; r.hasValue = true;
    for (auto& o : outs) { r.absorbErrors(o); if (!o.hasValue) r.hasValue = false; }
    return r;
  }

  void bindPattern(const Expr& pat, const Val& v, Env& env) {
    if (pat.id == TID::ID_LOCAL) { Binding b; b.v = v; env[pat.name] = b; return; }
    for (size_t i = 0; i < pat.kids.size(); ++i) bindPattern(*pat.kids[i], v.items.at(i), env);
  }

  Outcome lookup(const std::string& name, Env& env) {
    auto it = env.find(name);
    if (it == env.end()) throw std::logic_error("model: unbound local " + name);
    if (!it->second.isThunk) return Outcome::Value(it->second.v);
    Env inner = *it->second.env;
    return ev(*it->second.expr, inner);
  }

  Outcome ev(const Expr& e, Env& env) {
    tick();
    switch (e.id) {
      case TID::ID_LOCAL: return lookup(e.name, env);
      case TID::ID_GLOBAL: { const Global* g = G.find(e.name); if (!g) throw std::logic_error("model: unknown global " + e.name); tick(static_cast<long>(g->value.items.size())); return Outcome::Value(g->value); }
      case TID::LIT_INTEGER: return Outcome::Value(Val::Int(e.num));
      case TID::LIT_EMPTYSET: return Outcome::Value(Val::Empty());
      case TID::LIT_INTSET: return Outcome::Limit();  // evaluating Z enumerates an infinite set: documented resource error

      case TID::PLUS: case TID::MINUS: case TID::MULTIPLY: {
        std::vector<Outcome> o{ev(*e.kids[0], env), ev(*e.kids[1], env)};
        Outcome r = strict(o); if (!r.hasValue) return r;
        const int64_t a = o[0].v.i, b = o[1].v.i;
        const int64_t x = e.id == TID::PLUS ? a + b : e.id == TID::MINUS ? a - b : a * b;
        if (x > kIntMax || x < kIntMin) { r.hasValue = false; r.mayLimit = true; return r; }  // outside the 32-bit data range: only a limit error is admissible
        r.v = Val::Int(x); return r;
      }
      case TID::CARD: { Outcome a = ev(*e.kids[0], env); if (!a.hasValue) return a; Outcome r = Outcome::Value(Val::Int(static_cast<int64_t>(a.v.items.size()))); r.absorbErrors(a); return r; }

      case TID::UNION: case TID::INTERSECTION: case TID::SET_MINUS: case TID::SYMMINUS: {
        std::vector<Outcome> o{ev(*e.kids[0], env), ev(*e.kids[1], env)};
        Outcome r = strict(o); if (!r.hasValue) return r;
        const auto& A = o[0].v.items; const auto& B = o[1].v.items;
        tick(static_cast<long>(A.size() + B.size()));
        std::vector<Val> out;
        if (e.id == TID::UNION) std::set_union(A.begin(), A.end(), B.begin(), B.end(), std::back_inserter(out));
        else if (e.id == TID::INTERSECTION) std::set_intersection(A.begin(), A.end(), B.begin(), B.end(), std::back_inserter(out));
        else if (e.id == TID::SET_MINUS) std::set_difference(A.begin(), A.end(), B.begin(), B.end(), std::back_inserter(out));
        else std::set_symmetric_difference(A.begin(), A.end(), B.begin(), B.end(), std::back_inserter(out));
        r.v = Val::Set(out); return r;
      }
      case TID::DECART: {
        std::vector<Outcome> o; for (auto& k : e.kids) o.push_back(ev(*k, env));
        Outcome r = strict(o); if (!r.hasValue) return r;
        std::vector<Val> acc{Val::Tuple({})};
        acc[0].k = Val::TUPLE;
        for (auto& f : o) {
          std::vector<Val> next;
          if (acc.size() * f.v.items.size() > kSetLimit) throw Budget();
          for (auto& t : acc) for (auto& x : f.v.items) { Val n = t; n.items.push_back(x); next.push_back(n); }
          tick(static_cast<long>(next.size()));
          acc = std::move(next);
        }
        r.v = Val::Set(acc); return r;
      }
      case TID::BOOLEAN: {
        Outcome a = ev(*e.kids[0], env); if (!a.hasValue) return a;
        const size_t n = a.v.items.size();
        if (n >= kBoolLimit) { Outcome r = Outcome::Limit(); r.absorbErrors(a); return r; }
        if (n > 14) throw Budget();
        std::vector<Val> subsets;
        for (size_t mask = 0; mask < (size_t{1} << n); ++mask) { std::vector<Val> s; for (size_t i = 0; i < n; ++i) if (mask >> i & 1) s.push_back(a.v.items[i]); subsets.push_back(Val::Set(s)); }
        tick(static_cast<long>(subsets.size() * (n + 1)));
        Outcome r = Outcome::Value(Val::Set(subsets)); r.absorbErrors(a); return r;
      }
      case TID::BOOL: { Outcome a = ev(*e.kids[0], env); if (!a.hasValue) return a; Outcome r = Outcome::Value(Val::Set({a.v})); r.absorbErrors(a); return r; }
      case TID::DEBOOL: {
        Outcome a = ev(*e.kids[0], env); if (!a.hasValue) return a;
        if (a.v.items.size() != 1) { Outcome r = Outcome::Debool(); r.absorbErrors(a); return r; }
        Outcome r = Outcome::Value(a.v.items[0]); r.absorbErrors(a); return r;
      }
      case TID::REDUCE: {
        Outcome a = ev(*e.kids[0], env); if (!a.hasValue) return a;
        std::vector<Val> out; for (auto& s : a.v.items) for (auto& x : s.items) out.push_back(x);
        tick(static_cast<long>(out.size()));
        Outcome r = Outcome::Value(Val::Set(out)); r.absorbErrors(a); return r;
      }
      case TID::BIGPR: {
        Outcome a = ev(*e.kids[0], env); if (!a.hasValue) return a;
        std::vector<Val> out;
        for (auto& t : a.v.items) { std::vector<Val> c; for (int i : e.idx) c.push_back(t.items.at(static_cast<size_t>(i - 1))); out.push_back(Val::Tuple(c)); }
        tick(static_cast<long>(out.size()));
        Outcome r = Outcome::Value(Val::Set(out)); r.absorbErrors(a); return r;
      }
      case TID::SMALLPR: {
        Outcome a = ev(*e.kids[0], env); if (!a.hasValue) return a;
        std::vector<Val> c; for (int i : e.idx) c.push_back(a.v.items.at(static_cast<size_t>(i - 1)));
        Outcome r = Outcome::Value(Val::Tuple(c)); r.absorbErrors(a); return r;
      }
      case TID::FILTER: {
        // documented evaluation order: argument first (empty => empty), then parameters left to right (an empty one => empty)
        Outcome arg = ev(*e.kids.back(), env); if (!arg.hasValue) return arg;
        Outcome r = Outcome::Value(Val::Empty()); r.absorbErrors(arg);
        if (arg.v.items.empty()) return r;
        const size_t np = e.kids.size() - 1;
        const bool tupleParam = np == e.idx.size();
        std::vector<Val> params;
        for (size_t i = 0; i < np; ++i) {
          Outcome p = ev(*e.kids[i], env); r.absorbErrors(p);
          if (!p.hasValue) { r.hasValue = false; return r; }
          if (p.v.items.empty()) return r;
          params.push_back(p.v);
        }
        std::vector<Val> out;
        for (auto& t : arg.v.items) {
          bool ok = true;
          if (tupleParam) { for (size_t i = 0; i < np && ok; ++i) ok = params[i].contains(t.items.at(static_cast<size_t>(e.idx[i] - 1))); }
          else { std::vector<Val> c; for (int i : e.idx) c.push_back(t.items.at(static_cast<size_t>(i - 1))); ok = params[0].contains(Val::Tuple(c)); }
          if (ok) out.push_back(t);
        }
        tick(static_cast<long>(arg.v.items.size() * np));
        r.v = Val::Set(out); return r;
      }
      case TID::NT_TUPLE: {
        std::vector<Outcome> o; for (auto& k : e.kids) o.push_back(ev(*k, env));
        Outcome r = strict(o); if (!r.hasValue) return r;
        std::vector<Val> c; for (auto& x : o) c.push_back(x.v);
        r.v = Val::Tuple(c); return r;
      }
      case TID::NT_ENUMERATION: {
        std::vector<Outcome> o; for (auto& k : e.kids) o.push_back(ev(*k, env));
        Outcome r = strict(o); if (!r.hasValue) return r;
        std::vector<Val> c; for (auto& x : o) c.push_back(x.v);
        r.v = Val::Set(c); return r;
      }
      case TID::NT_DECLARATIVE_EXPR: {
        Outcome dom = ev(*e.kids[1], env); if (!dom.hasValue) return dom;
        Outcome r = Outcome::Value(Val::Empty()); r.absorbErrors(dom);
        std::vector<Val> out;
        for (auto& x : dom.v.items) {
          Env inner = env; bindPattern(*e.kids[0], x, inner);
          Outcome p = ev(*e.kids[2], inner); r.absorbErrors(p);
          if (!p.hasValue) { r.hasValue = false; return r; }
          if (p.b) out.push_back(x);
        }
        r.v = Val::Set(out); return r;
      }
      case TID::NT_RECURSIVE_FULL: case TID::NT_RECURSIVE_SHORT: {
        Outcome init = ev(*e.kids[1], env); if (!init.hasValue) return init;
        Outcome r = Outcome::Value(init.v); r.absorbErrors(init);
        const bool full = e.id == TID::NT_RECURSIVE_FULL;
        Val cur = init.v;
        for (int it = 0;; ++it) {
          if (it > 2000) throw Budget();
          Env inner = env; bindPattern(*e.kids[0], cur, inner);
          if (full) { Outcome c = ev(*e.kids[2], inner); r.absorbErrors(c); if (!c.hasValue) { r.hasValue = false; return r; } if (!c.b) break; }
          Outcome nx = ev(*e.kids[full ? 3 : 2], inner); r.absorbErrors(nx);
          if (!nx.hasValue) { r.hasValue = false; return r; }
          if (nx.v == cur) break;
          cur = nx.v;
        }
        r.v = cur; return r;
      }
      case TID::NT_IMPERATIVE_EXPR: {
        Outcome r = Outcome::Value(Val::Empty());
        std::vector<Val> out;
        bool failed = false;
        std::function<void(size_t, Env&)> run = [&](size_t blk, Env& cur) {
          if (failed) return;
          tick();
          if (blk >= e.kids.size()) { Outcome x = ev(*e.kids[0], cur); r.absorbErrors(x); if (!x.hasValue) { failed = true; return; } out.push_back(x.v); return; }
          const Expr& b = *e.kids[blk];
          if (b.id == TID::ITERATE) {
            Outcome d = ev(*b.kids[1], cur); r.absorbErrors(d); if (!d.hasValue) { failed = true; return; }
            for (auto& x : d.v.items) { Env inner = cur; bindPattern(*b.kids[0], x, inner); run(blk + 1, inner); if (failed) return; }
          } else if (b.id == TID::ASSIGN) {
            Outcome d = ev(*b.kids[1], cur); r.absorbErrors(d); if (!d.hasValue) { failed = true; return; }
            Env inner = cur; bindPattern(*b.kids[0], d.v, inner); run(blk + 1, inner);
          } else {
            Outcome g = ev(b, cur); r.absorbErrors(g); if (!g.hasValue) { failed = true; return; }
            if (g.b) run(blk + 1, cur);
          }
        };
        run(1, env);
        if (failed) { r.hasValue = false; return r; }
        r.v = Val::Set(out); return r;
      }
      case TID::NT_FUNC_CALL: {
        const FuncDef* f = G.func(e.kids[0]->name);
        if (!f) throw std::logic_error("model: unknown function " + e.kids[0]->name);
        auto callerEnv = std::make_shared<Env>(env);
        Env inner;
        for (size_t i = 0; i < f->args.size(); ++i) { Binding b; b.isThunk = true; b.expr = e.kids[i + 1]; b.env = callerEnv; inner[f->args[i].first] = b; }
        return ev(*f->body, inner);
      }

      // ---- formulas
      case TID::NOT: { Outcome a = ev(*e.kids[0], env); if (a.hasValue) a.b = !a.b; return a; }
      case TID::AND: case TID::OR: case TID::IMPLICATION: {
        Outcome l = ev(*e.kids[0], env); if (!l.hasValue) return l;
        const bool decided = (e.id == TID::AND && !l.b) || (e.id == TID::OR && l.b) || (e.id == TID::IMPLICATION && !l.b);
        if (decided) { Outcome r = Outcome::Truth(e.id == TID::AND ? false : true); r.absorbErrors(l); return r; }
        Outcome rr = ev(*e.kids[1], env); rr.absorbErrors(l);
        return rr;  // with the left operand not deciding, the result is the right operand's value for &, ∨, ⇒
      }
      case TID::EQUIVALENT: {
        std::vector<Outcome> o{ev(*e.kids[0], env), ev(*e.kids[1], env)};
        Outcome r = strict(o); if (!r.hasValue) return r; r.b = o[0].b == o[1].b; return r;
      }
      case TID::FORALL: case TID::EXISTS: {
        const bool universal = e.id == TID::FORALL;
        Outcome dom = ev(*e.kids[1], env); if (!dom.hasValue) return dom;
        // enumerated declaration a,b∈S == nested quantifiers; tuple pattern == projection
        std::vector<const Expr*> vars;
        if (e.kids[0]->id == TID::NT_ENUM_DECL) for (auto& k : e.kids[0]->kids) vars.push_back(k.get()); else vars.push_back(e.kids[0].get());
        Outcome r = Outcome::Truth(universal); r.absorbErrors(dom);
        bool anyDeciding = false, anyPureError = false;
        std::function<void(size_t, Env&)> rec = [&](size_t vi, Env& cur) {
          if (vi == vars.size()) {
            Outcome p = ev(*e.kids[2], cur); r.absorbErrors(p);
            if (!p.hasValue) anyPureError = true; else if (p.b != universal) anyDeciding = true;
            return;
          }
          for (auto& x : dom.v.items) { tick(); Env inner = cur; bindPattern(*vars[vi], x, inner); rec(vi + 1, inner); }
        };
        rec(0, env);
        if (anyDeciding) { r.b = !universal; return r; }          // a deciding element exists: that value, or an error met before it
        if (anyPureError) { r.hasValue = false; return r; }       // nothing decides and some element only fails: the error is the only outcome
        r.b = universal; return r;
      }
      case TID::EQUAL: case TID::NOTEQUAL: {
        std::vector<Outcome> o{ev(*e.kids[0], env), ev(*e.kids[1], env)};
        Outcome r = strict(o); if (!r.hasValue) return r; r.b = (o[0].v == o[1].v) == (e.id == TID::EQUAL); return r;
      }
      case TID::GREATER: case TID::LESSER: case TID::GREATER_OR_EQ: case TID::LESSER_OR_EQ: {
        std::vector<Outcome> o{ev(*e.kids[0], env), ev(*e.kids[1], env)};
        Outcome r = strict(o); if (!r.hasValue) return r;
        const int64_t a = o[0].v.i, b = o[1].v.i;
        r.b = e.id == TID::GREATER ? a > b : e.id == TID::LESSER ? a < b : e.id == TID::GREATER_OR_EQ ? a >= b : a <= b; return r;
      }
      case TID::IN: case TID::NOTIN: case TID::SUBSET: case TID::SUBSET_OR_EQ: case TID::NOTSUBSET: {
        // x ∈ ℬ(S) and x ∈ A×B are decided structurally by the library without enumerating: model that the same way
        std::vector<Outcome> o{ev(*e.kids[0], env), evalRhsSet(*e.kids[1], env)};
        Outcome r = strict(o); if (!r.hasValue) return r;
        const Val& a = o[0].v; const Val& b = o[1].v;
        auto subseteq = [&] { return std::includes(b.items.begin(), b.items.end(), a.items.begin(), a.items.end()); };
        switch (e.id) {
          case TID::IN: r.b = b.contains(a); break;
          case TID::NOTIN: r.b = !b.contains(a); break;
          case TID::SUBSET_OR_EQ: r.b = subseteq(); break;
          case TID::SUBSET: r.b = subseteq() && a != b; break;
          default: r.b = !(subseteq() && a != b); break;  // ⊄ : not a proper subset
        }
        return r;
      }
      default: throw std::logic_error(std::string("model: cannot evaluate node ") + kindName(e.id));
    }
  }
  Outcome evalRhsSet(const Expr& e, Env& env) { return ev(e, env); }
};

// ------------------------------------------------------------------------------------------------ context + expression generator
struct TypedGen {
  pbt::Ctx& c;
  Gamma G;
  struct Local { std::string name; Ty type; };
  std::vector<Local> scope;           // enabled locals
  std::set<std::string> everUsed;     // names declared anywhere in this expression (re-use after scope end is legal but warned)
  bool allowZ = false;                // LIT_INTSET (always a resource error when evaluated)
  bool features[8] = {};              // 0 call, 1 tuple-pattern, 2 enum-decl, 3 recursion, 4 imperative, 5 filter, 6 lazy global, 7 debool
  int ops = 0, binders = 0;
  std::string currentFunc;            // while generating a function body
  bool optConstant = true;            // context may contain the integer-like constant set C1
  bool optDerived = true;             // context may contain derived globals that carry data directly (D..)
  int optMinBase = 0;                 // minimal number of elements of a base set
  bool optRichTemplates = false;      // every function is a template whose argument types are tuples / sets of tuples / nested sets over shared radicals
  bool optFreeProjections = false;    // Pr with arbitrary index lists (repeated, permuted) instead of increasing ones
  bool optReuseNames = false;         // binders prefer names whose earlier scope has ended (legal re-declaration in sibling / domain scopes)

  explicit TypedGen(pbt::Ctx& ctx) : c(ctx) {}

  // ---- types
  Ty randBase() { std::vector<std::string> b; for (auto& g : G.globals) if (g.isBase) b.push_back(g.name); b.push_back("Z"); return Ty::Base(c.oneof(b)); }
  Ty randType(int depth) {
    if (depth <= 0 || c.chance(2, 5)) return randBase();
    if (c.coin()) return Ty::Set(randType(depth - 1));
    std::vector<Ty> cs; const int n = c.ipick(2, 3); for (int i = 0; i < n; ++i) cs.push_back(randType(depth - 1));
    return Ty::Tuple(cs);
  }
  // ---- values
  Val randValue(const Ty& t, int maxSet = 3) {
    switch (t.k) {
      case Ty::BASE: {
        if (t.base == "Z") return Val::Int(c.chance(1, 10) ? c.pick(-3, 40) : c.pick(0, 4));
        const Global* g = G.find(t.base);
        if (!g || g->value.items.empty()) return Val::Int(c.pick(1, 3));  // empty base: generate ids anyway (still structurally typed)
        return c.oneof(g->value.items);
      }
      case Ty::TUPLE: { std::vector<Val> cs; for (auto& ct : t.comps) cs.push_back(randValue(ct, maxSet)); return Val::Tuple(cs); }
      case Ty::SET: { std::vector<Val> es; const int n = c.ipick(0, maxSet); for (int i = 0; i < n; ++i) es.push_back(randValue(t.elem(), std::max(1, maxSet - 1))); return Val::Set(es); }
      default: return Val::Int(0);
    }
  }

  // ---- context
  void makeContext() {
    const int nb = c.ipick(1, 2);
    for (int i = 1; i <= nb; ++i) {
      Global g; g.name = "X" + std::to_string(i); g.isBase = true; g.type = Ty::Set(Ty::Base(g.name));
      std::vector<Val> es; const int n = c.ipick(optMinBase, 4); for (int k = 1; k <= n; ++k) es.push_back(Val::Int(k));
      g.value = Val::Set(es); G.globals.push_back(g);
    }
    if (optConstant && c.chance(1, 2)) {
      Global g; g.name = "C1"; g.isBase = true; g.integral = true; g.type = Ty::Set(Ty::Base("C1"));
      std::vector<Val> es; const int n = c.ipick(1, 4); for (int k = 0; k < n; ++k) es.push_back(Val::Int(c.pick(0, 6)));
      g.value = Val::Set(es); G.globals.push_back(g);
    }
    // element-typed globals (terms like D7:==debool(...) in real schemas) so that elements of nominal bases have names
    for (int i = 1; optDerived && i <= nb; ++i) {
      const Global& b = G.globals[static_cast<size_t>(i - 1)];
      if (b.value.items.empty() || !c.chance(3, 4)) continue;
      Global g; g.name = "D" + std::to_string(6 + i); g.type = Ty::Base(b.name); g.value = c.oneof(b.value.items); G.globals.push_back(g);
    }
    const int ns = c.ipick(1, 3);
    for (int i = 1; i <= ns; ++i) {
      Global g; g.name = "S" + std::to_string(i); g.type = Ty::Set(randType(2)); g.value = randValue(g.type, 4); G.globals.push_back(g);
    }
    // derived globals with data, some in lazy constructions
    const int nd = optDerived ? c.ipick(0, 3) : 0;
    for (int i = 1; i <= nd; ++i) {
      Global g; g.name = "D" + std::to_string(i);
      const int kind = c.ipick(0, 3);
      std::vector<const Global*> setGlobals; for (auto& x : G.globals) if (x.type.isSet() && x.value.items.size() <= 4) setGlobals.push_back(&x);
      if (kind == 1 && !setGlobals.empty()) {  // full power set of a small set global
        const Global* b = c.oneof(setGlobals);
        g.type = Ty::Set(b->type); g.construction = 1; g.lazyParts = {b->name}; g.props = c.coin();
        std::vector<Val> subs; const size_t n = b->value.items.size();
        for (size_t m = 0; m < (size_t{1} << n); ++m) { std::vector<Val> s; for (size_t k = 0; k < n; ++k) if (m >> k & 1) s.push_back(b->value.items[k]); subs.push_back(Val::Set(s)); }
        g.value = Val::Set(subs);
      } else if (kind == 2 && setGlobals.size() >= 1) {  // full product
        const Global* a = c.oneof(setGlobals); const Global* b = c.oneof(setGlobals);
        g.type = Ty::Set(Ty::Tuple({a->type.elem(), b->type.elem()})); g.construction = 2; g.lazyParts = {a->name, b->name};
        std::vector<Val> ts; for (auto& x : a->value.items) for (auto& y : b->value.items) ts.push_back(Val::Tuple({x, y}));
        g.value = Val::Set(ts);
      } else {
        g.type = randType(2); g.value = randValue(g.type, 3);
      }
      G.globals.push_back(g);
    }
    // term functions and predicates (bodies generated with the arguments in scope)
    const int nf = optRichTemplates ? c.ipick(1, 3) : c.ipick(0, 2);
    for (int i = 1; i <= nf; ++i) {
      FuncDef f; const bool pred = c.chance(1, 3);
      f.name = (pred ? "P" : "F") + std::to_string(i);
      const bool templated = optRichTemplates || c.chance(1, 3);
      const int na = c.ipick(1, 2);
      static const std::vector<std::string> argNames = {"a", "b", "x", "s"};
      for (int k = 0; k < na; ++k) {
        Ty t;
        if (optRichTemplates) {
          const Ty r1 = Ty::Base("R1"), r2 = Ty::Base("R2");
          switch (c.ipick(0, 9)) {
            case 0: t = r1; break;
            case 1: t = r2; break;
            case 2: t = Ty::Set(r1); break;
            case 3: t = Ty::Set(r2); break;
            case 4: t = Ty::Tuple({r1, r2}); break;
            case 5: t = Ty::Tuple({r2, r1}); break;
            case 6: t = Ty::Set(Ty::Tuple({r1, r2})); break;
            case 7: t = Ty::Tuple({Ty::Set(r1), r2}); break;
            case 8: t = Ty::Set(Ty::Set(r1)); break;
            default: t = Ty::Set(Ty::Tuple({r1, r1, r2})); break;
          }
        } else if (templated) { const int w = c.ipick(0, 2); t = w == 0 ? Ty::Base("R1") : w == 1 ? Ty::Set(Ty::Base("R1")) : Ty::Set(Ty::Base(k == 0 ? "R1" : "R2")); }
        else t = randType(1 + c.ipick(0, 1));
        f.args.emplace_back(argNames[static_cast<size_t>(k)] + (c.chance(1, 4) ? "1" : ""), t);
      }
      if (f.args.size() == 2 && f.args[0].first == f.args[1].first) f.args[1].first += "2";
      auto savedScope = scope; auto savedUsed = everUsed;
      scope.clear(); everUsed.clear();
      for (auto& a : f.args) { scope.push_back({a.first, a.second}); everUsed.insert(a.first); }
      currentFunc = f.name;
      if (pred) { f.result = Ty::Logic(); f.body = genLogic(2); }
      else {
        // result type built from the argument types so that templated bodies have something to work with
        std::vector<Ty> cands; for (auto& a : f.args) { cands.push_back(a.second); if (a.second.isSet()) cands.push_back(a.second.elem()); else cands.push_back(Ty::Set(a.second)); }
        if (optRichTemplates) for (auto& a : f.args) { const Ty& core = a.second.isSet() ? a.second.elem() : a.second; if (core.isTuple()) for (auto& ct : core.comps) { cands.push_back(ct); cands.push_back(Ty::Set(ct)); } }
        cands.push_back(Ty::Base("Z"));
        if (!templated) cands.push_back(randType(2));
        f.result = c.oneof(cands);
        f.body = genTerm(f.result, 2);
      }
      currentFunc.clear();
      scope = savedScope; everUsed = savedUsed;
      G.funcs.push_back(f);
    }
  }

  // ---- names
  std::string freshLocal() {
    static const std::vector<std::string> pool = {"a", "b", "x", "y", "ab", "bc", "c", "t", "\xCE\xB1", "\xCE\xBE" "1", "a1", "s"};
    if (optReuseNames) {
      std::vector<std::string> released;
      for (auto& n : everUsed) { bool live = false; for (auto& l : scope) live |= l.name == n; if (!live) released.push_back(n); }
      if (!released.empty() && c.chance(3, 4)) return c.oneof(released);
    }
    // in name-reuse mode the pool is made of names that are concatenations of each other: distinct tuple patterns such
    // as (a,bc) / (ab,c) then spell the same text when their names are joined
    static const std::vector<std::string> joinable = {"a", "b", "c", "ab", "bc", "ba", "aa", "bb"};
    for (int tries = 0; tries < 30; ++tries) {
      const std::string n = c.oneof(optReuseNames ? joinable : pool);
      bool enabled = false; for (auto& l : scope) enabled |= l.name == n;
      if (!enabled) { everUsed.insert(n); return n; }
    }
    std::string n = "v" + std::to_string(everUsed.size()); everUsed.insert(n); return n;
  }
  // pattern for a value of type t: single local or (nested) tuple declaration; declares the locals in scope
  EP declare(const Ty& t, bool allowTuple = true) {
    if (t.isTuple() && allowTuple && c.chance(1, 2)) {
      features[1] = true;
      std::vector<EP> ks; for (auto& ct : t.comps) ks.push_back(declare(ct, true));
      return mk(TID::NT_TUPLE_DECL, ks);
    }
    const std::string n = freshLocal(); scope.push_back({n, t}); return mkName(TID::ID_LOCAL, n);
  }

  std::vector<const Global*> globalsOf(const Ty& t) { std::vector<const Global*> r; for (auto& g : G.globals) if (g.type == t) r.push_back(&g); return r; }
  std::vector<const Local*> localsOf(const Ty& t) { std::vector<const Local*> r; for (auto& l : scope) if (l.type == t) r.push_back(&l); return r; }
  bool integral(const Ty& t) const { return t.isBase() && G.integralBase(t.base); }

  // ---- terms of an exact type
  EP leaf(const Ty& t) {
    auto ls = localsOf(t); auto gs = globalsOf(t);
    const int nl = static_cast<int>(ls.size()), ng = static_cast<int>(gs.size());
    if (nl + ng > 0 && !(t.isBase() && t.base == "Z" && c.chance(1, 2))) {
      const int k = c.ipick(0, nl + ng - 1);
      if (k < nl) return mkName(TID::ID_LOCAL, ls[static_cast<size_t>(k)]->name);
      const Global* g = gs[static_cast<size_t>(k - nl)];
      if (g->construction) features[6] = true;
      return mkName(TID::ID_GLOBAL, g->name);
    }
    if (optRichTemplates && t.isBase() && (t.base == "R1" || t.base == "R2")) {
      // a radical-typed value can only be taken out of the parameters: projections of tuples, elements of sets
      std::vector<EP> ways;
      for (auto& l : scope) {
        const EP v = mkName(TID::ID_LOCAL, l.name);
        if (l.type.isTuple()) for (size_t i = 0; i < l.type.comps.size(); ++i) {
          if (l.type.comps[i] == t) ways.push_back(mkIdx(TID::SMALLPR, {static_cast<int>(i + 1)}, {v}));
          if (l.type.comps[i] == Ty::Set(t)) ways.push_back(mk(TID::DEBOOL, {mkIdx(TID::SMALLPR, {static_cast<int>(i + 1)}, {v})}));
        }
        if (l.type == Ty::Set(t)) ways.push_back(mk(TID::DEBOOL, {v}));
        if (l.type == Ty::Set(Ty::Set(t))) ways.push_back(mk(TID::DEBOOL, {mk(TID::DEBOOL, {v})}));
        if (l.type.isSet() && l.type.elem().isTuple()) for (size_t i = 0; i < l.type.elem().comps.size(); ++i)
          if (l.type.elem().comps[i] == t) ways.push_back(mk(TID::DEBOOL, {mkIdx(TID::BIGPR, {static_cast<int>(i + 1)}, {v})}));
      }
      if (!ways.empty()) { features[7] = true; return c.oneof(ways); }
    }
    switch (t.k) {
      case Ty::BASE:
        if (t.base == "Z") return mkInt(c.chance(1, 12) ? c.pick(0, 100000) : c.pick(0, 5));
        if (G.integralBase(t.base) && c.coin()) return mkInt(c.pick(0, 6));  // integer literal converts to the constant set's element type
        { // an element of a nominal base: take one out of a set of that type
          features[7] = true;
          return mk(TID::DEBOOL, {genTerm(Ty::Set(t), 0)});
        }
      case Ty::TUPLE: { std::vector<EP> ks; for (auto& ct : t.comps) ks.push_back(leaf(ct)); return mk(TID::NT_TUPLE, ks); }
      case Ty::SET: {
        if (t.elem().isBase() && G.find(t.elem().base) && G.find(t.elem().base)->isBase) return mkName(TID::ID_GLOBAL, t.elem().base);
        if (t.elem().isBase() && t.elem().base == "Z") { std::vector<EP> ks; const int n = c.ipick(1, 3); for (int i = 0; i < n; ++i) ks.push_back(mkInt(c.pick(0, 5))); return mk(TID::NT_ENUMERATION, ks); }
        if (t.elem().isSet()) return c.coin() ? mk(TID::NT_ENUMERATION, {leaf(t.elem())}) : mk(TID::BOOLEAN, {leaf(t.elem())});
        if (t.elem().isTuple()) { std::vector<EP> ks; for (auto& ct : t.elem().comps) ks.push_back(leaf(Ty::Set(ct))); return mk(TID::DECART, ks); }
        // set of radical-typed elements with nothing in scope: enumeration of a debool is the only way; fall through
        return mk(TID::NT_ENUMERATION, {leaf(t.elem())});
      }
      default: return mkInt(0);
    }
  }

  EP genTerm(const Ty& t, int depth) {
    if (depth <= 0) return leaf(t);
    ++ops;
    std::vector<int> opts;  // weighted option list
    auto add = [&](int id, int w) { for (int i = 0; i < w; ++i) opts.push_back(id); };
    add(0, 3);  // leaf
    add(1, 1);  // debool of a set
    add(2, 1);  // small projection out of a tuple
    add(3, 1);  // recursion
    for (auto& f : G.funcs) if (f.result.k != Ty::LOGIC) { add(4, 2); break; }
    if (t.isBase() && integral(t)) { add(10, 4); add(11, 2); }
    if (t.isTuple()) add(20, 4);
    if (t.isSet()) {
      add(30, 5); add(31, 3); add(32, 3); add(33, 2); add(34, 2); add(35, 2);
      if (t.elem().isSet()) add(36, 2);
      if (t.elem().isTuple()) { add(37, 3); add(38, 3); }
      add(39, 2);
    }
    const int opt = c.oneof(opts);
    switch (opt) {
      default: case 0: --ops; return leaf(t);
      case 1: features[7] = true; return mk(TID::DEBOOL, {c.chance(2, 3) ? mk(TID::NT_ENUMERATION, {genTerm(t, depth - 1)}) : genTerm(Ty::Set(t), depth - 1)});
      case 2: {  // pr_i of a tuple that has t at position i
        std::vector<Ty> cs; const int n = c.ipick(2, 3); const int pos = c.ipick(1, n);
        for (int i = 1; i <= n; ++i) cs.push_back(i == pos ? t : randType(1));
        return mkIdx(TID::SMALLPR, {pos}, {genTerm(Ty::Tuple(cs), depth - 1)});
      }
      case 3: {
        features[3] = true; ++binders;
        const auto saved = scope;
        EP init = genTerm(t, depth - 1);
        EP var = declare(t);
        EP step = genTerm(t, depth - 1);
        EP e;
        if (c.coin()) e = mk(TID::NT_RECURSIVE_SHORT, {var, init, step});
        else { EP cond = genLogic(depth - 1); e = mk(TID::NT_RECURSIVE_FULL, {var, init, cond, step}); }
        scope = saved; return e;
      }
      case 4: {  // call of a term function whose result type can be instantiated to t
        std::vector<const FuncDef*> fs;
        for (auto& f : G.funcs) if (f.result.k != Ty::LOGIC) fs.push_back(&f);
        for (int tries = 0; tries < 4; ++tries) {
          const FuncDef* f = c.oneof(fs);
          std::map<std::string, Ty> inst;
          if (!unify(f->result, t, inst)) continue;
          EP call = makeCall(*f, inst, depth);
          if (call) { features[0] = true; return call; }
        }
        --ops; return leaf(t);
      }
      case 10: { static const std::vector<TID> ar = {TID::PLUS, TID::MINUS, TID::MULTIPLY}; return mk(c.oneof(ar), {genTerm(t, depth - 1), genTerm(c.chance(1, 4) ? Ty::Base("Z") : t, depth - 1)}); }
      case 11: if (t.base == "Z") return mk(TID::CARD, {genTerm(Ty::Set(randType(1)), depth - 1)}); return genTerm(t, depth - 1);
      case 20: { std::vector<EP> ks; for (auto& ct : t.comps) ks.push_back(genTerm(ct, depth - 1)); return mk(TID::NT_TUPLE, ks); }
      case 30: { static const std::vector<TID> so = {TID::UNION, TID::INTERSECTION, TID::SET_MINUS, TID::SYMMINUS}; return mk(c.oneof(so), {genTerm(t, depth - 1), genTerm(t, depth - 1)}); }
      case 31: { std::vector<EP> ks; const int n = c.ipick(1, 3); for (int i = 0; i < n; ++i) ks.push_back(genTerm(t.elem(), depth - 1)); return mk(TID::NT_ENUMERATION, ks); }
      case 32: {  // declarative
        ++binders;
        const auto saved = scope;
        EP dom = genTerm(t, depth - 1);
        EP var = declare(t.elem());
        EP pred = genLogic(depth - 1);
        scope = saved; return mk(TID::NT_DECLARATIVE_EXPR, {var, dom, pred});
      }
      case 33: return mk(TID::BOOL, {genTerm(t.elem(), depth - 1)});
      case 34: {  // imperative
        features[4] = true; ++binders;
        const auto saved = scope;
        std::vector<EP> blocks;
        const int n = c.ipick(1, 3);
        for (int i = 0; i < n; ++i) {
          const int w = c.ipick(0, 2);
          if (w == 0) { Ty et = c.coin() ? t.elem() : randType(1); EP dom = genTerm(Ty::Set(et), depth - 1); EP var = declare(et); blocks.push_back(mk(TID::ITERATE, {var, dom})); }
          else if (w == 1) { Ty et = c.coin() ? t.elem() : randType(1); EP val = genTerm(et, depth - 1); EP var = declare(et); blocks.push_back(mk(TID::ASSIGN, {var, val})); }
          else blocks.push_back(genLogic(depth - 1));
        }
        EP value = genTerm(t.elem(), depth - 1);
        std::vector<EP> ks{value}; ks.insert(ks.end(), blocks.begin(), blocks.end());
        scope = saved; return mk(TID::NT_IMPERATIVE_EXPR, ks);
      }
      case 35: return mk(TID::REDUCE, {genTerm(Ty::Set(t), depth - 1)});
      case 36: return mk(TID::BOOLEAN, {genTerm(t.elem(), std::min(depth - 1, 1))});
      case 37: { std::vector<EP> ks; for (auto& ct : t.elem().comps) ks.push_back(genTerm(Ty::Set(ct), depth - 1)); return mk(TID::DECART, ks); }
      case 38: {  // filter
        features[5] = true;
        const auto& comps = t.elem().comps;
        std::vector<int> idx; const int n = c.ipick(1, static_cast<int>(std::min<size_t>(comps.size(), 2)));
        for (int i = 0; i < n; ++i) idx.push_back(c.ipick(1, static_cast<int>(comps.size())));
        std::vector<EP> ks;
        if (n >= 2 && c.coin()) { std::vector<Ty> cs; for (int i : idx) cs.push_back(comps[static_cast<size_t>(i - 1)]); ks.push_back(genTerm(Ty::Set(Ty::Tuple(cs)), depth - 1)); }
        else for (int i : idx) ks.push_back(genTerm(Ty::Set(comps[static_cast<size_t>(i - 1)]), depth - 1));
        ks.push_back(genTerm(t, depth - 1));
        return mkIdx(TID::FILTER, idx, ks);
      }
      case 39: {  // big projection of a set of tuples
        std::vector<Ty> want = t.elem().isTuple() ? t.elem().comps : std::vector<Ty>{t.elem()};
        if (optFreeProjections && c.chance(2, 3)) {
          std::vector<Ty> src;  // every wanted type at least once, sometimes again, sometimes a stranger
          for (auto& w : want) if (std::find(src.begin(), src.end(), w) == src.end() || c.chance(1, 3)) src.push_back(w);
          if (c.coin()) src.insert(src.begin() + c.ipick(0, static_cast<int>(src.size())), randType(1));
          if (src.size() < 2) src.push_back(randType(1));
          std::vector<int> ix;
          for (auto& w : want) { std::vector<int> pos; for (size_t i = 0; i < src.size(); ++i) if (src[i] == w) pos.push_back(static_cast<int>(i + 1)); ix.push_back(c.oneof(pos)); }
          return mkIdx(TID::BIGPR, ix, {genTerm(Ty::Set(Ty::Tuple(src)), depth - 1)});
        }
        std::vector<Ty> cs = want; std::vector<int> idx;
        const int extra = c.ipick(want.size() == 1 ? 1 : 0, 1);
        for (int i = 0; i < extra; ++i) cs.insert(cs.begin() + c.ipick(0, static_cast<int>(cs.size())), randType(1));
        // locate `want` inside cs in order
        size_t from = 0; bool ok = true;
        for (auto& w : want) { bool f = false; for (size_t i = from; i < cs.size(); ++i) if (cs[i] == w) { idx.push_back(static_cast<int>(i + 1)); from = i + 1; f = true; break; } ok = ok && f; }
        if (!ok || cs.size() < 2) { --ops; return leaf(t); }
        return mkIdx(TID::BIGPR, idx, {genTerm(Ty::Set(Ty::Tuple(cs)), depth - 1)});
      }
    }
  }

  // instantiate templated result type `pat` to `t`
  static bool unify(const Ty& pat, const Ty& t, std::map<std::string, Ty>& inst) {
    if (pat.isBase() && pat.base.size() > 1 && pat.base[0] == 'R' && pat.base[1] != '0') {
      auto it = inst.find(pat.base); if (it == inst.end()) { inst[pat.base] = t; return true; } return it->second == t;
    }
    if (pat.k != t.k) return false;
    if (pat.k == Ty::BASE) return pat.base == t.base;
    if (pat.k == Ty::LOGIC) return true;
    if (pat.comps.size() != t.comps.size()) return false;
    for (size_t i = 0; i < pat.comps.size(); ++i) if (!unify(pat.comps[i], t.comps[i], inst)) return false;
    return true;
  }
  EP makeCall(const FuncDef& f, std::map<std::string, Ty> inst, int depth) {
    // radicals not fixed by the result type get a random instantiation
    for (auto& a : f.args) for (const char* r : {"R1", "R2"}) if (a.second.mentions(r) && !inst.count(r)) inst[r] = randType(1);
    std::vector<EP> ks{mkName(f.result.k == Ty::LOGIC ? TID::ID_PREDICATE : TID::ID_FUNCTION, f.name)};
    for (auto& a : f.args) ks.push_back(genTerm(a.second.subst(inst), depth - 1));
    return mk(TID::NT_FUNC_CALL, ks);
  }

  // ---- formulas
  EP genLogic(int depth) {
    ++ops;
    const int k = depth <= 0 ? c.ipick(0, 39) : c.ipick(0, 99);
    if (k < 40) {  // atomic predicate
      const int w = c.ipick(0, 9);
      if (w < 3) { Ty t = randType(1); static const std::vector<TID> o = {TID::IN, TID::NOTIN}; return mk(c.oneof(o), {genTerm(t, depth - 1), genTerm(Ty::Set(t), depth - 1)}); }
      if (w < 5) { Ty t = Ty::Set(randType(1)); static const std::vector<TID> o = {TID::SUBSET, TID::SUBSET_OR_EQ, TID::NOTSUBSET}; return mk(c.oneof(o), {genTerm(t, depth - 1), genTerm(t, depth - 1)}); }
      if (w < 8) { Ty t = pickScopeTypeOr(randType(2)); static const std::vector<TID> o = {TID::EQUAL, TID::NOTEQUAL}; return mk(c.oneof(o), {genTerm(t, depth - 1), genTerm(t, depth - 1)}); }
      { static const std::vector<TID> o = {TID::GREATER, TID::LESSER, TID::GREATER_OR_EQ, TID::LESSER_OR_EQ}; Ty t = Ty::Base("Z"); return mk(c.oneof(o), {genTerm(t, depth - 1), genTerm(t, depth - 1)}); }
    }
    if (k < 65) { static const std::vector<TID> o = {TID::AND, TID::OR, TID::IMPLICATION, TID::EQUIVALENT}; return mk(c.oneof(o), {genLogic(depth - 1), genLogic(depth - 1)}); }
    if (k < 73) return mk(TID::NOT, {genLogic(depth - 1)});
    if (k < 94) {  // quantifier
      ++binders;
      const auto saved = scope;
      Ty et = optReuseNames && c.coin() ? Ty::Tuple({randType(1), randType(1)}) : pickScopeTypeOr(randType(2));
      EP dom = genTerm(Ty::Set(et), depth - 1);
      EP decl;
      if (optReuseNames ? c.coin() : c.chance(1, 5)) { features[2] = true; std::vector<EP> vs; const int n = c.ipick(2, 3); for (int i = 0; i < n; ++i) vs.push_back(declare(et)); decl = mk(TID::NT_ENUM_DECL, vs); }
      else decl = declare(et);
      EP body = genLogic(depth - 1);
      scope = saved;
      return mk(c.coin() ? TID::FORALL : TID::EXISTS, {decl, dom, body});
    }
    {  // predicate call
      std::vector<const FuncDef*> ps; for (auto& f : G.funcs) if (f.result.k == Ty::LOGIC) ps.push_back(&f);
      if (ps.empty()) return mk(TID::NOT, {genLogic(depth - 1)});
      features[0] = true;
      return makeCall(*c.oneof(ps), {}, depth);
    }
  }
  Ty pickScopeTypeOr(const Ty& fallback) {
    std::vector<Ty> ts; for (auto& l : scope) { ts.push_back(l.type); if (l.type.isSet()) ts.push_back(l.type.elem()); }
    for (auto& g : G.globals) if (g.type.isSet()) ts.push_back(g.type.elem());
    if (ts.empty() || c.chance(1, 3)) return fallback;
    return c.oneof(ts);
  }
};

}  // namespace rs
