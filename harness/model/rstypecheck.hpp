// M2 - reference typing judgment for RSLang, transcribed from the documented rules (upstream testTypeAuditor /
// testValueAuditor expectations and the rule comments): merge with the any-type R0, integer <-> constant conversion,
// empty set forbidden as direct operand of structure operators, arity / index checks, filter forms, radical mangling
// and substitution at calls, scope rules (shadowing = error, re-use after scope end = allowed, undeclared / out of
// scope = error), recursion type deduction.  Answers OK(type) | REJECT(rule) | UNSPEC (undocumented corner).
#pragma once

#include "model/rstyped.hpp"

namespace rs {

struct TR {
  enum St { OK, REJECT, UNSPEC } st = OK;
  Ty t;
  std::string rule;
  static TR Ok(Ty t) { TR r; r.t = std::move(t); return r; }
  static TR Rej(std::string rule) { TR r; r.st = REJECT; r.rule = std::move(rule); return r; }
  static TR Unspec(std::string rule) { TR r; r.st = UNSPEC; r.rule = std::move(rule); return r; }
  bool ok() const { return st == OK; }
};

enum class VClass { invalid, value, props };

class TypeJudge {
public:
  const Gamma& G;
  std::map<std::string, Ty> logicGlobals;  // extra globals whose type is LOGIC (axioms)
  std::vector<std::pair<std::string, Ty>> declaredArgs;  // of a function definition at the root

  explicit TypeJudge(const Gamma& g) : G(g) {}

  TR check(const EP& e) { locals.clear(); declaredArgs.clear(); funcDecl = false; return ty(*e, nullptr); }

private:
  struct Local { std::string name; Ty type; int level = 0; bool enabled = true; bool isArg = false; };
  std::vector<Local> locals;
  bool funcDecl = false;

  static bool isRadicalName(const std::string& b) { return b.size() > 1 && b[0] == 'R' && b[1] != '0'; }
  bool integralTy(const Ty& t) const { return t.isBase() && G.integralBase(t.base); }
  bool arithmetic(const Ty& t) const { return integralTy(t); }
  bool ordered(const Ty& t) const { return integralTy(t); }
  // integer converts to an integer-like constant type
  const Ty* common(const Ty& a, const Ty& b) const {
    if (a.isBase() && a.base == "Z") return (b.isBase() && G.integralBase(b.base)) ? &b : nullptr;
    if (b.isBase() && b.base == "Z") return (a.isBase() && G.integralBase(a.base)) ? &a : nullptr;
    return nullptr;
  }
  bool compatible(const Ty& a, const Ty& b) const {
    if (a.k == Ty::LOGIC || b.k == Ty::LOGIC) return a.k == b.k;
    if (a == b) return true;
    if (a.isAny() || b.isAny()) return true;
    if (a.k != b.k) return false;
    if (a.k == Ty::BASE) return common(a, b) != nullptr;
    if (a.comps.size() != b.comps.size()) return false;
    for (size_t i = 0; i < a.comps.size(); ++i) if (!compatible(a.comps[i], b.comps[i])) return false;
    return true;
  }
  std::optional<Ty> merge(const Ty& a, const Ty& b) const {
    if (a == b) return a;
    if (a.isAny()) return b;
    if (b.isAny()) return a;
    if (a.k != b.k) return std::nullopt;
    if (a.k == Ty::BASE) { const Ty* c = common(a, b); if (!c) return std::nullopt; return *c; }
    if (a.comps.size() != b.comps.size()) return std::nullopt;
    Ty r = a;
    for (size_t i = 0; i < a.comps.size(); ++i) { auto m = merge(a.comps[i], b.comps[i]); if (!m) return std::nullopt; r.comps[i] = *m; }
    return r;
  }
  bool compareTemplated(std::map<std::string, Ty>& subst, const Ty& arg, const Ty& value) const {
    if (arg == value) return true;
    if (arg.isBase() && isRadicalName(arg.base)) {
      auto it = subst.find(arg.base);
      if (it == subst.end()) { subst[arg.base] = value; return true; }
      auto m = merge(it->second, value); if (!m) return false; it->second = *m; return true;
    }
    if (value.isAny()) return true;
    if (arg.k != value.k) return false;
    if (arg.k == Ty::BASE) return common(arg, value) != nullptr;
    if (arg.comps.size() != value.comps.size()) return false;
    for (size_t i = 0; i < arg.comps.size(); ++i) if (!compareTemplated(subst, arg.comps[i], value.comps[i])) return false;
    return true;
  }
  static Ty mangle(const Ty& t, const std::string& fn) {
    if (t.isBase()) return isRadicalName(t.base) ? Ty::Base(t.base + fn) : t;
    Ty r = t; for (auto& c : r.comps) c = mangle(c, fn); return r;
  }

  void startScope() { for (auto& l : locals) ++l.level; }
  void endScope() { for (auto& l : locals) { --l.level; if (l.level < 0 && l.enabled) l.enabled = false; } }
  bool addLocal(const std::string& name, const Ty& t, bool isArg) {
    for (auto& l : locals) if (l.name == name) { if (l.enabled) return false; l.type = t; l.enabled = true; l.level = 0; return true; }
    Local l; l.name = name; l.type = t; l.isArg = isArg; locals.push_back(l); return true;
  }
  void clearScopeLocals() { locals.erase(std::remove_if(locals.begin(), locals.end(), [](const Local& l) { return l.level <= 0; }), locals.end()); }

  // declare the pattern `pat` for values of type t
  TR declare(const Expr& pat, const Ty& t, bool isArg) {
    if (pat.id == TID::ID_LOCAL) { if (!addLocal(pat.name, t, isArg)) return TR::Rej("local-shadowing"); return TR::Ok(Ty::Logic()); }
    if (pat.id == TID::NT_TUPLE_DECL) {
      if (!t.isTuple() || t.comps.size() != pat.kids.size()) return TR::Rej("invalid-binding");
      for (size_t i = 0; i < pat.kids.size(); ++i) { TR r = declare(*pat.kids[i], t.comps[i], isArg); if (!r.ok()) return r; }
      return TR::Ok(Ty::Logic());
    }
    if (pat.id == TID::NT_ENUM_DECL) { for (auto& k : pat.kids) { TR r = declare(*k, t, isArg); if (!r.ok()) return r; } return TR::Ok(Ty::Logic()); }
    return TR::Rej("bad-pattern");
  }
  // type of a child that must be a term (typification); LOGIC in a term position is ill-typed
  TR term(const Expr& e, const Expr* parent) {
    TR r = ty(e, parent); if (!r.ok()) return r;
    if (r.t.k == Ty::LOGIC) return TR::Rej("logic-in-term-position");
    return r;
  }
  // child must denote a set; returns its element type (the any-type passes through)
  TR elemOf(const Expr& e, const Expr* parent, const char* rule) {
    TR r = ty(e, parent); if (!r.ok()) return r;
    if (r.t.k == Ty::LOGIC) return TR::Rej("logic-in-term-position");
    if (r.t.isAny()) return r;
    if (!r.t.isSet()) return TR::Rej(rule);
    return TR::Ok(r.t.elem());
  }
  static bool structureDomain(const Expr& e) {
    switch (e.id) { case TID::LIT_INTSET: case TID::ID_GLOBAL: case TID::BOOLEAN: case TID::DECART: case TID::NT_ENUMERATION: break; default: return false; }
    for (auto& k : e.kids) if (!structureDomain(*k)) return false;
    return true;
  }

  TR ty(const Expr& e, const Expr* parent) {
    switch (e.id) {
      case TID::PUNC_STRUCT: {
        if (e.kids.size() != 2 || !structureDomain(*e.kids[1])) return TR::Rej("global-structure");
        TR r = term(*e.kids[1], &e); if (!r.ok()) return r;
        if (!r.t.isSet()) return TR::Rej("global-structure-not-set");
        return TR::Ok(r.t.elem());
      }
      case TID::PUNC_DEFINE:
        if (e.kids.size() == 1) return TR::Ok(Ty::Set(Ty::Base(e.kids[0]->name)));
        return ty(*e.kids[1], &e);
      case TID::NT_FUNC_DEFINITION: {
        startScope();
        funcDecl = true;
        for (auto& a : e.kids[0]->kids) {
          TR d = elemOf(*a->kids[1], a.get(), "invalid-type-operation"); if (!d.ok()) { funcDecl = false; return d; }
          TR r = declare(*a->kids[0], d.t, true); if (!r.ok()) { funcDecl = false; return r; }
          // the declared arguments are the parameters in order, whatever bound variables their domains declared before
          // them (also under the same name)
          if (a->kids[0]->id == TID::ID_LOCAL) declaredArgs.emplace_back(a->kids[0]->name, d.t);
        }
        funcDecl = false;
        TR body = ty(*e.kids[1], &e); if (!body.ok()) return body;
        endScope();
        return body;
      }
      case TID::NT_FUNC_CALL: {
        const std::string& fn = e.kids[0]->name;
        const FuncDef* f = G.func(fn);
        if (!f) { if (G.find(fn) || logicGlobals.count(fn)) return TR::Rej("global-func-missing"); return TR::Rej("global-not-typed"); }
        if (f->args.size() != e.kids.size() - 1) return TR::Rej("invalid-args-arity");
        std::map<std::string, Ty> subst;
        for (size_t i = 1; i < e.kids.size(); ++i) {
          TR a = term(*e.kids[i], &e); if (!a.ok()) return a;
          if (!compareTemplated(subst, mangle(f->args[i - 1].second, fn), a.t)) return TR::Rej("invalid-argument-type");
        }
        if (f->result.k == Ty::LOGIC) return TR::Ok(Ty::Logic());
        return TR::Ok(mangle(f->result, fn).subst(subst));
      }
      case TID::ID_GLOBAL: case TID::ID_FUNCTION: case TID::ID_PREDICATE: {
        if (G.func(e.name)) return TR::Rej("global-func-without-args");
        if (auto it = logicGlobals.find(e.name); it != logicGlobals.end()) return TR::Ok(it->second);
        const Global* g = G.find(e.name); if (!g) return TR::Rej("global-not-typed");
        return TR::Ok(g->type);
      }
      case TID::ID_RADICAL: if (!funcDecl) return TR::Rej("radical-usage"); return TR::Ok(Ty::Set(Ty::Base(e.name)));
      case TID::ID_LOCAL: {
        for (auto& l : locals) if (l.name == e.name) { if (!l.enabled) return TR::Rej("local-out-of-scope"); return TR::Ok(l.type); }
        return TR::Rej("local-undeclared");
      }
      case TID::LIT_INTEGER: return TR::Ok(Ty::Base("Z"));
      case TID::LIT_INTSET: return TR::Ok(Ty::Set(Ty::Base("Z")));
      case TID::LIT_EMPTYSET: {
        if (parent) switch (parent->id) { case TID::CARD: case TID::DEBOOL: case TID::UNION: case TID::INTERSECTION: case TID::SET_MINUS: case TID::SYMMINUS: case TID::REDUCE: case TID::BIGPR: case TID::SMALLPR: return TR::Rej("invalid-empty-set-usage"); default: break; }
        return TR::Ok(Ty::Set(Ty::Base("R0")));
      }
      case TID::PLUS: case TID::MINUS: case TID::MULTIPLY: {
        TR a = term(*e.kids[0], &e); if (!a.ok()) return a; if (!arithmetic(a.t)) return TR::Rej("arithmetic-not-supported");
        TR b = term(*e.kids[1], &e); if (!b.ok()) return b; if (!arithmetic(b.t)) return TR::Rej("arithmetic-not-supported");
        auto m = merge(a.t, b.t); if (!m) return TR::Rej("types-not-compatible"); return TR::Ok(*m);
      }
      case TID::CARD: { TR a = elemOf(*e.kids[0], &e, "invalid-card"); if (!a.ok()) return a; return TR::Ok(Ty::Base("Z")); }
      case TID::FORALL: case TID::EXISTS: {
        startScope();
        TR d = elemOf(*e.kids[1], &e, "invalid-type-operation"); if (!d.ok()) return d;
        TR r = declare(*e.kids[0], d.t, false); if (!r.ok()) return r;
        TR b = ty(*e.kids[2], &e); if (!b.ok()) return b;
        endScope(); return TR::Ok(Ty::Logic());
      }
      case TID::NOT: case TID::AND: case TID::OR: case TID::IMPLICATION: case TID::EQUIVALENT: {
        for (auto& k : e.kids) { TR r = ty(*k, &e); if (!r.ok()) return r; }
        return TR::Ok(Ty::Logic());
      }
      case TID::EQUAL: case TID::NOTEQUAL: {
        TR a = term(*e.kids[0], &e); if (!a.ok()) return a; TR b = term(*e.kids[1], &e); if (!b.ok()) return b;
        if (!compatible(a.t, b.t)) return TR::Rej("types-not-compatible"); return TR::Ok(Ty::Logic());
      }
      case TID::GREATER: case TID::LESSER: case TID::GREATER_OR_EQ: case TID::LESSER_OR_EQ: {
        TR a = term(*e.kids[0], &e); if (!a.ok()) return a; if (!ordered(a.t)) return TR::Rej("ordering-not-supported");
        TR b = term(*e.kids[1], &e); if (!b.ok()) return b; if (!ordered(b.t)) return TR::Rej("ordering-not-supported");
        if (!compatible(a.t, b.t)) return TR::Rej("types-not-compatible"); return TR::Ok(Ty::Logic());
      }
      case TID::IN: case TID::NOTIN: case TID::SUBSET: case TID::SUBSET_OR_EQ: case TID::NOTSUBSET: {
        TR s = elemOf(*e.kids[1], &e, "invalid-type-operation"); if (!s.ok()) return s;
        const bool subset = e.id == TID::SUBSET || e.id == TID::SUBSET_OR_EQ || e.id == TID::NOTSUBSET;
        const Ty rhs = subset ? Ty::Set(s.t) : s.t;
        TR a = ty(*e.kids[0], &e); if (!a.ok()) return a;
        if (!compatible(a.t, rhs)) return TR::Rej(subset ? "types-not-equal" : "invalid-element-predicate");
        return TR::Ok(Ty::Logic());
      }
      case TID::NT_DECLARATIVE_EXPR: {
        startScope();
        TR d = elemOf(*e.kids[1], &e, "invalid-type-operation"); if (!d.ok()) return d;
        TR r = declare(*e.kids[0], d.t, false); if (!r.ok()) return r;
        TR p = ty(*e.kids[2], &e); if (!p.ok()) return p;
        endScope(); return TR::Ok(Ty::Set(d.t));
      }
      case TID::NT_IMPERATIVE_EXPR: {
        startScope();
        for (size_t i = 1; i < e.kids.size(); ++i) { TR r = ty(*e.kids[i], &e); if (!r.ok()) return r; }
        TR v = term(*e.kids[0], &e); if (!v.ok()) return v;
        endScope(); return TR::Ok(Ty::Set(v.t));
      }
      case TID::ITERATE: { TR d = elemOf(*e.kids[1], &e, "invalid-type-operation"); if (!d.ok()) return d; TR r = declare(*e.kids[0], d.t, false); if (!r.ok()) return r; return TR::Ok(Ty::Logic()); }
      case TID::ASSIGN: { TR d = term(*e.kids[1], &e); if (!d.ok()) return d; TR r = declare(*e.kids[0], d.t, false); if (!r.ok()) return r; return TR::Ok(Ty::Logic()); }
      case TID::NT_RECURSIVE_FULL: case TID::NT_RECURSIVE_SHORT: {
        startScope();
        TR init = term(*e.kids[1], &e); if (!init.ok()) return init;
        { TR r = declare(*e.kids[0], init.t, false); if (!r.ok()) return r; }
        const size_t stepIdx = e.id == TID::NT_RECURSIVE_FULL ? 3 : 2;
        TR it = term(*e.kids[stepIdx], &e); if (!it.ok()) return it;
        if (!compatible(it.t, init.t)) return TR::Rej("types-not-equal");
        int rounds = 0;
        for (int retries = 5; retries > 0; --retries) {
          clearScopeLocals();
          { TR r = declare(*e.kids[0], it.t, false); if (!r.ok()) return r; }
          TR nx = term(*e.kids[stepIdx], &e); if (!nx.ok()) return nx;
          if (nx.t == it.t) break;
          it = nx; ++rounds;
        }
        if (rounds > 1) return TR::Unspec("recursion-deduction-rounds");
        if (e.id == TID::NT_RECURSIVE_FULL) { TR c = ty(*e.kids[2], &e); if (!c.ok()) return c; }
        endScope();
        // the value is the initial one when no iteration is made: the result type covers both (R{a:=S2|1=2|∅} is a set of pairs)
        { auto m = merge(init.t, it.t); if (!m) return TR::Rej("types-not-equal"); return TR::Ok(*m); }
      }
      case TID::DECART: {
        std::vector<Ty> fs;
        for (auto& k : e.kids) { TR r = elemOf(*k, &e, "invalid-decart"); if (!r.ok()) return r; fs.push_back(r.t); }
        return TR::Ok(Ty::Set(Ty::Tuple(fs)));
      }
      case TID::BOOLEAN: { TR r = elemOf(*e.kids[0], &e, "invalid-boolean"); if (!r.ok()) return r; return TR::Ok(Ty::Set(Ty::Set(r.t))); }
      case TID::NT_TUPLE: { std::vector<Ty> cs; for (auto& k : e.kids) { TR r = term(*k, &e); if (!r.ok()) return r; cs.push_back(r.t); } return TR::Ok(Ty::Tuple(cs)); }
      case TID::NT_ENUMERATION: case TID::BOOL: {
        TR first = term(*e.kids[0], &e); if (!first.ok()) return first;
        Ty t = first.t;
        for (size_t i = 1; i < e.kids.size(); ++i) { TR r = term(*e.kids[i], &e); if (!r.ok()) return r; auto m = merge(t, r.t); if (!m) return TR::Rej("invalid-enumeration"); t = *m; }
        return TR::Ok(Ty::Set(t));
      }
      case TID::DEBOOL: { TR r = elemOf(*e.kids[0], &e, "invalid-debool"); return r; }
      case TID::UNION: case TID::INTERSECTION: case TID::SET_MINUS: case TID::SYMMINUS: {
        TR a = elemOf(*e.kids[0], &e, "invalid-type-operation"); if (!a.ok()) return a;
        TR b = elemOf(*e.kids[1], &e, "invalid-type-operation"); if (!b.ok()) return b;
        auto m = merge(a.t, b.t); if (!m) return TR::Rej("types-not-equal"); return TR::Ok(Ty::Set(*m));
      }
      case TID::BIGPR: {
        TR a = elemOf(*e.kids[0], &e, "invalid-projection-set"); if (!a.ok()) return a;
        if (a.t.isAny()) return TR::Ok(Ty::Set(Ty::Base("R0")));
        if (!a.t.isTuple()) return TR::Rej("invalid-projection-set");
        std::vector<Ty> cs; for (int i : e.idx) { if (i < 1 || static_cast<size_t>(i) > a.t.comps.size()) return TR::Rej("invalid-projection-set"); cs.push_back(a.t.comps[static_cast<size_t>(i - 1)]); }
        if (cs.empty()) return TR::Unspec("projection-without-indices");
        return TR::Ok(Ty::Set(Ty::Tuple(cs)));
      }
      case TID::SMALLPR: {
        TR a = term(*e.kids[0], &e); if (!a.ok()) return a;
        if (a.t.isAny()) return a;
        if (!a.t.isTuple()) return TR::Rej("invalid-projection-tuple");
        std::vector<Ty> cs; for (int i : e.idx) { if (i < 1 || static_cast<size_t>(i) > a.t.comps.size()) return TR::Rej("invalid-projection-tuple"); cs.push_back(a.t.comps[static_cast<size_t>(i - 1)]); }
        if (cs.empty()) return TR::Unspec("projection-without-indices");
        return TR::Ok(Ty::Tuple(cs));
      }
      case TID::FILTER: {
        const size_t np = e.kids.size() - 1;
        const bool tupleParam = e.idx.size() == np;
        if (!tupleParam && e.kids.size() > 2) return TR::Rej("invalid-filter-arity");
        TR arg = term(*e.kids.back(), &e); if (!arg.ok()) return arg;
        if (arg.t.isAny() || (arg.t.isSet() && arg.t.elem().isAny())) {
          // filtering the empty set: nothing to compare the parameters with, but they are subterms and must be typed themselves
          for (size_t i = 0; i < np; ++i) { TR p = term(*e.kids[i], &e); if (!p.ok()) return p; }
          return TR::Ok(Ty::Set(Ty::Base("R0")));
        }
        if (!arg.t.isSet() || !arg.t.elem().isTuple()) return TR::Rej("invalid-filter-argument-type");
        std::vector<Ty> bases;
        for (int i : e.idx) { if (i < 1 || static_cast<size_t>(i) > arg.t.elem().comps.size()) return TR::Rej("invalid-filter-argument-type"); bases.push_back(arg.t.elem().comps[static_cast<size_t>(i - 1)]); }
        if (bases.empty()) return TR::Unspec("filter-without-indices");
        if (tupleParam) {
          for (size_t i = 0; i < np; ++i) { TR p = term(*e.kids[i], &e); if (!p.ok()) return p; if (!p.t.isSet() || !compatible(bases[i], p.t.elem())) return TR::Rej("types-not-equal"); }
        } else {
          TR p = term(*e.kids[0], &e); if (!p.ok()) return p;
          const Ty expected = Ty::Set(Ty::Tuple(bases));
          if (!p.t.isSet() || !compatible(expected, p.t)) return TR::Rej("types-not-equal");
        }
        return TR::Ok(arg.t);
      }
      case TID::REDUCE: {
        TR a = term(*e.kids[0], &e); if (!a.ok()) return a;
        if (a.t.isAny() || (a.t.isSet() && a.t.elem().isAny())) return TR::Ok(Ty::Set(Ty::Base("R0")));
        if (!a.t.isSet() || !a.t.elem().isSet()) return TR::Rej("invalid-reduce");
        return TR::Ok(a.t.elem());
      }
      default: return TR::Unspec(std::string("node:") + kindName(e.id));
    }
  }
};


// ---- reference value-class judgment (value / props), transcribed from upstream's testValueAuditor expectations:
// a "property" (power set, Z, anything built from them by product / union / ...) may be tested for membership or
// inclusion but must not be enumerated, measured, projected, compared for equality or stored in a tuple / enumeration.
struct VR { bool ok = true; VClass cls = VClass::value; std::string rule; static VR Ok(VClass c) { VR r; r.cls = c; return r; } static VR Rej(std::string rule) { VR r; r.ok = false; r.rule = std::move(rule); return r; } };

class ValueJudge {
public:
  const Gamma& G;
  std::set<std::string> localProps;
  explicit ValueJudge(const Gamma& g) : G(g) {}
  VR check(const EP& e) { return vc(*e); }
private:
  VR mustBeValue(const Expr& e) { VR r = vc(e); if (!r.ok) return r; if (r.cls != VClass::value) return VR::Rej("property-used-as-value"); return r; }
  VR allValues(const Expr& e) { for (auto& k : e.kids) { VR r = mustBeValue(*k); if (!r.ok) return r; } return VR::Ok(VClass::value); }
  VR visitAll(const Expr& e, VClass result) { for (auto& k : e.kids) { VR r = vc(*k); if (!r.ok) return r; } return VR::Ok(result); }
  VClass globalClass(const std::string& n) const { if (const Global* g = G.find(n)) return g->props ? VClass::props : VClass::value; if (G.func(n)) return VClass::value; return VClass::invalid; }
  VR vc(const Expr& e) {
    switch (e.id) {
      case TID::PUNC_STRUCT: { VR r = vc(*e.kids[1]); if (!r.ok) return r; return VR::Ok(VClass::value); }
      case TID::PUNC_DEFINE: if (e.kids.size() == 1) return VR::Ok(VClass::value); return vc(*e.kids[1]);
      case TID::NT_FUNC_DEFINITION: { for (auto& a : e.kids[0]->kids) { VR r = vc(*a->kids[1]); if (!r.ok) return r; } return vc(*e.kids[1]); }
      case TID::NT_FUNC_CALL: {
        const std::string& fn = e.kids[0]->name;
        if (globalClass(fn) == VClass::invalid) return VR::Rej("global-no-value");
        bool allValue = true; std::vector<VClass> args;
        for (size_t i = 1; i < e.kids.size(); ++i) { VR r = vc(*e.kids[i]); if (!r.ok) return r; args.push_back(r.cls); allValue = allValue && r.cls == VClass::value; }
        if (allValue) return VR::Ok(globalClass(fn));
        const FuncDef* f = G.func(fn); if (!f) return VR::Rej("global-missing-ast");
        ValueJudge inner(G);
        for (size_t i = 0; i < args.size() && i < f->args.size(); ++i) if (args[i] == VClass::props) inner.localProps.insert(f->args[i].first);
        VR r = inner.vc(*f->body); if (!r.ok) return VR::Rej("function-not-interpretable-for-arguments");
        return r;
      }
      case TID::ID_GLOBAL: case TID::ID_FUNCTION: case TID::ID_PREDICATE: { const VClass c = globalClass(e.name); if (c == VClass::invalid) return VR::Rej("global-no-value"); return VR::Ok(c); }
      case TID::ID_RADICAL: return VR::Ok(VClass::value);
      case TID::ID_LOCAL: return VR::Ok(localProps.count(e.name) ? VClass::props : VClass::value);
      case TID::LIT_INTEGER: case TID::LIT_EMPTYSET: return VR::Ok(VClass::value);
      case TID::LIT_INTSET: return VR::Ok(VClass::props);
      case TID::NT_TUPLE_DECL: case TID::NT_ENUM_DECL: return VR::Ok(VClass::value);
      case TID::PLUS: case TID::MINUS: case TID::MULTIPLY: case TID::NOT: case TID::AND: case TID::OR: case TID::IMPLICATION: case TID::EQUIVALENT:
      case TID::GREATER: case TID::LESSER: case TID::GREATER_OR_EQ: case TID::LESSER_OR_EQ: return visitAll(e, VClass::value);
      case TID::CARD: case TID::BOOL: case TID::DEBOOL: case TID::REDUCE: case TID::BIGPR: case TID::SMALLPR: return mustBeValue(*e.kids[0]);
      case TID::FORALL: case TID::EXISTS: { VR d = mustBeValue(*e.kids[1]); if (!d.ok) return d; return vc(*e.kids[2]); }
      case TID::EQUAL: case TID::NOTEQUAL: case TID::NT_TUPLE: case TID::NT_ENUMERATION: return allValues(e);
      case TID::NT_RECURSIVE_FULL: case TID::NT_RECURSIVE_SHORT: { for (size_t i = 1; i < e.kids.size(); ++i) { VR r = mustBeValue(*e.kids[i]); if (!r.ok) return r; } return VR::Ok(VClass::value); }
      case TID::IN: case TID::NOTIN: case TID::SUBSET_OR_EQ: { VR s = vc(*e.kids[1]); if (!s.ok) return s; return mustBeValue(*e.kids[0]); }
      case TID::SUBSET: case TID::NOTSUBSET: return allValues(e);
      case TID::NT_DECLARATIVE_EXPR: { VR p = vc(*e.kids[2]); if (!p.ok) return p; return vc(*e.kids[1]); }
      case TID::NT_IMPERATIVE_EXPR: { for (size_t i = 1; i < e.kids.size(); ++i) { VR r = vc(*e.kids[i]); if (!r.ok) return r; } return mustBeValue(*e.kids[0]); }
      case TID::ITERATE: case TID::ASSIGN: return mustBeValue(*e.kids[1]);
      case TID::DECART: { VClass c = VClass::value; for (auto& k : e.kids) { VR r = vc(*k); if (!r.ok) return r; if (r.cls == VClass::props) c = VClass::props; } return VR::Ok(c); }
      case TID::BOOLEAN: { VR r = vc(*e.kids[0]); if (!r.ok) return r; return VR::Ok(VClass::props); }
      case TID::FILTER: { VR last; for (auto& k : e.kids) { last = vc(*k); if (!last.ok) return last; } return last; }
      case TID::UNION: case TID::INTERSECTION: case TID::SET_MINUS: case TID::SYMMINUS: {
        VR a = vc(*e.kids[0]); if (!a.ok) return a; VR b = vc(*e.kids[1]); if (!b.ok) return b;
        const bool v1 = a.cls == VClass::value, v2 = b.cls == VClass::value;
        const bool value = e.id == TID::INTERSECTION ? (v1 || v2) : e.id == TID::SET_MINUS ? v1 : (v1 && v2);
        return VR::Ok(value ? VClass::value : VClass::props);
      }
      default: return VR::Rej(std::string("node:") + kindName(e.id));
    }
  }
};

}  // namespace rs
