// sdcompact_model.hpp - helpers for the compact-encoding checks (C16 harness and the fz_compact fuzz target).
//
//   cpt::Table                      vector<vector<int32_t>>  (SDCompact::Data)
//   cpt::encode(value, type)        model encoder, written from the documented examples in upstream's testSDCompact.cpp;
//                                   used only as a *generator* of well-formed tables (never as an oracle)
//   cpt::str(table)                 [[2 1] [2 5]]
//   cpt::decodeOracle(table, type)  the decode half of the property: Unpack never faults (sanitizers / escaped
//                                   exceptions are caught by the caller) and returns nothing or a value that passes the
//                                   deep structural check against the type; a decoded value, being a compatible value,
//                                   must itself survive pack -> unpack
#pragma once

#include "model/rsvalue.hpp"

#include "ccl/rslang/SDataCompact.h"

#include <cstdint>
#include <string>
#include <vector>

namespace cpt {

using Table = std::vector<std::vector<int32_t>>;
constexpr int32_t kUnknownCount = 10000000;  // documented marker "element count not recorded" (SDCompact::unknownCount)

inline std::string str(const Table& t) {
  std::string o = "[";
  for (size_t r = 0; r < t.size(); ++r) {
    o += r ? " [" : "[";
    for (size_t i = 0; i < t[r].size(); ++i) { if (i) o += ' '; o += std::to_string(t[r][i]); }
    o += "]";
  }
  return o + "]";
}

// Format (from the upstream examples): one open row; a basic element appends its id; a tuple appends its components;
// an empty set appends one 0 per header column of its type; a non-empty set appends its cardinality and then repeats
// the row prefix (up to and including the count) once per element, each followed by the element's encoding.
struct Encoder {
  Table rows{{}};
  void put(const rsv::Value& v, const rsv::Type& t) {
    if (t.isBasic()) { rows.back().push_back(static_cast<int32_t>(v.num)); return; }
    if (t.isTuple()) { for (size_t i = 0; i < t.kids.size(); ++i) put(v.items[i], t.kids[i]); return; }
    if (v.items.empty()) { const size_t n = rsv::header(t).size(); for (size_t i = 0; i < n; ++i) rows.back().push_back(0); return; }
    rows.back().push_back(static_cast<int32_t>(v.items.size()));
    const std::vector<int32_t> prefix = rows.back();
    for (const auto& e : v.items) { put(e, t.elem()); rows.push_back(prefix); }
    rows.pop_back();
  }
};
inline Table encode(const rsv::Value& v, const rsv::Type& t) { Encoder e; e.put(v, t); return e.rows; }

struct DecodeResult {
  bool decoded = false;
  std::string oracle, msg;  // non-empty oracle = violation
  bool failed() const { return !oracle.empty(); }
};

inline DecodeResult decodeOracle(const Table& table, const rsv::Type& t, const ccl::rslang::Typification& libType) {
  namespace obj = ccl::object;
  DecodeResult r;
  const auto got = obj::SDCompact::Unpack(table, libType);
  const auto viaMember = obj::SDCompact(libType, table).Unpack(libType);
  if (got.has_value() != viaMember.has_value()) { r.oracle = "decode-paths"; r.msg = "static and member Unpack disagree on acceptance"; return r; }
  if (!got.has_value()) return r;
  r.decoded = true;
  if (const auto why = rsv::conforms(*got, t); !why.empty()) { r.oracle = "decode-type"; r.msg = "Unpack returned a value outside the type: " + why; return r; }
  if (!obj::CheckCompatible(*got, libType)) { r.oracle = "decode-type"; r.msg = "Unpack returned a value that CheckCompatible rejects"; return r; }
  rsv::ReadInfo info;
  const rsv::Value mv = rsv::fromLib(*got, &info);
  if (!info.clean()) { r.oracle = "decode-value"; r.msg = "decoded value is not a proper set: " + info.where; return r; }
  if (!(*viaMember == *got)) { r.oracle = "decode-paths"; r.msg = "static and member Unpack return different values"; return r; }
  // the decoded value is a value compatible with the type: the round-trip half applies to it
  const auto packed = obj::SDCompact::FromSData(*got, libType);
  const auto again = obj::SDCompact::Unpack(packed.data, libType);
  if (!again.has_value()) { r.oracle = "repack-roundtrip"; r.msg = "value " + rsv::str(mv) + " decoded from the table packs to " + str(packed.data) + " which does not unpack"; return r; }
  if (!(*again == *got) || rsv::fromLib(*again) != mv) { r.oracle = "repack-roundtrip"; r.msg = "value " + rsv::str(mv) + " packs to " + str(packed.data) + " which unpacks to " + rsv::str(rsv::fromLib(*again)); return r; }
  return r;
}

}  // namespace cpt
