// Near-miss mutation of well-typed RSLang trees: every operator keeps the text grammatical, most results are
// ill-typed, some stay well-typed with another meaning.  Used by C02 (over-acceptance must still evaluate safely)
// and C03 (verdict / typification against the reference typing judgment).
#pragma once

#include "model/rstyped.hpp"

namespace rs {

struct Slot { Expr* parent; size_t index; };

inline bool isTermNode(const Expr& e) {
  switch (e.id) {
    case TID::ID_LOCAL: case TID::ID_GLOBAL: case TID::LIT_INTEGER: case TID::LIT_EMPTYSET: case TID::LIT_INTSET: case TID::PLUS: case TID::MINUS: case TID::MULTIPLY:
    case TID::UNION: case TID::INTERSECTION: case TID::SET_MINUS: case TID::SYMMINUS: case TID::DECART: case TID::BOOLEAN: case TID::BOOL: case TID::DEBOOL:
    case TID::REDUCE: case TID::CARD: case TID::BIGPR: case TID::SMALLPR: case TID::FILTER: case TID::NT_TUPLE: case TID::NT_ENUMERATION: case TID::NT_DECLARATIVE_EXPR:
    case TID::NT_RECURSIVE_FULL: case TID::NT_RECURSIVE_SHORT: case TID::NT_IMPERATIVE_EXPR: return true;
    case TID::NT_FUNC_CALL: return e.kids[0]->id == TID::ID_FUNCTION;
    default: return false;
  }
}
inline bool isDeclPosition(const Expr& parent, size_t index) {
  switch (parent.id) {
    case TID::FORALL: case TID::EXISTS: case TID::NT_DECLARATIVE_EXPR: case TID::NT_RECURSIVE_FULL: case TID::NT_RECURSIVE_SHORT: case TID::ITERATE: case TID::ASSIGN: return index == 0;
    case TID::NT_TUPLE_DECL: case TID::NT_ENUM_DECL: return true;
    case TID::NT_FUNC_CALL: case TID::PUNC_DEFINE: case TID::PUNC_STRUCT: case TID::NT_ARG_DECL: return index == 0;
    default: return false;
  }
}
inline void collectTermSlots(Expr& e, std::vector<Slot>& out) {
  for (size_t i = 0; i < e.kids.size(); ++i) {
    if (isDeclPosition(e, i)) continue;
    if (isTermNode(*e.kids[i])) out.push_back({&e, i});
    collectTermSlots(*e.kids[i], out);
  }
}
inline void collectNodes(Expr& e, std::vector<Expr*>& out) { out.push_back(&e); for (auto& k : e.kids) collectNodes(*k, out); }

// returns a mutated deep copy and the name of the operator applied ("" if nothing applicable)
inline EP mutate(pbt::Ctx& c, const EP& original, const Gamma& G, std::string& opName, int forceOp = -1) {
  EP root = mk(TID::PUNC_PL, {clone(original)});  // artificial holder so that the root itself is a slot
  std::vector<Slot> slots; collectTermSlots(*root, slots);
  std::vector<Expr*> nodes; collectNodes(*root->kids[0], nodes);
  for (int attempt = 0; attempt < 6; ++attempt) {
    const int op = forceOp >= 0 && attempt == 0 ? forceOp : c.ipick(0, 9);
    switch (op) {
      case 0: {  // swap operands of a binary node
        std::vector<Expr*> bin; for (auto* n : nodes) if (n->kids.size() == 2 && (isSetexprBinary(n->id) || isLogicBin(n->id) || (isPredicateOp(n->id) && n->id != TID::ITERATE && n->id != TID::ASSIGN))) bin.push_back(n);
        if (bin.empty()) break;
        Expr* n = c.oneof(bin); std::swap(n->kids[0], n->kids[1]); opName = "swap-operands"; return root->kids[0];
      }
      case 1: {  // wrap a term into a structure-changing operator
        if (slots.empty()) break;
        const Slot s = c.oneof(slots);
        static const std::vector<TID> wraps = {TID::BOOL, TID::DEBOOL, TID::REDUCE, TID::BOOLEAN, TID::NT_ENUMERATION, TID::CARD};
        const TID w = c.oneof(wraps);
        s.parent->kids[s.index] = mk(w, {s.parent->kids[s.index]}); opName = std::string("wrap-") + kindName(w); return root->kids[0];
      }
      case 2: {  // unwrap: replace a unary structure operator by its operand
        std::vector<Slot> un; for (auto& s : slots) { const Expr& k = *s.parent->kids[s.index]; if (k.kids.size() == 1 && (isTextFn(k.id) || k.id == TID::BOOLEAN || k.id == TID::NT_ENUMERATION)) un.push_back(s); }
        if (un.empty()) break;
        const Slot s = c.oneof(un); s.parent->kids[s.index] = s.parent->kids[s.index]->kids[0]; opName = "unwrap"; return root->kids[0];
      }
      case 3: {  // replace a term by a corner-case leaf
        if (slots.empty()) break;
        const Slot s = c.oneof(slots);
        const int w = c.ipick(0, 7);
        EP r;
        std::vector<std::string> fnames; for (auto& f : G.funcs) fnames.push_back(f.name);
        std::vector<std::string> gnames; for (auto& g : G.globals) gnames.push_back(g.name);
        if (w == 0) r = mk(TID::LIT_EMPTYSET);
        else if (w == 1) r = mkInt(c.pick(0, 3));
        else if (w == 2) r = mk(TID::LIT_INTSET);
        else if (w == 3 && !fnames.empty()) { const auto n = c.oneof(fnames); r = mkName(n[0] == 'F' ? TID::ID_FUNCTION : TID::ID_PREDICATE, n); }
        else if (w == 4) r = mkName(TID::ID_GLOBAL, c.coin() ? "X9" : "A1");
        else if (w == 5) r = mkName(TID::ID_RADICAL, "R1");
        else if (w == 6) r = mkName(TID::ID_LOCAL, c.coin() ? "zz" : "a");
        else r = mkName(TID::ID_GLOBAL, c.oneof(gnames));
        s.parent->kids[s.index] = r; opName = "corner-leaf"; return root->kids[0];
      }
      case 4: {  // projection / filter index off by one
        std::vector<Expr*> ix; for (auto* n : nodes) if (!n->idx.empty()) ix.push_back(n);
        if (ix.empty()) break;
        Expr* n = c.oneof(ix); const size_t k = static_cast<size_t>(c.ipick(0, static_cast<int>(n->idx.size()) - 1));
        n->idx[k] = std::max(1, n->idx[k] + (c.coin() ? 1 : -1)); if (c.chance(1, 5)) n->idx.push_back(1);
        opName = "index-off-by-one"; return root->kids[0];
      }
      case 5: {  // rename one occurrence of a local (use or declaration): to a name from a pool, or - more often - to the
                 // name of another local of the same tree (in scope with another type, or out of scope)
        std::vector<Expr*> ls; for (auto* n : nodes) if (n->id == TID::ID_LOCAL) ls.push_back(n);
        if (ls.empty()) break;
        Expr* n = c.oneof(ls);
        std::vector<std::string> others; for (auto* o : ls) if (o->name != n->name && std::find(others.begin(), others.end(), o->name) == others.end()) others.push_back(o->name);
        static const std::vector<std::string> pool = {"a", "b", "x", "y", "ab", "q9"};
        std::string nn = (!others.empty() && c.chance(3, 4)) ? c.oneof(others) : c.oneof(pool); if (nn == n->name) nn += "1";
        opName = others.empty() ? "rename-local" : "rename-local-to-sibling";
        n->name = nn; return root->kids[0];
      }
      case 6: {  // change the arity of an enumeration / tuple / product / call / pattern
        std::vector<Expr*> ar; for (auto* n : nodes) if (n->id == TID::NT_TUPLE || n->id == TID::NT_ENUMERATION || n->id == TID::DECART || n->id == TID::NT_TUPLE_DECL || n->id == TID::NT_FUNC_CALL) ar.push_back(n);
        if (ar.empty()) break;
        Expr* n = c.oneof(ar);
        const size_t minKids = n->id == TID::NT_ENUMERATION ? 1 : n->id == TID::NT_FUNC_CALL ? 2 : 2;
        if (c.coin() && n->kids.size() > minKids) n->kids.pop_back(); else n->kids.push_back(clone(n->kids.back()));
        if (n->id == TID::NT_TUPLE_DECL && n->kids.back()->id == TID::ID_LOCAL) n->kids.back()->name += "2";
        opName = "change-arity"; return root->kids[0];
      }
      case 7: {  // replace an operator by a sibling of another typing rule
        std::vector<Expr*> cand; for (auto* n : nodes) if (n->kids.size() == 2 && (isSetexprBinary(n->id) || (isPredicateOp(n->id) && n->id != TID::ITERATE && n->id != TID::ASSIGN))) cand.push_back(n);
        if (cand.empty()) break;
        Expr* n = c.oneof(cand);
        static const std::vector<TID> terms = {TID::PLUS, TID::MULTIPLY, TID::UNION, TID::SET_MINUS, TID::DECART};
        static const std::vector<TID> preds = {TID::IN, TID::NOTIN, TID::SUBSET, TID::SUBSET_OR_EQ, TID::EQUAL, TID::NOTEQUAL, TID::LESSER, TID::GREATER_OR_EQ};
        const TID was = n->id; n->id = isPredicateOp(n->id) ? c.oneof(preds) : c.oneof(terms);
        if (n->id == was) break;
        opName = "sibling-operator"; return root->kids[0];
      }
      case 8: {  // duplicate a binder variable name inside its own pattern, or reuse an enclosing name (shadowing)
        std::vector<Expr*> decls; for (auto* n : nodes) if (n->id == TID::NT_TUPLE_DECL || n->id == TID::NT_ENUM_DECL) decls.push_back(n);
        if (decls.empty()) break;
        Expr* n = c.oneof(decls);
        if (n->kids.size() >= 2 && n->kids[0]->id == TID::ID_LOCAL && n->kids[1]->id == TID::ID_LOCAL) { n->kids[1]->name = n->kids[0]->name; opName = "duplicate-binder-name"; return root->kids[0]; }
        break;
      }
      case 10: {  // only on request (forceOp): one operand of a multi-operand node becomes the empty set - whose "any" type lets
                  // checkers take shortcuts - and a sibling operand becomes an undeclared variable, which must still be reported
        std::vector<Expr*> multi; for (auto* n : nodes) if (n->kids.size() >= 2 && (n->id == TID::FILTER || n->id == TID::NT_FUNC_CALL || n->id == TID::DECART || n->id == TID::NT_TUPLE || n->id == TID::NT_ENUMERATION || isSetBin(n->id) || n->id == TID::IN || n->id == TID::SUBSET || n->id == TID::EQUAL)) multi.push_back(n);
        if (multi.empty()) break;
        Expr* n = c.oneof(multi);
        const size_t first = n->id == TID::NT_FUNC_CALL ? 1 : 0;  // child 0 of a call is the function name
        if (n->kids.size() < first + 2) break;
        const size_t last = n->kids.size() - 1;
        size_t empty = c.chance(2, 3) ? last : first + static_cast<size_t>(c.ipick(0, static_cast<int>(last - first)));
        size_t bad = first + static_cast<size_t>(c.ipick(0, static_cast<int>(last - first) - 1)); if (bad >= empty) ++bad;
        n->kids[empty] = mk(TID::LIT_EMPTYSET);
        // the sibling is either undeclared (must be rejected) or a well-typed term of another shape (may be accepted; evaluation must stay safe)
        const bool undeclared = c.coin();
        n->kids[bad] = undeclared ? mkName(TID::ID_LOCAL, "q9") : c.coin() ? mkInt(1) : mk(TID::NT_TUPLE, {mkInt(1), mkInt(2)});
        opName = undeclared ? "empty-set-next-to-undeclared" : "empty-set-next-to-other-shape"; return root->kids[0];
      }
      default: {  // replace a term by a copy of another term of the same tree (scrambles types and scopes)
        if (slots.size() < 2) break;
        const Slot a = c.oneof(slots), b = c.oneof(slots);
        if (a.parent == b.parent && a.index == b.index) break;
        a.parent->kids[a.index] = clone(b.parent->kids[b.index]); opName = "transplant"; return root->kids[0];
      }
    }
  }
  opName = "";
  return root->kids[0];
}


// swap the names of local-variable USES among the locals of the tree (declarations stay): produces expressions in which a
// variable is used at the type of another one - ill-typed unless the two have compatible types
inline EP confuseLocals(pbt::Ctx& c, const EP& original, int times, int* applied) {
  EP root = clone(original);
  std::vector<Expr*> uses; std::vector<std::string> names;
  std::function<void(Expr&, Expr*, size_t)> walk = [&](Expr& e, Expr* parent, size_t idx) {
    if (e.id == TID::ID_LOCAL) {
      const bool decl = parent && (isDeclPosition(*parent, idx) || parent->id == TID::NT_TUPLE_DECL || parent->id == TID::NT_ENUM_DECL);
      if (!decl) uses.push_back(&e);
      if (std::find(names.begin(), names.end(), e.name) == names.end()) names.push_back(e.name);
    }
    for (size_t i = 0; i < e.kids.size(); ++i) walk(*e.kids[i], &e, i);
  };
  walk(*root, nullptr, 0);
  *applied = 0;
  if (uses.empty() || names.size() < 2) return root;
  for (int i = 0; i < times; ++i) {
    Expr* u = c.oneof(uses);
    const std::string nn = c.oneof(names);
    if (nn != u->name) { u->name = nn; ++*applied; }
  }
  return root;
}

}  // namespace rs
